/-
Strict decoder vs. lenient parser, part 1: number literals.

`Strict.number s = some (some v, rest)` consumes a text `t` (`s = t ++ rest`) made of number
characters, and `parseField t` (ParseInt base 0, then ParseFloat) yields the same `v`, provided the
literal is shorter than `numRunBound` = 9600 characters (beyond that the exponent caps of the two
readers genuinely disagree, see `Props/C03.lean`).
-/
import Anytype.Lemmas.RoundTrip
namespace Anytype
namespace SVP
open Strict

/-- A number literal (more generally: a run of number characters) must be shorter than this for
the agreement theorems.  `strconv.ParseFloat` stops accumulating exponent digits at 10000
(`F64.readExpDigits`), so an exponent of six or more digits is read as a number between 10000 and
99999; with fewer than 9600 mantissa digits that is still "out of range" or "zero", as for the true
exponent. -/
def numRunBound : Nat := 9600

/-! ### shape of what `number` consumes, for an arbitrary rest -/

/-- the exponent magnitude as `Strict.number` reads it -/
def capS (ed : Str) : Nat :=
  if (ed.dropWhile (· == '0')).length > 6 then 1000000 else digitsVal (ed.dropWhile (· == '0'))

/-- the exponent text and the exponent value `Strict.number` derives from it -/
def ExpText (et : Str) (ex : Option Int) : Prop :=
  (ex = none ∧ et = []) ∨
  ∃ (c : Char) (sg ed : Str) (sgn : Int), et = c :: sg ++ ed ∧ (c = 'e' ∨ c = 'E') ∧
    ((sg = [] ∧ sgn = 1) ∨ (sg = ['+'] ∧ sgn = 1) ∨ (sg = ['-'] ∧ sgn = -1)) ∧
    ed ≠ [] ∧ (∀ d ∈ ed, F64.isDigit d = true) ∧ ex = some (sgn * (capS ed : Int))

theorem expSign_cases (t : Str) :
    (∃ u, t = '+' :: u ∧ expSign t = (1, u)) ∨ (∃ u, t = '-' :: u ∧ expSign t = (-1, u)) ∨
    (expSign t = (1, t)) := by
  unfold expSign; split
  · exact .inl ⟨_, rfl, rfl⟩
  · exact .inr (.inl ⟨_, rfl, rfl⟩)
  · exact .inr (.inr rfl)

theorem expSplit_text (s : Str) (ex : Option Int) (rest : Str) (h : expSplit s = some (ex, rest)) :
    ∃ et, s = et ++ rest ∧ ExpText et ex := by
  cases s with
  | nil =>
    simp [expSplit] at h
    exact ⟨[], by simp [h.2], .inl ⟨h.1.symm, rfl⟩⟩
  | cons c t =>
    by_cases hc : (c == 'e' || c == 'E') = true
    · rw [expSplit_eq _ _ hc] at h
      simp only [] at h
      split at h
      · cases h
      · rename_i hne
        simp only [Option.some.injEq, Prod.mk.injEq] at h
        have hd := takeDigits_spec (expSign t).2
        have hce : c = 'e' ∨ c = 'E' := by simpa using hc
        have hne' : (takeDigits (expSign t).2).1 ≠ [] := by
          intro e; rw [e] at hne; simp at hne
        rcases expSign_cases t with ⟨u, ht, he⟩ | ⟨u, ht, he⟩ | he
        · rw [he] at h hd hne'
          refine ⟨c :: ['+'] ++ (takeDigits u).1, ?_, .inr ⟨c, ['+'], _, 1, rfl, hce, .inr (.inl ⟨rfl, rfl⟩), hne', hd.2, ?_⟩⟩
          · rw [ht, ← h.2]; simp only [List.cons_append, List.nil_append]
            rw [← hd.1]
          · rw [← h.1]; rfl
        · rw [he] at h hd hne'
          refine ⟨c :: ['-'] ++ (takeDigits u).1, ?_, .inr ⟨c, ['-'], _, -1, rfl, hce, .inr (.inr ⟨rfl, rfl⟩), hne', hd.2, ?_⟩⟩
          · rw [ht, ← h.2]; simp only [List.cons_append, List.nil_append]
            rw [← hd.1]
          · rw [← h.1]; rfl
        · rw [he] at h hd hne'
          refine ⟨c :: [] ++ (takeDigits t).1, ?_, .inr ⟨c, [], _, 1, rfl, hce, .inl ⟨rfl, rfl⟩, hne', hd.2, ?_⟩⟩
          · rw [← h.2]; simp only [List.cons_append, List.nil_append]
            rw [← hd.1]
          · rw [← h.1]; rfl
    · simp [expSplit, hc] at h
      exact ⟨[], by simp [h.2], .inl ⟨h.1.symm, rfl⟩⟩

/-- the parts of the text `number'` consumes -/
theorem number'_shape (s : Str) (v : Option JVal) (rest : Str) (h : number' s = some (v, rest)) :
    ∃ (neg : Bool) (d0 : Char) (more fp : Str) (hasFrac : Bool) (et : Str) (ex : Option Int),
      s = (if neg then ['-'] else []) ++ (d0 :: more) ++ (if hasFrac then '.' :: fp else []) ++ et ++ rest ∧
      (∀ c ∈ d0 :: more, F64.isDigit c = true) ∧ (d0 = '0' → more = []) ∧
      (∀ c ∈ fp, F64.isDigit c = true) ∧ (hasFrac = true → fp ≠ []) ∧ (hasFrac = false → fp = []) ∧
      ExpText et ex ∧ numFinal neg (d0 :: more) fp hasFrac ex rest = some (v, rest) := by
  unfold number' at h
  simp only [] at h
  have h1 := signSplit_spec s
  have h2 := takeDigits_spec (signSplit s).2
  have h3 := fracSplit_spec (takeDigits (signSplit s).2).2
  generalize signSplit s = p at *
  generalize takeDigits p.2 = q at *
  generalize fracSplit q.2 = fr at *
  obtain ⟨neg, s1⟩ := p
  obtain ⟨ip, s2⟩ := q
  obtain ⟨fp, s3, hasFrac⟩ := fr
  simp only [] at h h1 h2 h3
  cases ip with
  | nil => simp at h
  | cons d0 more =>
    simp only [] at h
    split at h
    · cases h
    · rename_i hz
      split at h
      · cases h
      · rename_i hfe
        split at h
        · cases h
        · rename_i ex rest' hex
          obtain ⟨et, he1, he2⟩ := expSplit_text _ _ _ hex
          have hrest : rest' = rest := by
            have := numFinal_append neg (d0 :: more) fp hasFrac ex [] rest'
            simp only [List.nil_append] at this
            rw [this] at h
            cases hn : numFinal neg (d0 :: more) fp hasFrac ex [] with
            | none => rw [hn] at h; cases h
            | some pr =>
              rw [hn] at h
              simp only [Option.map_some, app, Option.some.injEq, Prod.mk.injEq] at h
              have h2' := h.2
              have : pr.2 = [] := by
                unfold numFinal at hn
                simp only [] at hn
                repeat' split at hn
                all_goals first | (cases hn; rfl) | cases hn
              rw [this] at h2'
              simpa using h2'
          subst hrest
          refine ⟨neg, d0, more, fp, hasFrac, et, ex, ?_, h2.2, ?_, h3.2.1, ?_, h3.2.2, he2, h⟩
          · rw [h1, h2.1, h3.1, he1]; simp
          · intro e; subst e
            simp at hz
            simpa using hz
          · intro e; subst e
            intro e'; subst e'
            simp at hfe

/-! ### decimal length, digit values -/

/-- the digit fold of `digitsVal` / `readMant` started at `x` -/
def dval (ds : Str) (x : Nat) : Nat := ds.foldl (fun n c => n * 10 + (c.toNat - 48)) x

theorem digitsVal_eq_dval (ds : Str) : digitsVal ds = dval ds 0 := by rfl

theorem dval_cons (c : Char) (ds : Str) (x : Nat) : dval (c :: ds) x = dval ds (x * 10 + (c.toNat - 48)) := by
  simp only [dval, List.foldl_cons]

theorem dval_append (a b : Str) (x : Nat) : dval (a ++ b) x = dval b (dval a x) := by
  simp [dval, List.foldl_append]

theorem dval_ge (ds : Str) (x : Nat) : x * 10 ^ ds.length ≤ dval ds x := by
  induction ds generalizing x with
  | nil => simp [dval]
  | cons c ds ih =>
    rw [dval_cons, List.length_cons, Nat.pow_succ]
    refine Nat.le_trans ?_ (ih _)
    rw [Nat.mul_comm (10 ^ ds.length) 10, ← Nat.mul_assoc]
    exact Nat.mul_le_mul_right _ (by omega)

theorem dval_lt (ds : Str) (hd : ∀ c ∈ ds, F64.isDigit c = true) (x : Nat) :
    dval ds x < (x + 1) * 10 ^ ds.length := by
  induction ds generalizing x with
  | nil => simp [dval]
  | cons c ds ih =>
    have hc := isDigit_toNat (hd c (by simp))
    rw [dval_cons, List.length_cons, Nat.pow_succ]
    refine Nat.lt_of_lt_of_le (ih (fun d h => hd d (by simp [h])) _) ?_
    rw [Nat.mul_comm (10 ^ ds.length) 10, ← Nat.mul_assoc]
    exact Nat.mul_le_mul_right _ (by omega)

theorem decLen_pos (m : Nat) : 1 ≤ F64.decLen m := by
  unfold F64.decLen
  cases h : Nat.toDigits 10 m with
  | nil => exact absurd h Nat.toDigits_ne_nil
  | cons _ _ => simp

theorem decLen_le (k : Nat) : ∀ m, m < 10 ^ (k + 1) → F64.decLen m ≤ k + 1 := by
  induction k with
  | zero =>
    intro m h
    simp at h
    simp [F64.decLen, Nat.toDigits_of_lt_base h]
  | succ k ih =>
    intro m h
    by_cases h10 : m < 10
    · simp [F64.decLen, Nat.toDigits_of_lt_base h10]
    · unfold F64.decLen
      rw [Nat.toDigits_of_base_le (by decide) (by omega), List.length_append]
      have : m / 10 < 10 ^ (k + 1) := by
        rw [Nat.pow_succ] at h
        omega
      have := ih _ this
      unfold F64.decLen at this
      simp
      omega

theorem decLen_dval (ds : Str) (hd : ∀ c ∈ ds, F64.isDigit c = true) (hne : ds ≠ []) :
    F64.decLen (dval ds 0) ≤ ds.length := by
  cases ds with
  | nil => contradiction
  | cons c t =>
    have := dval_lt (c :: t) hd 0
    simp only [List.length_cons] at this ⊢
    exact decLen_le _ _ (by simpa using this)

/-! ### rounding overflows for huge integers -/

def adj (q : Nat) (e : Int) : Int := if q < 2^52 then e - 1 else if q ≥ 2^53 then e + 1 else e

def rpPair (q' : Nat) (e : Int) : Nat × Int := if q' = 2^53 then (2^52, e + 1) else (q', e)

def rpOut (p : Nat × Int) : Option UInt64 :=
  if p.2 > 971 then none
  else if p.1 < 2^52 then some (UInt64.ofNat p.1)
  else some (UInt64.ofNat (((p.2 + 1075).toNat <<< 52) + (p.1 - 2^52)))

def rpFinish (e : Int) (n d : Nat) : Option UInt64 :=
  let (a, b) := F64.scaled n d e
  let q := a / b
  let r := a % b
  let q' := if 2 * r > b then q + 1 else if 2 * r < b then q else (if q % 2 = 1 then q + 1 else q)
  rpOut (rpPair q' e)

def roundPos' (n d : Nat) : Option UInt64 :=
  if n = 0 then some 0 else
  let e0 : Int := (F64.bitLen n : Int) - (F64.bitLen d : Int) - 53
  let q0 := let (a, b) := F64.scaled n d e0; a / b
  let e1 := adj q0 e0
  let q1 := let (a, b) := F64.scaled n d e1; a / b
  let e2 := adj q1 e1
  rpFinish (if e2 < -1074 then -1074 else e2) n d

theorem roundPos_eq (n d : Nat) : F64.roundPos n d = roundPos' n d := by rfl

theorem adj_ge (q : Nat) (e : Int) : e - 1 ≤ adj q e := by
  unfold adj; split
  · omega
  · split <;> omega

theorem rpFinish_none (e : Int) (n d : Nat) (h : 971 < e) : rpFinish e n d = none := by
  have hp : ∀ q', e ≤ (rpPair q' e).2 := by
    intro q'; unfold rpPair; split <;> simp <;> omega
  unfold rpFinish
  simp only []
  unfold rpOut
  rw [if_pos (by have := hp (if 2 * ((F64.scaled n d e).1 % (F64.scaled n d e).2) > (F64.scaled n d e).2 then (F64.scaled n d e).1 / (F64.scaled n d e).2 + 1 else if 2 * ((F64.scaled n d e).1 % (F64.scaled n d e).2) < (F64.scaled n d e).2 then (F64.scaled n d e).1 / (F64.scaled n d e).2 else (if (F64.scaled n d e).1 / (F64.scaled n d e).2 % 2 = 1 then (F64.scaled n d e).1 / (F64.scaled n d e).2 + 1 else (F64.scaled n d e).1 / (F64.scaled n d e).2)); omega)]

theorem pow10_pos (k : Nat) : 0 < 10 ^ k := Nat.pow_pos (by decide)

theorem pow_bound (k : Nat) : 2 ^ (3 * k) ≤ 10 ^ k := by
  rw [Nat.pow_mul]; exact Nat.pow_le_pow_left (by decide) k

theorem log2_ge_of_pow10 (k m : Nat) (h : 10 ^ k ≤ m) : 3 * k ≤ Nat.log2 m := by
  have hm0 : m ≠ 0 := by have := pow10_pos k; omega
  exact (Nat.le_log2 hm0).2 (Nat.le_trans (pow_bound k) h)

theorem roundPos_overflow (m : Nat) (h : 400 < F64.decLen m) : F64.roundPos m 1 = none := by
  have hm : 10 ^ (399 + 1) ≤ m := by
    apply Nat.le_of_not_lt
    intro hlt
    have := decLen_le 399 m hlt
    omega
  have hpos := pow10_pos (399 + 1)
  have hm0 : m ≠ 0 := by omega
  have hb := log2_ge_of_pow10 (399 + 1) m hm
  have h1 : F64.bitLen 1 = 1 := by decide
  rw [roundPos_eq]
  unfold roundPos'
  rw [if_neg hm0]
  simp only []
  apply rpFinish_none
  have hbl : F64.bitLen m = Nat.log2 m + 1 := by simp [F64.bitLen, hm0]
  rw [h1, hbl]
  have a1 := adj_ge ((F64.scaled m 1 (((Nat.log2 m + 1 : Nat) : Int) - ((1 : Nat) : Int) - 53)).1 /
    (F64.scaled m 1 (((Nat.log2 m + 1 : Nat) : Int) - ((1 : Nat) : Int) - 53)).2) (((Nat.log2 m + 1 : Nat) : Int) - ((1 : Nat) : Int) - 53)
  generalize adj _ (((Nat.log2 m + 1 : Nat) : Int) - ((1 : Nat) : Int) - 53) = e1 at *
  have a2 := adj_ge ((F64.scaled m 1 e1).1 / (F64.scaled m 1 e1).2) e1
  generalize adj _ e1 = e2 at *
  split <;> omega

/-! ### `strconv.ParseFloat` on the consumed text -/

def fSign (s : Str) : Bool × Str :=
  match s with | '+' :: t => (false, t) | '-' :: t => (true, t) | _ => (false, s)

def fHex (s1 : Str) : Bool × Str :=
  match s1 with
  | '0' :: c :: d :: t => if F64.lower c == 'x' then (true, d :: t) else (false, s1)
  | _ => (false, s1)

def fExpSign (t : Str) : Int × Str := match t with | '+' :: u => (1, u) | '-' :: u => (-1, u) | _ => (1, t)

def fExp (hex : Bool) (expChar : Char) (rest : Str) : Option (Int × Str) :=
  match rest with
  | c :: t =>
    if F64.lower c == expChar then
      match t with
      | [] => none
      | _ =>
        let p := fExpSign t
        match p.2 with
        | d :: _ =>
          if F64.isDigit d then
            let q := F64.readExpDigits p.2 0
            some (p.1 * (q.1 : Int), q.2)
          else none
        | [] => none
    else if hex then none else some (0, rest)
  | [] => if hex then none else some (0, [])

/-- the decimal tail of `parseFloatCore` -/
def decTail (neg : Bool) (m fd : Nat) (e : Int) : Option (Option F64) :=
  let e10 : Int := e - (fd : Int)
  let nd : Int := F64.decLen m
  if e10 + nd > 400 then some none
  else if e10 + nd < -400 then some (some (F64.withSign neg F64.posZero))
  else
    let (n, d) := if e10 ≥ 0 then (m * 10 ^ e10.toNat, 1) else (m, 10 ^ (-e10).toNat)
    some (F64.roundRat neg n d)

def goFinal (neg : Bool) (m fd : Nat) (e : Int) : Option (Option F64) :=
  if m = 0 then some (some (F64.withSign neg F64.posZero)) else decTail neg m fd e

def hexTail (neg : Bool) (m fd : Nat) (e : Int) : Option (Option F64) :=
  let e2 : Int := e - 4 * (fd : Int)
  if e2 > 2000 then some none
  else if e2 < -3000 - 4 * (F64.bitLen m : Int) then some (some (F64.withSign neg F64.posZero))
  else
    let (n, d) := if e2 ≥ 0 then (m * 2 ^ e2.toNat, 1) else (m, 2 ^ (-e2).toNat)
    some (F64.roundRat neg n d)

def parseFloatCore' (s : Str) : Option (Option F64) :=
  let p := fSign s
  let h := fHex p.2
  let r := F64.readMant (if h.1 then 16 else 10) h.2 0 0 false false
  if !r.2.2.1 then none else
  match fExp h.1 (if h.1 then 'p' else 'e') r.2.2.2.2 with
  | none => none
  | some (e, rest') =>
    if !rest'.isEmpty then none
    else if s.contains '_' && !F64.underscoreOK s then none
    else if r.1 = 0 then some (some (F64.withSign p.1 F64.posZero))
    else if h.1 then hexTail p.1 r.1 r.2.1 e else decTail p.1 r.1 r.2.1 e

theorem parseFloatCore_eq (s : Str) : F64.parseFloatCore s = parseFloatCore' s := by
  rfl

theorem digit_ne {c d : Char} (hc : F64.isDigit c = true) (hd : d.toNat < 48 ∨ 57 < d.toNat) : c ≠ d := by
  have := isDigit_toNat hc
  apply ne_of_toNat_ne; omega

theorem fSign_shape (neg : Bool) (d0 : Char) (X : Str) (hd0 : F64.isDigit d0 = true) :
    fSign ((if neg then ['-'] else []) ++ d0 :: X) = (neg, d0 :: X) := by
  cases neg with
  | true => rfl
  | false =>
    have c1 : d0 ≠ '+' := digit_ne hd0 (by decide)
    have c2 : d0 ≠ '-' := digit_ne hd0 (by decide)
    simp only [Bool.false_eq_true, if_false, List.nil_append]
    unfold fSign; split
    · rename_i h; simp at h; exact absurd h.1 c1
    · rename_i h; simp at h; exact absurd h.1 c2
    · rfl

theorem fHex_shape (d0 : Char) (Y : Str) (hz : d0 = '0' → ∀ c t, Y = c :: t → (F64.lower c == 'x') = false) :
    fHex (d0 :: Y) = (false, d0 :: Y) := by
  unfold fHex; split
  · rename_i c d t h
    simp only [List.cons.injEq] at h
    rw [hz h.1 c (d :: t) h.2]; simp
  · rfl

theorem readMant_digits (ds r : Str) (hd : ∀ c ∈ ds, F64.isDigit c = true) (m fd : Nat) (sd dot : Bool) :
    F64.readMant 10 (ds ++ r) m fd sd dot =
      F64.readMant 10 r (dval ds m) (if dot then fd + ds.length else fd) (sd || !ds.isEmpty) dot := by
  induction ds generalizing m fd sd with
  | nil => simp [dval]
  | cons c ds ih =>
    have hc := hd c (by simp)
    have h1 : (c == '_') = false := by simpa using digit_ne hc (by decide)
    have h2 : (c == '.') = false := by simpa using digit_ne hc (by decide)
    simp only [List.cons_append, F64.readMant, h1, h2, hc, Bool.false_eq_true, if_false, if_true]
    rw [ih (fun d h => hd d (by simp [h])), dval_cons]
    cases dot <;> simp [Nat.add_assoc, Nat.add_comm 1]

theorem readMant_stop (et : Str) (h : et = [] ∨ ∃ c t, et = c :: t ∧ (c = 'e' ∨ c = 'E')) (m fd : Nat) (sd dot : Bool) :
    F64.readMant 10 et m fd sd dot = (m, fd, sd, dot, et) := by
  rcases h with rfl | ⟨c, t, rfl, hc⟩
  · rfl
  · have h1 : (c == '_') = false ∧ (c == '.') = false ∧ F64.isDigit c = false := by
      rcases hc with rfl | rfl <;> decide
    simp [F64.readMant, h1]

/-- the whole mantissa -/
theorem readMant_shape (ip fp et : Str) (hasFrac : Bool) (hip : ∀ c ∈ ip, F64.isDigit c = true) (hne : ip ≠ [])
    (hfp : ∀ c ∈ fp, F64.isDigit c = true) (hnf : hasFrac = false → fp = [])
    (het : et = [] ∨ ∃ c t, et = c :: t ∧ (c = 'e' ∨ c = 'E')) :
    F64.readMant 10 (ip ++ ((if hasFrac then '.' :: fp else []) ++ et)) 0 0 false false =
      (dval (ip ++ fp) 0, fp.length, true, hasFrac, et) := by
  rw [readMant_digits ip _ hip]
  have hne' : (false || !ip.isEmpty) = true := by cases ip <;> simp at hne ⊢
  rw [hne']
  cases hasFrac with
  | false =>
    rw [hnf rfl]
    simp only [Bool.false_eq_true, if_false, List.nil_append, List.append_nil]
    rw [readMant_stop et het]; rfl
  | true =>
    simp only [if_true, List.cons_append, Bool.false_eq_true, if_false]
    have : F64.readMant 10 ('.' :: (fp ++ et)) (dval ip 0) 0 true false = F64.readMant 10 (fp ++ et) (dval ip 0) 0 true true := by
      simp [F64.readMant]
    rw [this, readMant_digits fp _ hfp, readMant_stop et het, dval_append]
    simp

/-- Go's capped exponent accumulation -/
def goExp (ed : Str) (e : Nat) : Nat :=
  ed.foldl (fun e c => if e < 10000 then e * 10 + (c.toNat - 48) else e) e

theorem goExp_cons (c : Char) (ed : Str) (e : Nat) :
    goExp (c :: ed) e = goExp ed (if e < 10000 then e * 10 + (c.toNat - 48) else e) := by
  simp only [goExp, List.foldl_cons]

theorem readExpDigits_digits (ed : Str) (hd : ∀ c ∈ ed, F64.isDigit c = true) (e : Nat) :
    F64.readExpDigits ed e = (goExp ed e, []) := by
  induction ed generalizing e with
  | nil => rfl
  | cons c ed ih =>
    have hc := hd c (by simp)
    have h1 : (c == '_') = false := by simpa using digit_ne hc (by decide)
    simp only [F64.readExpDigits, h1, hc, Bool.false_eq_true, if_false, if_true]
    rw [ih (fun d h => hd d (by simp [h])), goExp_cons]

theorem fExpSign_digit (d : Char) (t : Str) (hd : F64.isDigit d = true) : fExpSign (d :: t) = (1, d :: t) := by
  have c1 : d ≠ '+' := digit_ne hd (by decide)
  have c2 : d ≠ '-' := digit_ne hd (by decide)
  unfold fExpSign; split
  · rename_i h; simp at h; exact absurd h.1 c1
  · rename_i h; simp at h; exact absurd h.1 c2
  · rfl

theorem fExp_shape (et : Str) (ex : Option Int) (h : ExpText et ex) :
    ∃ e : Int, fExp false 'e' et = some (e, []) ∧
      ((ex = none ∧ e = 0) ∨ ∃ (ed : Str) (sgn : Int), (∀ d ∈ ed, F64.isDigit d = true) ∧ ed ≠ [] ∧
        (sgn = 1 ∨ sgn = -1) ∧ ex = some (sgn * (capS ed : Int)) ∧ e = sgn * (goExp ed 0 : Int)) := by
  rcases h with ⟨rfl, rfl⟩ | ⟨c, sg, ed, sgn, rfl, hc, hsg, hne, hd, rfl⟩
  · exact ⟨0, rfl, .inl ⟨rfl, rfl⟩⟩
  · have hlow : (F64.lower c == 'e') = true := by rcases hc with rfl | rfl <;> decide
    refine ⟨sgn * (goExp ed 0 : Int), ?_, .inr ⟨ed, sgn, hd, hne, ?_, rfl, rfl⟩⟩
    · cases ed with
      | nil => contradiction
      | cons d ed' =>
        have hdd := hd d (by simp)
        have hr := readExpDigits_digits (d :: ed') hd 0
        rcases hsg with ⟨rfl, rfl⟩ | ⟨rfl, rfl⟩ | ⟨rfl, rfl⟩
        all_goals simp only [List.cons_append, List.nil_append]
        · simp only [fExp, hlow, if_true, fExpSign_digit d ed' hdd, hdd, hr]
        · simp only [fExp, hlow, if_true, fExpSign, hdd, hr]
        · simp only [fExp, hlow, if_true, fExpSign, hdd, hr]
    · rcases hsg with ⟨_, rfl⟩ | ⟨_, rfl⟩ | ⟨_, rfl⟩ <;> simp

theorem ExpText.stop {et : Str} {ex : Option Int} (h : ExpText et ex) :
    et = [] ∨ ∃ c t, et = c :: t ∧ (c = 'e' ∨ c = 'E') := by
  rcases h with ⟨_, rfl⟩ | ⟨c, sg, ed, sgn, rfl, hc, _⟩
  · exact .inl rfl
  · exact .inr ⟨c, sg ++ ed, by simp, hc⟩

theorem ExpText.numChars {et : Str} {ex : Option Int} (h : ExpText et ex) : ∀ c ∈ et, isNumChar c = true := by
  rcases h with ⟨_, rfl⟩ | ⟨c, sg, ed, sgn, rfl, hc, hsg, _, hd, _⟩
  · simp
  · intro x hx
    simp only [List.cons_append, List.mem_cons, List.mem_append] at hx
    rcases hx with rfl | hx | hx
    · rcases hc with rfl | rfl <;> decide
    · rcases hsg with ⟨rfl, _⟩ | ⟨rfl, _⟩ | ⟨rfl, _⟩ <;> simp at hx <;> subst hx <;> decide
    · simp [isNumChar, hd x hx]

/-- the text consumed by `number`, from its parts -/
def numText (neg : Bool) (ip fp : Str) (hasFrac : Bool) (et : Str) : Str :=
  (if neg then ['-'] else []) ++ ip ++ (if hasFrac then '.' :: fp else []) ++ et

theorem numText_numChars (neg : Bool) (ip fp : Str) (hasFrac : Bool) (et : Str) (ex : Option Int)
    (hip : ∀ c ∈ ip, F64.isDigit c = true) (hfp : ∀ c ∈ fp, F64.isDigit c = true) (het : ExpText et ex) :
    ∀ c ∈ numText neg ip fp hasFrac et, isNumChar c = true := by
  intro c hc
  simp only [numText, List.mem_append] at hc
  rcases hc with ((hc | hc) | hc) | hc
  · cases neg <;> simp at hc; subst hc; decide
  · simp [isNumChar, hip c hc]
  · cases hasFrac <;> simp at hc
    rcases hc with rfl | hc
    · decide
    · simp [isNumChar, hfp c hc]
  · exact het.numChars c hc

/-- `parseFloatCore` on a text of the JSON number shape, given what the exponent reader returns -/
theorem parseFloatCore_prim (neg : Bool) (d0 : Char) (more fp : Str) (hasFrac : Bool) (et : Str) (e : Int)
    (hip : ∀ c ∈ d0 :: more, F64.isDigit c = true) (hz : d0 = '0' → more = [])
    (hfp : ∀ c ∈ fp, F64.isDigit c = true) (hnf : hasFrac = false → fp = [])
    (hstop : et = [] ∨ ∃ c t, et = c :: t ∧ (c = 'e' ∨ c = 'E')) (hetc : ∀ c ∈ et, isNumChar c = true)
    (he : fExp false 'e' et = some (e, [])) :
    F64.parseFloatCore (numText neg (d0 :: more) fp hasFrac et) =
        goFinal neg (dval (d0 :: more ++ fp) 0) fp.length e := by
  have hnc : ∀ c ∈ numText neg (d0 :: more) fp hasFrac et, isNumChar c = true := by
    intro c hc
    simp only [numText, List.mem_append] at hc
    rcases hc with ((hc | hc) | hc) | hc
    · cases neg <;> simp at hc; subst hc; decide
    · simp [isNumChar, hip c hc]
    · cases hasFrac <;> simp at hc
      rcases hc with rfl | hc
      · decide
      · simp [isNumChar, hfp c hc]
    · exact hetc c hc
  have hus : (numText neg (d0 :: more) fp hasFrac et).contains '_' = false := by
    simp only [List.contains_eq_mem, decide_eq_false_iff_not]
    intro h
    have := hnc _ h
    revert this; decide
  have ht : numText neg (d0 :: more) fp hasFrac et =
      (if neg then ['-'] else []) ++ d0 :: (more ++ ((if hasFrac then '.' :: fp else []) ++ et)) := by
    simp [numText]
  have hY : d0 = '0' → ∀ c t', (more ++ ((if hasFrac then '.' :: fp else []) ++ et)) = c :: t' →
      (F64.lower c == 'x') = false := by
    intro h0 c t' hc
    rw [hz h0] at hc
    cases hasFrac with
    | true =>
      simp at hc
      rw [← hc.1]; decide
    | false =>
      simp at hc
      rcases hstop with h | ⟨c', t'', h, hc'⟩
      · rw [h] at hc; cases hc
      · rw [h] at hc
        simp at hc
        rw [← hc.1]
        rcases hc' with rfl | rfl <;> decide
  have hm := readMant_shape (d0 :: more) fp et hasFrac hip (by simp) hfp hnf hstop
  rw [parseFloatCore_eq]
  unfold parseFloatCore'
  simp only [hus]
  rw [ht, fSign_shape neg d0 _ (hip d0 (by simp))]
  simp only [fHex_shape d0 _ hY, Bool.false_eq_true, if_false]
  rw [← List.cons_append, hm]
  simp only [he]
  simp [goFinal]

theorem parseFloatCore_shape (neg : Bool) (d0 : Char) (more fp : Str) (hasFrac : Bool) (et : Str) (ex : Option Int)
    (hip : ∀ c ∈ d0 :: more, F64.isDigit c = true) (hz : d0 = '0' → more = [])
    (hfp : ∀ c ∈ fp, F64.isDigit c = true) (hnf : hasFrac = false → fp = []) (het : ExpText et ex) :
    ∃ e : Int, F64.parseFloatCore (numText neg (d0 :: more) fp hasFrac et) =
        goFinal neg (dval (d0 :: more ++ fp) 0) fp.length e ∧
      ((ex = none ∧ e = 0) ∨ ∃ (ed : Str) (sgn : Int), (∀ d ∈ ed, F64.isDigit d = true) ∧ ed ≠ [] ∧
        (sgn = 1 ∨ sgn = -1) ∧ ex = some (sgn * (capS ed : Int)) ∧ e = sgn * (goExp ed 0 : Int)) := by
  obtain ⟨e, he, hrel⟩ := fExp_shape et ex het
  exact ⟨e, parseFloatCore_prim neg d0 more fp hasFrac et e hip hz hfp hnf het.stop het.numChars he, hrel⟩

theorem lower_digit {c : Char} (h : F64.isDigit c = true) : F64.lower c = c := by
  have := isDigit_toNat h
  unfold F64.lower
  rw [if_neg]
  rw [char_le_iff, char_le_iff]
  have e1 : 'A'.toNat = 65 := rfl
  omega

theorem eqFold_digit (d0 : Char) (X : Str) (h : F64.isDigit d0 = true) :
    F64.eqFold (d0 :: X) "inf" = false ∧ F64.eqFold (d0 :: X) "infinity" = false ∧ F64.eqFold (d0 :: X) "nan" = false := by
  have a : "inf".toList = ['i', 'n', 'f'] := by decide
  have b : "infinity".toList = ['i', 'n', 'f', 'i', 'n', 'i', 't', 'y'] := by decide
  have c : "nan".toList = ['n', 'a', 'n'] := by decide
  have c1 : d0 ≠ 'i' := digit_ne h (by decide)
  have c2 : d0 ≠ 'n' := digit_ne h (by decide)
  simp [F64.eqFold, a, b, c, lower_digit h, c1, c2]

theorem parseSpecial_numText (neg : Bool) (d0 : Char) (X : Str) (h : F64.isDigit d0 = true) :
    F64.parseSpecial ((if neg then ['-'] else []) ++ d0 :: X) = none := by
  have he := eqFold_digit d0 X h
  cases neg with
  | true => simp [F64.parseSpecial, he]
  | false =>
    have c1 : d0 ≠ '+' := digit_ne h (by decide)
    have c2 : d0 ≠ '-' := digit_ne h (by decide)
    simp only [Bool.false_eq_true, if_false, List.nil_append]
    unfold F64.parseSpecial; split
    · rename_i h'; simp at h'; exact absurd h'.1 c1
    · rename_i h'; simp at h'; exact absurd h'.1 c2
    · simp [he]

/-! ### the two exponent caps -/

theorem goExp_big (ed : Str) (e : Nat) (h : 10000 ≤ e) : goExp ed e = e := by
  induction ed with
  | nil => rfl
  | cons c ed ih => rw [goExp_cons, if_neg (by omega), ih]

theorem le_dval (ds : Str) (x : Nat) : x ≤ dval ds x := by
  have := dval_ge ds x
  have h1 := pow10_pos ds.length
  calc x = x * 1 := by simp
    _ ≤ x * 10 ^ ds.length := Nat.mul_le_mul_left _ h1
    _ ≤ _ := this

theorem goExp_spec (ed : Str) (e : Nat) :
    (dval ed e < 10000 → goExp ed e = dval ed e) ∧ (10000 ≤ dval ed e → 10000 ≤ goExp ed e) := by
  induction ed generalizing e with
  | nil => exact ⟨fun _ => rfl, fun h => h⟩
  | cons c ed ih =>
    by_cases he : e < 10000
    · rw [goExp_cons, if_pos he, dval_cons]; exact ih _
    · rw [goExp_big _ _ (by omega)]
      have := le_dval (c :: ed) e
      exact ⟨fun h => by omega, fun _ => by omega⟩

theorem dval_dropZeros (ed : Str) : dval (ed.dropWhile (· == '0')) 0 = dval ed 0 := by
  induction ed with
  | nil => rfl
  | cons c ed ih =>
    by_cases hc : c = '0'
    · subst hc
      simp only [List.dropWhile_cons, beq_self_eq_true, if_true, ih, dval_cons]
      rfl
    · have : (c == '0') = false := by simpa using hc
      simp only [List.dropWhile_cons, this, Bool.false_eq_true, if_false]

theorem dropZeros_head (ed : Str) :
    ed.dropWhile (· == '0') = [] ∨ ∃ c t, ed.dropWhile (· == '0') = c :: t ∧ c ≠ '0' := by
  induction ed with
  | nil => exact .inl rfl
  | cons c ed ih =>
    by_cases hc : c = '0'
    · subst hc; simpa using ih
    · have : (c == '0') = false := by simpa using hc
      exact .inr ⟨c, ed, by simp [this], hc⟩

theorem capS_spec (ed : Str) (hd : ∀ c ∈ ed, F64.isDigit c = true) :
    (dval ed 0 < 10000 → capS ed = dval ed 0) ∧ (10000 ≤ dval ed 0 → 10000 ≤ capS ed) := by
  unfold capS
  rw [digitsVal_eq_dval, dval_dropZeros]
  split
  · rename_i hlen
    rcases dropZeros_head ed with h | ⟨c, t, h, hc⟩
    · rw [h] at hlen; simp at hlen
    · have hcd : F64.isDigit c = true := hd c ((List.dropWhile_suffix _).subset (by rw [h]; simp))
      have hcn := isDigit_toNat hcd
      have hc0 : c.toNat ≠ 48 := fun e => hc ((char_eq_iff _ _).2 e)
      have h1 := dval_ge t (c.toNat - 48)
      have h2 : dval (c :: t) 0 = dval ed 0 := by rw [← h, dval_dropZeros]
      rw [dval_cons] at h2
      simp only [Nat.zero_mul, Nat.zero_add] at h2
      rw [h] at hlen
      simp only [List.length_cons] at hlen
      have h3 : 10 ^ 6 ≤ 10 ^ t.length := Nat.pow_le_pow_right (by decide) (by omega)
      have h4 : (10 : Nat) ^ 6 = 1000000 := by decide
      have h5 : 1 * 10 ^ t.length ≤ (c.toNat - 48) * 10 ^ t.length := Nat.mul_le_mul_right _ (by omega)
      exact ⟨fun hh => by omega, fun _ => by omega⟩
  · exact ⟨fun _ => rfl, fun h => h⟩

/-- the two readers either see the same exponent magnitude, or both see a huge one -/
theorem caps_agree (ed : Str) (hd : ∀ c ∈ ed, F64.isDigit c = true) :
    goExp ed 0 = capS ed ∨ (10000 ≤ goExp ed 0 ∧ 10000 ≤ capS ed) := by
  have a := goExp_spec ed 0
  have b := capS_spec ed hd
  by_cases h : dval ed 0 < 10000
  · left; rw [a.1 h, b.1 h]
  · right; exact ⟨a.2 (by omega), b.2 (by omega)⟩

/-! ### the decimal tail under huge exponents -/

theorem goFinal_zero (neg : Bool) (fd : Nat) (e : Int) :
    goFinal neg 0 fd e = some (some (F64.withSign neg F64.posZero)) := by simp [goFinal]

theorem goFinal_huge_pos (neg : Bool) (m fd E : Nat) (hm : m ≠ 0) (hE : 10000 ≤ E) (hfd : fd < 9600) :
    goFinal neg m fd (E : Int) = some none := by
  have := decLen_pos m
  unfold goFinal decTail
  rw [if_neg hm]
  simp only []
  rw [if_pos (by omega)]

theorem goFinal_huge_neg (neg : Bool) (m fd E k : Nat) (hm : m ≠ 0) (hE : 10000 ≤ E)
    (hk : F64.decLen m ≤ k + fd) (hk' : k < 9600) :
    goFinal neg m fd (-(E : Int)) = some (some (F64.withSign neg F64.posZero)) := by
  unfold goFinal decTail
  rw [if_neg hm]
  simp only []
  rw [if_neg (by omega), if_pos (by omega)]

/-- the non-integer branch of `numFinal`, in terms of the Go tail -/
theorem numFinal_float (neg : Bool) (ip fp : Str) (hasFrac : Bool) (ex : Option Int) (rest : Str)
    (h : (!hasFrac && ex.isNone) = false) :
    numFinal neg ip fp hasFrac ex rest =
      match goFinal neg (dval (ip ++ fp) 0) fp.length (ex.getD 0) with
      | some (some f) => some (some (.float f), rest)
      | some none => some (none, rest)
      | none => none := by
  unfold numFinal goFinal decTail
  simp only [h, digitsVal_eq_dval, Bool.false_eq_true, if_false, beq_iff_eq]
  split
  · rfl
  · split
    · rfl
    · split
      · rfl
      · by_cases h10 : ex.getD 0 - (fp.length : Int) ≥ 0
        · simp only [h10, if_true]
          cases F64.roundRat neg (dval (ip ++ fp) 0 * 10 ^ (ex.getD 0 - (fp.length : Int)).toNat) 1 <;> rfl
        · simp only [h10, if_false]
          cases F64.roundRat neg (dval (ip ++ fp) 0) (10 ^ (-(ex.getD 0 - (fp.length : Int))).toNat) <;> rfl

/-! ### assembling `parseField` on the consumed text -/

theorem parseFloat_of_core (t : Str) (f : F64) (hs : F64.parseSpecial t = none)
    (hc : F64.parseFloatCore t = some (some f)) : F64.parseFloat t = some f := by
  simp [F64.parseFloat, hs, hc]

theorem goFinal_agree (neg : Bool) (ip fp : Str) (ex : Option Int) (e : Int) (f : F64)
    (hip : ∀ c ∈ ip, F64.isDigit c = true) (hfp : ∀ c ∈ fp, F64.isDigit c = true) (hne : ip ≠ [])
    (hl1 : ip.length < 9600) (hl2 : fp.length < 9600)
    (hrel : (ex = none ∧ e = 0) ∨ ∃ (ed : Str) (sgn : Int), (∀ d ∈ ed, F64.isDigit d = true) ∧ ed ≠ [] ∧
        (sgn = 1 ∨ sgn = -1) ∧ ex = some (sgn * (capS ed : Int)) ∧ e = sgn * (goExp ed 0 : Int))
    (hs : goFinal neg (dval (ip ++ fp) 0) fp.length (ex.getD 0) = some (some f)) :
    goFinal neg (dval (ip ++ fp) 0) fp.length e = some (some f) := by
  rcases hrel with ⟨rfl, rfl⟩ | ⟨ed, sgn, hd, _, hsgn, rfl, rfl⟩
  · exact hs
  · simp only [Option.getD_some] at hs
    rcases caps_agree ed hd with heq | ⟨hg, hc⟩
    · rw [heq]; exact hs
    · by_cases hm : dval (ip ++ fp) 0 = 0
      · rw [hm] at hs ⊢; rw [goFinal_zero] at hs ⊢; exact hs
      · rcases hsgn with rfl | rfl
        · simp only [Int.one_mul] at hs
          rw [goFinal_huge_pos neg _ _ _ hm hc hl2] at hs
          cases hs
        · have hk : F64.decLen (dval (ip ++ fp) 0) ≤ ip.length + fp.length := by
            have := decLen_dval (ip ++ fp) (by
              intro c hc'; rcases List.mem_append.mp hc' with h | h
              · exact hip c h
              · exact hfp c h) (by simp [hne])
            simpa using this
          simp only [Int.neg_mul, Int.one_mul] at hs ⊢
          rw [goFinal_huge_neg neg _ _ _ _ hm hc hk hl1] at hs
          rw [goFinal_huge_neg neg _ _ _ _ hm hg hk hl1]
          exact hs

theorem parseInt_digits (neg : Bool) (d0 : Char) (more : Str)
    (hip : ∀ c ∈ d0 :: more, F64.isDigit c = true) (hz : d0 = '0' → more = []) :
    parseIntBase0 ((if neg then ['-'] else []) ++ d0 :: more) =
      (if !neg && dval (d0 :: more) 0 ≥ 2^63 then none
       else if neg && dval (d0 :: more) 0 > 2^63 then none
       else some (if neg then -(dval (d0 :: more) 0 : Int) else (dval (d0 :: more) 0 : Int))) := by
  rw [parseIntBase0_signed neg d0 more (hip d0 (by simp)), parseUintBase0_digits d0 more hip hz]
  simp only [Option.bind_some, contains_us_digits _ hip, Bool.false_and, Bool.false_eq_true, if_false,
    digitsVal_eq_dval]

theorem numText_ne_null (neg : Bool) (d0 : Char) (X : Str) (h : F64.isDigit d0 = true) :
    (((if neg then ['-'] else []) ++ d0 :: X) == ['n', 'u', 'l', 'l']) = false := by
  have c1 : d0 ≠ 'n' := digit_ne h (by decide)
  cases neg <;> simp [c1]

theorem intRange (neg : Bool) (m : Nat) :
    (if (!neg && decide (m ≥ 2^63)) = true then (none : Option Int)
      else if (neg && decide (m > 2^63)) = true then none
      else some (if neg = true then -(m : Int) else (m : Int))) =
    if -(2:Int)^63 ≤ (if neg = true then -(m : Int) else (m : Int)) ∧
        (if neg = true then -(m : Int) else (m : Int)) < (2:Int)^63
      then some (if neg = true then -(m : Int) else (m : Int)) else none := by
  cases neg
  · simp only [Bool.false_eq_true, if_false, Bool.not_false, Bool.true_and, Bool.false_and, decide_eq_true_eq]
    by_cases h : m ≥ 2^63
    · rw [if_pos h, if_neg (by omega)]
    · rw [if_neg h, if_pos (by omega)]
  · simp only [if_true, Bool.not_true, Bool.true_and, Bool.false_and, decide_eq_true_eq, Bool.false_eq_true, if_false]
    by_cases h : m > 2^63
    · rw [if_pos h, if_neg (by omega)]
    · rw [if_neg h, if_pos (by omega)]

/-- integer-looking literal (no fraction, no exponent) -/
theorem parseField_intLit (neg : Bool) (d0 : Char) (more rest : Str) (v : JVal)
    (hip : ∀ c ∈ d0 :: more, F64.isDigit c = true) (hz : d0 = '0' → more = [])
    (hfin : numFinal neg (d0 :: more) [] false none rest = some (some v, rest)) (line : Nat) :
    parseField ((if neg then ['-'] else []) ++ d0 :: more) line = .ok v := by
  have hd0 := hip d0 (by simp)
  unfold parseField
  rw [numText_ne_null neg d0 more hd0, parseInt_digits neg d0 more hip hz, intRange]
  simp only [Bool.false_eq_true, if_false]
  unfold numFinal at hfin
  simp only [List.append_nil, Bool.not_false, Option.isNone_none, Bool.and_self, if_true,
    digitsVal_eq_dval] at hfin
  generalize hm : dval (d0 :: more) 0 = m at hfin ⊢
  by_cases hr : -(2:Int)^63 ≤ (if neg = true then -(m : Int) else (m : Int)) ∧
        (if neg = true then -(m : Int) else (m : Int)) < (2:Int)^63
  · rw [if_pos hr] at hfin ⊢
    simp only [Option.some.injEq, Prod.mk.injEq, and_true] at hfin
    subst hfin
    rfl
  · rw [if_neg hr] at hfin ⊢
    simp only []
    have hm0 : m ≠ 0 := by
      intro h0; subst h0
      apply hr; cases neg <;> simp
    cases hrr : F64.roundRat neg m 1 with
    | none => rw [hrr] at hfin; simp at hfin
    | some f =>
      rw [hrr] at hfin
      simp only [Option.some.injEq, Prod.mk.injEq, and_true] at hfin
      subst hfin
      obtain ⟨e, hcore, hrel⟩ := parseFloatCore_shape neg d0 more [] false [] none hip hz (by simp) (by simp)
        (.inl ⟨rfl, rfl⟩)
      have he : e = 0 := by
        rcases hrel with ⟨_, h⟩ | ⟨_, _, _, _, _, h, _⟩
        · exact h
        · cases h
      subst he
      have hnt : numText neg (d0 :: more) [] false [] = (if neg then ['-'] else []) ++ d0 :: more := by
        simp [numText]
      rw [hnt, List.append_nil, hm] at hcore
      have hgf : goFinal neg m 0 0 = some (some f) := by
        unfold goFinal decTail
        rw [if_neg hm0]
        simp only []
        have hnd : ¬ (400 < F64.decLen m) := by
          intro h400
          have := roundPos_overflow m h400
          simp [F64.roundRat, this] at hrr
        have hp := decLen_pos m
        rw [if_neg (by simp <;> omega), if_neg (by simp <;> omega)]
        simp [hrr]
      rw [parseFloat_of_core _ f (parseSpecial_numText neg d0 more hd0) (by rw [hcore]; exact hgf)]

/-- literal with a fraction or an exponent -/
theorem parseField_floatLit (neg : Bool) (d0 : Char) (more fp : Str) (hasFrac : Bool) (et : Str) (ex : Option Int)
    (rest : Str) (v : JVal)
    (hip : ∀ c ∈ d0 :: more, F64.isDigit c = true) (hz : d0 = '0' → more = [])
    (hfp : ∀ c ∈ fp, F64.isDigit c = true) (hnf : hasFrac = false → fp = []) (het : ExpText et ex)
    (hni : hasFrac = true ∨ ex.isSome = true)
    (hfin : numFinal neg (d0 :: more) fp hasFrac ex rest = some (some v, rest))
    (hlen : (numText neg (d0 :: more) fp hasFrac et).length < 9600) (line : Nat) :
    parseField (numText neg (d0 :: more) fp hasFrac et) line = .ok v := by
  have hd0 := hip d0 (by simp)
  have h' : (!hasFrac && ex.isNone) = false := by
    rcases hni with h | h
    · simp [h]
    · cases ex <;> simp at h ⊢
  rw [numFinal_float _ _ _ _ _ _ h'] at hfin
  obtain ⟨e, hcore, hrel⟩ := parseFloatCore_shape neg d0 more fp hasFrac et ex hip hz hfp hnf het
  have hl : (d0 :: more).length < 9600 ∧ fp.length < 9600 := by
    simp only [numText, List.length_append] at hlen
    cases hasFrac with
    | true => simp at hlen ⊢; omega
    | false => rw [hnf rfl]; simp at hlen ⊢; omega
  -- the tail starts with '.', 'e' or 'E'
  obtain ⟨c, tl, htl, hc⟩ : ∃ c tl, (if hasFrac then '.' :: fp else []) ++ et = c :: tl ∧ (c = '.' ∨ c = 'e' ∨ c = 'E') := by
    cases hasFrac with
    | true => exact ⟨'.', fp ++ et, by simp, .inl rfl⟩
    | false =>
      rcases hni with h | h
      · cases h
      · rcases het with ⟨rfl, _⟩ | ⟨c, sg, ed, sgn, rfl, hc, _⟩
        · cases h
        · exact ⟨c, sg ++ ed, by simp, .inr hc⟩
  have ht : numText neg (d0 :: more) fp hasFrac et = (if neg then ['-'] else []) ++ d0 :: (more ++ c :: tl) := by
    simp only [numText, List.append_assoc, htl, List.cons_append]
  have hint : parseIntBase0 (numText neg (d0 :: more) fp hasFrac et) = none := by
    rw [ht, parseIntBase0_signed neg d0 _ hd0]
    have := parseUintBase0_bad d0 more c tl hip hz hc
    rw [List.cons_append] at this
    rw [this]; rfl
  cases hg : goFinal neg (dval (d0 :: more ++ fp) 0) fp.length (ex.getD 0) with
  | none => rw [hg] at hfin; cases hfin
  | some o =>
    cases o with
    | none => rw [hg] at hfin; cases hfin
    | some f =>
      rw [hg] at hfin
      simp only [Option.some.injEq, Prod.mk.injEq, and_true] at hfin
      subst hfin
      have hgo := goFinal_agree neg (d0 :: more) fp ex e f hip hfp (by simp) hl.1 hl.2 hrel hg
      have hpf : F64.parseFloat (numText neg (d0 :: more) fp hasFrac et) = some f := by
        apply parseFloat_of_core
        · rw [ht]; exact parseSpecial_numText neg d0 _ hd0
        · rw [hcore]; exact hgo
      unfold parseField
      rw [hint, hpf]
      rw [ht, numText_ne_null neg d0 _ hd0]
      simp

/-- **numbers**: what `Strict.number` consumes is a text of number characters which `parseField`
reads as the same value, provided it is shorter than `numRunBound` = 9600 characters -/
theorem number_parseField (s : Str) (v : JVal) (rest : Str) (h : Strict.number s = some (some v, rest)) :
    ∃ t, s = t ++ rest ∧ t ≠ [] ∧ (∀ c ∈ t, isNumChar c = true) ∧
      (t.length < numRunBound → ∀ line, parseField t line = .ok v) := by
  rw [number_eq] at h
  obtain ⟨neg, d0, more, fp, hasFrac, et, ex, hs, hip, hz, hfp, hfr, hnf, het, hfin⟩ := number'_shape s _ rest h
  refine ⟨numText neg (d0 :: more) fp hasFrac et, by rw [hs]; rfl, ?_,
    numText_numChars neg _ fp hasFrac et ex hip hfp het, ?_⟩
  · simp [numText]
  · intro hlen line
    by_cases hni : hasFrac = true ∨ ex.isSome = true
    · exact parseField_floatLit neg d0 more fp hasFrac et ex rest v hip hz hfp hnf het hni hfin hlen line
    · have h1 : hasFrac = false := by cases hasFrac <;> simp at hni ⊢
      have h2 : ex = none := by cases ex <;> simp at hni ⊢
      subst h1; subst h2
      have h3 : fp = [] := hnf rfl
      subst h3
      have h4 : et = [] := by
        rcases het with ⟨_, h⟩ | ⟨_, _, _, _, _, _, _, _, _, h⟩
        · exact h
        · cases h
      subst h4
      have := parseField_intLit neg d0 more rest v hip hz hfin line
      simpa [numText] using this

end SVP
end Anytype
