/-
Strict decoder vs. lenient parser, part 2: strings.

A successful `Strict.stringBody` (every surrogate escape properly paired) has read a "raw body"
(plain characters and backslash + one character) up to the closing quote; the parser's `.str` / `.key`
states copy such a body verbatim, and the library's `unquoteJSON` decodes it to the same string.
-/
import Anytype.Lemmas.StrictVsParserNum
namespace Anytype
namespace SVP
open Strict

/-- raw string bodies as the `.str`/`.key` states read them: plain characters and
backslash + one character -/
inductive RawBody : Str → Prop
  | nil : RawBody []
  | plain (c : Char) (t : Str) : c ≠ '"' → c ≠ '\\' → c ≠ '\n' → RawBody t → RawBody (c :: t)
  | esc (e : Char) (t : Str) : e ≠ '\n' → RawBody t → RawBody ('\\' :: e :: t)

theorem RawBody.plains (q : Str) (hq : ∀ c ∈ q, c ≠ '"' ∧ c ≠ '\\' ∧ c ≠ '\n') {t : Str} (h : RawBody t) :
    RawBody (q ++ t) := by
  induction q with
  | nil => exact h
  | cons c q ih =>
    have := hq c (by simp)
    exact .plain c _ this.1 this.2.1 this.2.2 (ih (fun d hd => hq d (by simp [hd])))

theorem hexCharVal_plain {c : Char} {n : Nat} (h : hexCharVal c = some n) : c ≠ '"' ∧ c ≠ '\\' ∧ c ≠ '\n' := by
  have a : hexCharVal '"' = none := by decide
  have b : hexCharVal '\\' = none := by decide
  have c' : hexCharVal '\n' = none := by decide
  refine ⟨?_, ?_, ?_⟩ <;> (intro e; subst e; simp_all)

theorem hex4_shape (s : Str) (r : Nat) (rest : Str) (h : hex4 s = some (r, rest)) :
    ∃ q : Str, q.length = 4 ∧ s = q ++ rest ∧ (∀ X, hex4 (q ++ X) = some (r, X)) ∧
      (∀ c ∈ q, c ≠ '"' ∧ c ≠ '\\' ∧ c ≠ '\n') := by
  match s, h with
  | a :: b :: c :: d :: rest', h =>
    simp only [hex4] at h
    cases ha : hexCharVal a with
    | none => simp [ha] at h
    | some x =>
    cases hb : hexCharVal b with
    | none => simp [ha, hb] at h
    | some y =>
    cases hc : hexCharVal c with
    | none => simp [ha, hb, hc] at h
    | some z =>
    cases hd : hexCharVal d with
    | none => simp [ha, hb, hc, hd] at h
    | some w =>
      simp only [ha, hb, hc, hd, Option.some.injEq, Prod.mk.injEq] at h
      refine ⟨[a, b, c, d], rfl, by simp [h.2], ?_, ?_⟩
      · intro X; simp [hex4, ha, hb, hc, hd, h.1]
      · intro e he
        simp only [List.mem_cons, List.not_mem_nil, or_false] at he
        rcases he with rfl | rfl | rfl | rfl
        · exact hexCharVal_plain ha
        · exact hexCharVal_plain hb
        · exact hexCharVal_plain hc
        · exact hexCharVal_plain hd
  | [], h => simp [hex4] at h
  | [_], h => simp [hex4] at h
  | [_, _], h => simp [hex4] at h
  | [_, _, _], h => simp [hex4] at h

/-- `t` is a raw body followed by the closing quote and `rest`, and `unquoteAux` started with `acc`
decodes the body to `str` -/
def Good (t acc str rest : Str) : Prop :=
  ∃ body, t = body ++ '"' :: rest ∧ RawBody body ∧ ∀ F, body.length < F → unquoteAux F body acc = some str

theorem Good.step {pre t' acc acc' str rest : Str} (hg : Good t' acc' str rest)
    (hraw : ∀ b, RawBody b → RawBody (pre ++ b))
    (hun : ∀ F b, unquoteAux (F + 1) (pre ++ b) acc = unquoteAux F b acc') (hpos : 0 < pre.length) :
    Good (pre ++ t') acc str rest := by
  obtain ⟨body, ht, hr, hu⟩ := hg
  refine ⟨pre ++ body, by rw [ht, List.append_assoc], hraw _ hr, ?_⟩
  intro F hF
  cases F with
  | zero => omega
  | succ F =>
    rw [hun]
    apply hu
    simp only [List.length_append] at hF
    omega


def uStep (fuel : Nat) (t' acc : Str) (lone : Bool) : Option (Option Str × Str) :=
  match hex4 t' with
  | none => none
  | some (r, t'') =>
    if 0xD800 ≤ r ∧ r < 0xDC00 then
      match t'' with
      | '\\' :: 'u' :: u =>
        match hex4 u with
        | some (low, u') =>
          if 0xDC00 ≤ low ∧ low < 0xE000 then
            stringBody fuel u' (acc ++ [charOfNat ((r - 0xD800) * 1024 + (low - 0xDC00) + 0x10000)]) lone
          else stringBody fuel t'' (acc ++ [replacementChar]) true
        | none => none
      | _ => stringBody fuel t'' (acc ++ [replacementChar]) true
    else if 0xDC00 ≤ r ∧ r < 0xE000 then stringBody fuel t'' (acc ++ [replacementChar]) true
    else stringBody fuel t'' (acc ++ [charOfNat r]) lone

theorem sb_quote (f : Nat) (t acc : Str) (lone : Bool) :
    stringBody (f + 1) ('"' :: t) acc lone = some (if lone then none else some acc, t) := by
  simp [stringBody]

theorem sb_ctrl (f : Nat) (c : Char) (t acc : Str) (lone : Bool) (h1 : c ≠ '"') (h2 : c.toNat < 0x20) :
    stringBody (f + 1) (c :: t) acc lone = none := by
  simp [stringBody, h1, h2]

theorem sb_plain (f : Nat) (c : Char) (t acc : Str) (lone : Bool) (h1 : c ≠ '"') (h2 : ¬ c.toNat < 0x20) (h3 : c ≠ '\\') :
    stringBody (f + 1) (c :: t) acc lone = stringBody f t (acc ++ [c]) lone := by
  simp [stringBody, h1, h2, h3]

theorem sb_esc_nil (f : Nat) (acc : Str) (lone : Bool) : stringBody (f + 1) ['\\'] acc lone = none := by
  simp [stringBody]

theorem sb_esc_simple (f : Nat) (e : Char) (t acc : Str) (lone : Bool) (h : e = '"' ∨ e = '\\' ∨ e = '/') :
    stringBody (f + 1) ('\\' :: e :: t) acc lone = stringBody f t (acc ++ [e]) lone := by
  rcases h with rfl | rfl | rfl <;> simp [stringBody]

theorem sb_esc_b (f : Nat) (t acc : Str) (lone : Bool) :
    stringBody (f + 1) ('\\' :: 'b' :: t) acc lone = stringBody f t (acc ++ ['\x08']) lone := by simp [stringBody]
theorem sb_esc_f (f : Nat) (t acc : Str) (lone : Bool) :
    stringBody (f + 1) ('\\' :: 'f' :: t) acc lone = stringBody f t (acc ++ ['\x0c']) lone := by simp [stringBody]
theorem sb_esc_n (f : Nat) (t acc : Str) (lone : Bool) :
    stringBody (f + 1) ('\\' :: 'n' :: t) acc lone = stringBody f t (acc ++ ['\n']) lone := by simp [stringBody]
theorem sb_esc_r (f : Nat) (t acc : Str) (lone : Bool) :
    stringBody (f + 1) ('\\' :: 'r' :: t) acc lone = stringBody f t (acc ++ ['\r']) lone := by simp [stringBody]
theorem sb_esc_t (f : Nat) (t acc : Str) (lone : Bool) :
    stringBody (f + 1) ('\\' :: 't' :: t) acc lone = stringBody f t (acc ++ ['\t']) lone := by simp [stringBody]
theorem sb_esc_u (f : Nat) (t acc : Str) (lone : Bool) :
    stringBody (f + 1) ('\\' :: 'u' :: t) acc lone = uStep f t acc lone := by
  simp [stringBody]
  rfl
theorem sb_esc_bad (f : Nat) (e : Char) (t acc : Str) (lone : Bool)
    (h : e ≠ '"' ∧ e ≠ '\\' ∧ e ≠ '/' ∧ e ≠ 'b' ∧ e ≠ 'f' ∧ e ≠ 'n' ∧ e ≠ 'r' ∧ e ≠ 't' ∧ e ≠ 'u') :
    stringBody (f + 1) ('\\' :: e :: t) acc lone = none := by
  simp [stringBody, h]

theorem uq_plain (F : Nat) (c : Char) (b acc : Str) (h : c ≠ '\\') :
    unquoteAux (F + 1) ([c] ++ b) acc = unquoteAux F b (acc ++ [c]) := by
  simp [unquoteAux, h]

theorem uq_esc_simple (F : Nat) (e : Char) (b acc : Str) (h : e = '"' ∨ e = '\\' ∨ e = '/') :
    unquoteAux (F + 1) (['\\', e] ++ b) acc = unquoteAux F b (acc ++ [e]) := by
  rcases h with rfl | rfl | rfl <;> simp [unquoteAux]

theorem uq_esc_b (F : Nat) (b acc : Str) :
    unquoteAux (F + 1) (['\\', 'b'] ++ b) acc = unquoteAux F b (acc ++ ['\x08']) := by simp [unquoteAux]
theorem uq_esc_f (F : Nat) (b acc : Str) :
    unquoteAux (F + 1) (['\\', 'f'] ++ b) acc = unquoteAux F b (acc ++ ['\x0c']) := by simp [unquoteAux]
theorem uq_esc_n (F : Nat) (b acc : Str) :
    unquoteAux (F + 1) (['\\', 'n'] ++ b) acc = unquoteAux F b (acc ++ ['\n']) := by simp [unquoteAux]
theorem uq_esc_r (F : Nat) (b acc : Str) :
    unquoteAux (F + 1) (['\\', 'r'] ++ b) acc = unquoteAux F b (acc ++ ['\r']) := by simp [unquoteAux]
theorem uq_esc_t (F : Nat) (b acc : Str) :
    unquoteAux (F + 1) (['\\', 't'] ++ b) acc = unquoteAux F b (acc ++ ['\t']) := by simp [unquoteAux]

theorem uq_esc_u (F : Nat) (q b acc : Str) (r : Nat) (hq : ∀ X, hex4 (q ++ X) = some (r, X))
    (hr : ¬ (0xD800 ≤ r ∧ r < 0xDC00)) (hr' : ¬ (0xDC00 ≤ r ∧ r < 0xE000)) :
    unquoteAux (F + 1) (('\\' :: 'u' :: q) ++ b) acc = unquoteAux F b (acc ++ [charOfNat r]) := by
  have : ¬ (0xD800 ≤ r ∧ r < 0xE000) := by omega
  simp only [List.cons_append, unquoteAux, bne_self_eq_false, Bool.false_eq_true, if_false]
  simp [hq, this]

theorem uq_esc_pair (F : Nat) (q q2 b acc : Str) (r low : Nat) (hq : ∀ X, hex4 (q ++ X) = some (r, X))
    (hq2 : ∀ X, hex4 (q2 ++ X) = some (low, X))
    (hr : 0xD800 ≤ r ∧ r < 0xDC00) (hl : 0xDC00 ≤ low ∧ low < 0xE000) :
    unquoteAux (F + 1) (('\\' :: 'u' :: q ++ '\\' :: 'u' :: q2) ++ b) acc =
      unquoteAux F b (acc ++ [charOfNat ((r - 0xD800) * 1024 + (low - 0xDC00) + 0x10000)]) := by
  have h1 : 0xD800 ≤ r ∧ r < 0xE000 := by omega
  have h2 : r < 0xDC00 := hr.2
  have e : ('\\' :: 'u' :: q ++ '\\' :: 'u' :: q2) ++ b = '\\' :: 'u' :: (q ++ ('\\' :: 'u' :: (q2 ++ b))) := by simp
  rw [e]
  simp only [unquoteAux, bne_self_eq_false, Bool.false_eq_true, if_false]
  simp [hq, hq2, h1, h2, hl]

theorem stringBody_lone : ∀ (fuel : Nat) (t acc str rest : Str),
    stringBody fuel t acc true ≠ some (some str, rest) := by
  intro fuel
  induction fuel with
  | zero => intro t acc str rest h; simp [stringBody] at h
  | succ fuel ih =>
    intro t acc str rest h
    cases t with
    | nil => simp [stringBody] at h
    | cons c t =>
      by_cases h1 : c = '"'
      · subst h1; rw [sb_quote] at h; simp at h
      by_cases h2 : c.toNat < 0x20
      · rw [sb_ctrl _ _ _ _ _ h1 h2] at h; cases h
      by_cases h3 : c = '\\'
      · subst h3
        cases t with
        | nil => rw [sb_esc_nil] at h; cases h
        | cons e t' =>
          by_cases he : e = '"' ∨ e = '\\' ∨ e = '/'
          · rw [sb_esc_simple _ _ _ _ _ he] at h; exact ih _ _ _ _ h
          by_cases hb : e = 'b'
          · subst hb; rw [sb_esc_b] at h; exact ih _ _ _ _ h
          by_cases hf : e = 'f'
          · subst hf; rw [sb_esc_f] at h; exact ih _ _ _ _ h
          by_cases hn : e = 'n'
          · subst hn; rw [sb_esc_n] at h; exact ih _ _ _ _ h
          by_cases hr : e = 'r'
          · subst hr; rw [sb_esc_r] at h; exact ih _ _ _ _ h
          by_cases ht : e = 't'
          · subst ht; rw [sb_esc_t] at h; exact ih _ _ _ _ h
          by_cases hu : e = 'u'
          · subst hu; rw [sb_esc_u] at h
            unfold uStep at h
            repeat' split at h
            all_goals first
              | (exact ih _ _ _ _ h)
              | (cases h; done)
          · rw [sb_esc_bad _ _ _ _ _ (by simp only [not_or] at he; exact ⟨he.1, he.2.1, he.2.2, hb, hf, hn, hr, ht, hu⟩)] at h
            cases h
      · rw [sb_plain _ _ _ _ _ h1 h2 h3] at h; exact ih _ _ _ _ h

theorem ne_nl_of_ge {c : Char} (h : ¬ c.toNat < 0x20) : c ≠ '\n' := by
  intro e; subst e; exact h (by decide)

/-- **strings**: a successful `stringBody` (no lone surrogate) has read a raw body up to the closing
quote, the machine's `.str`/`.key` states accumulate exactly that body, and `unquoteAux` decodes it
to the same string -/
theorem stringBody_sound : ∀ (fuel : Nat) (t acc : Str) (lone : Bool) (str rest : Str),
    stringBody fuel t acc lone = some (some str, rest) → lone = false ∧ Good t acc str rest := by
  intro fuel
  induction fuel with
  | zero => intro t acc lone str rest h; simp [stringBody] at h
  | succ fuel ih =>
    intro t acc lone str rest h
    cases t with
    | nil => simp [stringBody] at h
    | cons c t =>
      by_cases h1 : c = '"'
      · subst h1; rw [sb_quote] at h
        cases lone with
        | true => simp at h
        | false =>
          simp at h
          obtain ⟨rfl, rfl⟩ := h
          refine ⟨rfl, [], rfl, .nil, ?_⟩
          intro F hF
          cases F with
          | zero => simp at hF
          | succ F => simp [unquoteAux]
      by_cases h2 : c.toNat < 0x20
      · rw [sb_ctrl _ _ _ _ _ h1 h2] at h; cases h
      by_cases h3 : c = '\\'
      · subst h3
        cases t with
        | nil => rw [sb_esc_nil] at h; cases h
        | cons e t' =>
          have hesc : ∀ (x : Char), e ≠ '\n' → stringBody fuel t' (acc ++ [x]) lone = some (some str, rest) →
              (∀ F b, unquoteAux (F + 1) (['\\', e] ++ b) acc = unquoteAux F b (acc ++ [x])) →
              lone = false ∧ Good ('\\' :: e :: t') acc str rest := by
            intro x hne hh hun
            obtain ⟨hl, hg⟩ := ih _ _ _ _ _ hh
            exact ⟨hl, Good.step (pre := ['\\', e]) hg (fun b hb => .esc e b hne hb) hun (by simp)⟩
          by_cases he : e = '"' ∨ e = '\\' ∨ e = '/'
          · rw [sb_esc_simple _ _ _ _ _ he] at h
            exact hesc e (by rcases he with rfl | rfl | rfl <;> decide) h (fun F b => uq_esc_simple F e b acc he)
          by_cases hb : e = 'b'
          · subst hb; rw [sb_esc_b] at h; exact hesc _ (by decide) h (fun F b => uq_esc_b F b acc)
          by_cases hf : e = 'f'
          · subst hf; rw [sb_esc_f] at h; exact hesc _ (by decide) h (fun F b => uq_esc_f F b acc)
          by_cases hn : e = 'n'
          · subst hn; rw [sb_esc_n] at h; exact hesc _ (by decide) h (fun F b => uq_esc_n F b acc)
          by_cases hr : e = 'r'
          · subst hr; rw [sb_esc_r] at h; exact hesc _ (by decide) h (fun F b => uq_esc_r F b acc)
          by_cases ht : e = 't'
          · subst ht; rw [sb_esc_t] at h; exact hesc _ (by decide) h (fun F b => uq_esc_t F b acc)
          by_cases hu : e = 'u'
          · subst hu; rw [sb_esc_u] at h
            unfold uStep at h
            cases hx : hex4 t' with
            | none => rw [hx] at h; cases h
            | some p =>
              obtain ⟨r, t''⟩ := p
              rw [hx] at h
              simp only [] at h
              obtain ⟨q, hq4, rfl, hq, hqp⟩ := hex4_shape _ _ _ hx
              have hraw1 : ∀ b, RawBody b → RawBody (('\\' :: 'u' :: q) ++ b) := fun b hb =>
                .esc 'u' _ (by decide) (RawBody.plains q hqp hb)
              by_cases hr1 : 0xD800 ≤ r ∧ r < 0xDC00
              · rw [if_pos hr1] at h
                split at h
                · rename_i u
                  split at h
                  · rename_i low u' hx2
                    split at h
                    · rename_i hl
                      obtain ⟨q2, hq24, rfl, hq2, hq2p⟩ := hex4_shape _ _ _ hx2
                      obtain ⟨hlone, hg⟩ := ih _ _ _ _ _ h
                      refine ⟨hlone, ?_⟩
                      have := Good.step (pre := '\\' :: 'u' :: q ++ '\\' :: 'u' :: q2) hg
                        (fun b hb => by
                          have := hraw1 _ (RawBody.esc 'u' _ (by decide) (RawBody.plains q2 hq2p hb))
                          simpa using this)
                        (fun F b => uq_esc_pair F q q2 b acc r low hq hq2 hr1 hl) (by simp)
                      simpa using this
                    · exact absurd h (stringBody_lone _ _ _ _ _)
                  · cases h
                · exact absurd h (stringBody_lone _ _ _ _ _)
              · rw [if_neg hr1] at h
                by_cases hr2 : 0xDC00 ≤ r ∧ r < 0xE000
                · rw [if_pos hr2] at h
                  exact absurd h (stringBody_lone _ _ _ _ _)
                · rw [if_neg hr2] at h
                  obtain ⟨hlone, hg⟩ := ih _ _ _ _ _ h
                  refine ⟨hlone, ?_⟩
                  have := Good.step (pre := '\\' :: 'u' :: q) hg hraw1
                    (fun F b => uq_esc_u F q b acc r hq hr1 hr2) (by simp)
                  simpa using this
          · rw [sb_esc_bad _ _ _ _ _ (by simp only [not_or] at he; exact ⟨he.1, he.2.1, he.2.2, hb, hf, hn, hr, ht, hu⟩)] at h
            cases h
      · rw [sb_plain _ _ _ _ _ h1 h2 h3] at h
        obtain ⟨hl, hg⟩ := ih _ _ _ _ _ h
        exact ⟨hl, Good.step (pre := [c]) hg (fun b hb => .plain c b h1 h3 (ne_nl_of_ge h2) hb)
          (fun F b => uq_plain F c b acc h3) (by simp)⟩

/-- the library's `unquoteJSON` on the raw body gives the strict decoder's string -/
theorem Good.unquote {t str rest : Str} (h : Good t [] str rest) :
    ∃ body, t = body ++ '"' :: rest ∧ RawBody body ∧ unquoteJSON body = str := by
  obtain ⟨body, ht, hr, hu⟩ := h
  exact ⟨body, ht, hr, by simp [unquoteJSON, hu (body.length + 1) (by omega)]⟩

/-! ### the machines copy a raw body verbatim -/
open RT

theorem LRun_raw {body : Str} (hb : RawBody body) : ∀ {rest acc val inVal line R},
    LRun rest .str acc (val ++ body) inVal line R → LRun (I body ++ rest) .str acc val inVal line R := by
  induction hb with
  | nil => intro rest acc val inVal line R h; simpa [I] using h
  | plain c t h1 h2 h3 _ ih =>
    intro rest acc val inVal line R h
    exact LRun_str_plain h1 h2 h3 (ih (by simpa using h))
  | esc e t h3 _ ih =>
    intro rest acc val inVal line R h
    exact LRun_str_esc h3 (ih (by simpa using h))

theorem ORun_raw_str {body : Str} (hb : RawBody body) : ∀ {rest acc key val inVal line R},
    ORun rest .str acc key (val ++ body) inVal line R → ORun (I body ++ rest) .str acc key val inVal line R := by
  induction hb with
  | nil => intro rest acc key val inVal line R h; simpa [I] using h
  | plain c t h1 h2 h3 _ ih =>
    intro rest acc key val inVal line R h
    exact ORun_str_plain h1 h2 h3 (ih (by simpa using h))
  | esc e t h3 _ ih =>
    intro rest acc key val inVal line R h
    exact ORun_str_esc h3 (ih (by simpa using h))

theorem ORun_raw_key {body : Str} (hb : RawBody body) : ∀ {rest acc key val inVal line R},
    ORun rest .key acc (key ++ body) val inVal line R → ORun (I body ++ rest) .key acc key val inVal line R := by
  induction hb with
  | nil => intro rest acc key val inVal line R h; simpa [I] using h
  | plain c t h1 h2 h3 _ ih =>
    intro rest acc key val inVal line R h
    exact ORun_key_plain h1 h2 h3 (ih (by simpa using h))
  | esc e t h3 _ ih =>
    intro rest acc key val inVal line R h
    exact ORun_key_esc h3 (ih (by simpa using h))

end SVP
end Anytype
