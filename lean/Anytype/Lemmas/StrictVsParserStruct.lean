/-
Strict decoder vs. lenient parser, part 3: structure and entry points.

By induction on the fuel of `Strict.value / elements / members`: whenever the strict decoder
accepts an array (object) body, the list (object) machine started behind the opening bracket
returns the same tree and stops at the same place.  Whitespace is skipped by the `.val`,
`.keyStart`, `.afterKey`, `.afterVal` states (and by `.afterStr`, which skips anything); the line
counter is quantified existentially (`LOk` / `OOk`).

The only restriction is `NumRunsShort`: no run of number characters reaches `numRunBound` = 9600
characters (see `StrictVsParserNum.lean` and `Props/C03.lean` for why it cannot be dropped).
-/
import Anytype.Lemmas.StrictVsParserStr
import Anytype.Lemmas.ParserBytes
import Anytype.Lemmas.ParseTop
import Anytype.Lemmas.StrictRoundTrip
namespace Anytype
namespace SVP
open Strict RT

/-! ### runs that end in `.ok`, whatever the line counter -/

def LOk (items : List Item) (st : LSt) (acc : List JVal) (val : Str) (iv : Bool) (v : JVal)
    (rest : List Item) : Prop :=
  ∀ line, ∃ line', LRun items st acc val iv line (.ok v rest line')

def OOk (items : List Item) (st : OSt) (acc : List (Str × JVal)) (key val : Str) (iv : Bool) (v : JVal)
    (rest : List Item) : Prop :=
  ∀ line, ∃ line', ORun items st acc key val iv line (.ok v rest line')

theorem LOk.lift {items items' st st' acc acc' val val' iv iv' v rest}
    (h : ∀ line R, LRun items' st' acc' val' iv' line R → LRun items st acc val iv line R)
    (hk : LOk items' st' acc' val' iv' v rest) : LOk items st acc val iv v rest :=
  fun line => let ⟨l', hl⟩ := hk line; ⟨l', h line _ hl⟩

theorem OOk.lift {items items' st st' acc acc' key key' val val' iv iv' v rest}
    (h : ∀ line R, ORun items' st' acc' key' val' iv' line R → ORun items st acc key val iv line R)
    (hk : OOk items' st' acc' key' val' iv' v rest) : OOk items st acc key val iv v rest :=
  fun line => let ⟨l', hl⟩ := hk line; ⟨l', h line _ hl⟩

/-! ### whitespace -/

theorem isWs_cases {c : Char} (h : isWs c = true) : c = ' ' ∨ c = '\t' ∨ c = '\n' ∨ c = '\r' := by
  simpa [isWs, or_assoc] using h

theorem isWs_isSpace {c : Char} (h : isWs c = true) : isSpace c = true := by
  rcases isWs_cases h with rfl | rfl | rfl | rfl <;> decide

theorem isWs_ne {c : Char} (h : isWs c = true) : c ≠ ',' ∧ c ≠ ']' ∧ c ≠ '}' := by
  rcases isWs_cases h with rfl | rfl | rfl | rfl <;> decide

theorem skipWs_spec (s : Str) : ∃ w, s = w ++ skipWs s ∧ ∀ c ∈ w, isWs c = true := by
  induction s with
  | nil => exact ⟨[], rfl, by simp⟩
  | cons c t ih =>
    by_cases hc : isWs c = true
    · obtain ⟨w, hw, hw'⟩ := ih
      refine ⟨c :: w, by simp only [skipWs, hc, if_true, List.cons_append]; rw [← hw], ?_⟩
      intro d hd
      rcases List.mem_cons.mp hd with rfl | hd
      · exact hc
      · exact hw' d hd
    · exact ⟨[], by simp [skipWs, hc], by simp⟩

theorem skipWs_suffix (s : Str) : skipWs s <:+ s := by
  obtain ⟨w, hw, _⟩ := skipWs_spec s
  exact ⟨w, hw.symm⟩

theorem LOk_ws_val {c : Char} (hc : isSpace c = true) {rest acc val iv v R}
    (h : LOk rest .val acc val iv v R) : LOk (some c :: rest) .val acc val iv v R := by
  intro line
  obtain ⟨l', hl⟩ := h (bumpLine c line)
  refine ⟨l', fun fuel hf => ?_⟩
  cases fuel with
  | zero => simp at hf
  | succ n =>
    simp only [pList, hc, if_true]
    exact hl n (by simpa using hf)

theorem LOk_skip_afterStr {c : Char} (h1 : c ≠ ',') (h2 : c ≠ ']') {rest acc val iv v R}
    (h : LOk rest .afterStr acc val iv v R) : LOk (some c :: rest) .afterStr acc val iv v R := by
  intro line
  obtain ⟨l', hl⟩ := h (bumpLine c line)
  refine ⟨l', fun fuel hf => ?_⟩
  cases fuel with
  | zero => simp at hf
  | succ n =>
    simp only [pList, beq_iff_eq, h1, h2, if_false]
    exact hl n (by simpa using hf)

theorem OOk_ws {c : Char} (hc : isSpace c = true) {st : OSt}
    (hst : st = .keyStart ∨ st = .afterKey ∨ st = .val ∨ st = .afterVal) {rest acc key val iv v R}
    (h : OOk rest st acc key val iv v R) : OOk (some c :: rest) st acc key val iv v R := by
  intro line
  obtain ⟨l', hl⟩ := h (bumpLine c line)
  refine ⟨l', fun fuel hf => ?_⟩
  cases fuel with
  | zero => simp at hf
  | succ n =>
    rcases hst with rfl | rfl | rfl | rfl
    all_goals simp only [pObject, hc, if_true]
    all_goals exact hl n (by simpa using hf)

theorem OOk_skip_afterStr {c : Char} (h1 : c ≠ ',') (h2 : c ≠ '}') {rest acc key val iv v R}
    (h : OOk rest .afterStr acc key val iv v R) : OOk (some c :: rest) .afterStr acc key val iv v R := by
  intro line
  obtain ⟨l', hl⟩ := h (bumpLine c line)
  refine ⟨l', fun fuel hf => ?_⟩
  cases fuel with
  | zero => simp at hf
  | succ n =>
    simp only [pObject, beq_iff_eq, h1, h2, if_false]
    exact hl n (by simpa using hf)

/-- skipping a whitespace run in the list machine's `.val` state -/
theorem LOk_skipWs_val (s : Str) {acc val iv v R}
    (h : LOk (I (skipWs s)) .val acc val iv v R) : LOk (I s) .val acc val iv v R := by
  obtain ⟨w, hw, hw'⟩ := skipWs_spec s
  rw [hw]
  generalize skipWs s = u at h
  clear hw
  induction w with
  | nil => simpa using h
  | cons c w ih =>
    have := LOk_ws_val (isWs_isSpace (hw' c (by simp))) (ih (fun d hd => hw' d (by simp [hd])))
    simpa [I] using this

theorem LOk_skipWs_afterStr (s : Str) {acc val iv v R}
    (h : LOk (I (skipWs s)) .afterStr acc val iv v R) : LOk (I s) .afterStr acc val iv v R := by
  obtain ⟨w, hw, hw'⟩ := skipWs_spec s
  rw [hw]
  generalize skipWs s = u at h
  clear hw
  induction w with
  | nil => simpa using h
  | cons c w ih =>
    have hc := isWs_ne (hw' c (by simp))
    have := LOk_skip_afterStr hc.1 hc.2.1 (ih (fun d hd => hw' d (by simp [hd])))
    simpa [I] using this

theorem OOk_skipWs (s : Str) {st : OSt} (hst : st = .keyStart ∨ st = .afterKey ∨ st = .val ∨ st = .afterVal)
    {acc key val iv v R}
    (h : OOk (I (skipWs s)) st acc key val iv v R) : OOk (I s) st acc key val iv v R := by
  obtain ⟨w, hw, hw'⟩ := skipWs_spec s
  rw [hw]
  generalize skipWs s = u at h
  clear hw
  induction w with
  | nil => simpa using h
  | cons c w ih =>
    have := OOk_ws (isWs_isSpace (hw' c (by simp))) hst (ih (fun d hd => hw' d (by simp [hd])))
    simpa [I] using this

theorem OOk_skipWs_afterStr (s : Str) {acc key val iv v R}
    (h : OOk (I (skipWs s)) .afterStr acc key val iv v R) : OOk (I s) .afterStr acc key val iv v R := by
  obtain ⟨w, hw, hw'⟩ := skipWs_spec s
  rw [hw]
  generalize skipWs s = u at h
  clear hw
  induction w with
  | nil => simpa using h
  | cons c w ih =>
    have hc := isWs_ne (hw' c (by simp))
    have := OOk_skip_afterStr hc.1 hc.2.2 (ih (fun d hd => hw' d (by simp [hd])))
    simpa [I] using this

/-! ### the domain restriction on number literals, suffix facts -/

/-- no run of number characters reaches `numRunBound` (= 9600) characters -/
def NumRunsShort (s : Str) : Prop :=
  ∀ t, t <:+: s → (∀ c ∈ t, isNumChar c = true) → t.length < numRunBound

theorem NumRunsShort.of_suffix {s r : Str} (h : NumRunsShort s) (hs : r <:+ s) : NumRunsShort r :=
  fun t ht hc => h t (ht.trans hs.isInfix) hc

theorem NumRunsShort.of_length {s : Str} (h : s.length < numRunBound) : NumRunsShort s :=
  fun _ ht _ => Nat.lt_of_le_of_lt ht.length_le h

/-- a scalar literal at the head of `s`: its text, and what `parseField` makes of it -/
def ScalarAt (s : Str) (v : JVal) (r : Str) : Prop :=
  ∃ txt, s = txt ++ r ∧ txt ≠ [] ∧ (∀ c ∈ txt, PlainChar c) ∧
    (((∀ c ∈ txt, isNumChar c = true) → txt.length < numRunBound) → ∀ line, parseField txt line = .ok v) ∧
    v.isContainer = false

theorem number_kind {s : Str} {v : JVal} {r : Str} (h : number s = some (some v, r)) : v.isContainer = false := by
  rw [number_eq] at h
  obtain ⟨neg, d0, more, fp, hasFrac, et, ex, _, _, _, _, _, _, _, hfin⟩ := number'_shape s _ r h
  unfold numFinal at hfin
  simp only [] at hfin
  repeat' split at hfin
  all_goals first
    | (simp only [Option.some.injEq, Prod.mk.injEq] at hfin; obtain ⟨rfl, _⟩ := hfin; rfl)
    | (cases hfin; done)

theorem startsWith_spec {s lit r : Str} (h : startsWith s lit = some r) : s = lit ++ r := by
  unfold startsWith at h
  split at h
  · rename_i hp
    obtain ⟨u, hu⟩ := List.isPrefixOf_iff_prefix.mp hp
    simp only [Option.some.injEq] at h
    rw [← hu] at h
    simp at h
    rw [← hu, h]
  · cases h

/-- what a successful `value` call has seen -/
theorem value_cases (f : Nat) (s : Str) (v : JVal) (r : Str) (h : value (f + 1) s = .ok v r) :
    (∃ t, s = '[' :: t ∧ ((skipWs t = ']' :: r ∧ v = .list []) ∨ elements f (skipWs t) [] = .ok v r)) ∨
    (∃ t, s = '{' :: t ∧ ((skipWs t = '}' :: r ∧ v = .obj []) ∨ members f (skipWs t) [] = .ok v r)) ∨
    (∃ t str, s = '"' :: t ∧ stringBody (t.length + 1) t [] false = some (some str, r) ∧ v = .str str) ∨
    ScalarAt s v r := by
  cases s with
  | nil => simp [value] at h
  | cons c t =>
    by_cases h1 : c = '['
    · subst h1
      left
      refine ⟨t, rfl, ?_⟩
      simp only [value, beq_self_eq_true, if_true] at h
      split at h
      · rename_i r' hr
        cases h
        exact .inl ⟨hr, rfl⟩
      · exact .inr h
    by_cases h2 : c = '{'
    · subst h2
      right; left
      refine ⟨t, rfl, ?_⟩
      simp only [value, beq_iff_eq, h1, if_false, if_true] at h
      split at h
      · rename_i r' hr
        cases h
        exact .inl ⟨hr, rfl⟩
      · exact .inr h
    by_cases h3 : c = '"'
    · subst h3
      right; right; left
      simp only [value, beq_iff_eq, h1, h2, if_false, if_true] at h
      split at h
      · cases h
      · cases h
      · rename_i str r' hs
        cases h
        exact ⟨t, str, rfl, hs, rfl⟩
    right; right; right
    by_cases h4 : c = 't'
    · subst h4
      simp only [value, beq_iff_eq, h1, h2, h3, if_false, if_true] at h
      split at h
      · rename_i r' hr
        cases h
        have := startsWith_spec hr
        rw [toList_true] at this
        exact ⟨['t', 'r', 'u', 'e'], this, by simp, by decide,
          fun _ line => by have := parseField_true line; simpa [ser] using this, rfl⟩
      · cases h
    by_cases h5 : c = 'f'
    · subst h5
      simp only [value, beq_iff_eq, h1, h2, h3, h4, if_false, if_true] at h
      split at h
      · rename_i r' hr
        cases h
        have := startsWith_spec hr
        rw [toList_false] at this
        exact ⟨['f', 'a', 'l', 's', 'e'], this, by simp, by decide,
          fun _ line => by have := parseField_false line; simpa [ser] using this, rfl⟩
      · cases h
    by_cases h6 : c = 'n'
    · subst h6
      simp only [value, beq_iff_eq, h1, h2, h3, h4, h5, if_false, if_true] at h
      split at h
      · rename_i r' hr
        cases h
        have := startsWith_spec hr
        rw [toList_null] at this
        exact ⟨['n', 'u', 'l', 'l'], this, by simp, by decide,
          fun _ line => by have := parseField_null line; simpa [ser] using this, rfl⟩
      · cases h
    · simp only [value, beq_iff_eq, h1, h2, h3, h4, h5, h6, if_false] at h
      split at h
      · cases h
      · cases h
      · rename_i v' r' hn
        cases h
        obtain ⟨txt, hs, hne, hnc, hpf⟩ := number_parseField _ _ _ hn
        exact ⟨txt, hs, hne, fun c hc => plain_of_numChar (hnc c hc), fun hl => hpf (hl hnc), number_kind hn⟩

theorem elements_cases (f : Nat) (s : Str) (acc : List JVal) (v : JVal) (r : Str)
    (h : elements (f + 1) s acc = .ok v r) :
    ∃ x r1, value f s = .ok x r1 ∧
      ((∃ r', skipWs r1 = ',' :: r' ∧ elements f (skipWs r') (acc ++ [x]) = .ok v r) ∨
       (skipWs r1 = ']' :: r ∧ v = .list (acc ++ [x]))) := by
  simp only [elements] at h
  split at h
  · cases h
  · cases h
  · rename_i x r1 hv
    refine ⟨x, r1, hv, ?_⟩
    split at h
    · rename_i r' hr
      exact .inl ⟨r', hr, h⟩
    · rename_i r' hr
      cases h
      exact .inr ⟨hr, rfl⟩
    · cases h

theorem members_cases (f : Nat) (s : Str) (acc : List (Str × JVal)) (v : JVal) (r : Str)
    (h : members (f + 1) s acc = .ok v r) :
    ∃ t k r0 r1 x r2, s = '"' :: t ∧ stringBody (t.length + 1) t [] false = some (some k, r0) ∧
      skipWs r0 = ':' :: r1 ∧ value f (skipWs r1) = .ok x r2 ∧
      ((∃ r', skipWs r2 = ',' :: r' ∧ members f (skipWs r') (setField acc k x) = .ok v r) ∨
       (skipWs r2 = '}' :: r ∧ v = .obj (setField acc k x))) := by
  simp only [members] at h
  split at h
  · rename_i t
    split at h
    · cases h
    · cases h
    · rename_i k r0 hk
      split at h
      · rename_i r1 hr1
        split at h
        · cases h
        · cases h
        · rename_i x r2 hv
          refine ⟨t, k, r0, r1, x, r2, rfl, hk, hr1, hv, ?_⟩
          split at h
          · rename_i r' hr
            exact .inl ⟨r', hr, h⟩
          · rename_i r' hr
            cases h
            exact .inr ⟨hr, rfl⟩
          · cases h
      · cases h
  · cases h

theorem suffix_of_cons_eq {a : Char} {s r r' : Str} (h : skipWs s = a :: r') (hr : r <:+ r') : r <:+ s :=
  (hr.trans (List.suffix_cons a r')).trans (h ▸ skipWs_suffix s)

/-- the strict decoder returns a suffix of its input -/
theorem suffix_all : ∀ n,
    (∀ s v r, value n s = .ok v r → r <:+ s) ∧
    (∀ s acc v r, elements n s acc = .ok v r → r <:+ s) ∧
    (∀ s acc v r, members n s acc = .ok v r → r <:+ s) := by
  intro n
  induction n with
  | zero =>
    refine ⟨?_, ?_, ?_⟩
    · intro s v r h; simp [value] at h
    · intro s acc v r h; simp [elements] at h
    · intro s acc v r h; simp [members] at h
  | succ n ih =>
    obtain ⟨ihv, ihe, ihm⟩ := ih
    refine ⟨?_, ?_, ?_⟩
    · intro s v r h
      rcases value_cases n s v r h with ⟨t, rfl, h | h⟩ | ⟨t, rfl, h | h⟩ | ⟨t, str, rfl, hs, _⟩ | ⟨txt, hs, _⟩
      · exact (suffix_of_cons_eq h.1 (List.suffix_refl r)).trans (List.suffix_cons _ _)
      · exact ((ihe _ _ _ _ h).trans (skipWs_suffix t)).trans (List.suffix_cons _ _)
      · exact (suffix_of_cons_eq h.1 (List.suffix_refl r)).trans (List.suffix_cons _ _)
      · exact ((ihm _ _ _ _ h).trans (skipWs_suffix t)).trans (List.suffix_cons _ _)
      · obtain ⟨_, body, ht, _⟩ := stringBody_sound _ _ _ _ _ _ hs
        rw [ht]
        exact ((List.suffix_cons _ _).trans (List.suffix_append _ _)).trans (List.suffix_cons _ _)
      · rw [hs]; exact List.suffix_append _ _
    · intro s acc v r h
      obtain ⟨x, r1, hv, h | h⟩ := elements_cases n s acc v r h
      · obtain ⟨r', hr, he⟩ := h
        exact (suffix_of_cons_eq hr ((ihe _ _ _ _ he).trans (skipWs_suffix r'))).trans (ihv _ _ _ hv)
      · exact (suffix_of_cons_eq h.1 (List.suffix_refl r)).trans (ihv _ _ _ hv)
    · intro s acc v r h
      obtain ⟨t, k, r0, r1, x, r2, rfl, hk, hr1, hv, h⟩ := members_cases n s acc v r h
      obtain ⟨_, body, ht, _⟩ := stringBody_sound _ _ _ _ _ _ hk
      have h0 : r0 <:+ '"' :: t := by
        rw [ht]
        exact ((List.suffix_cons _ _).trans (List.suffix_append _ _)).trans (List.suffix_cons _ _)
      have h2 : r2 <:+ '"' :: t :=
        (suffix_of_cons_eq hr1 ((ihv _ _ _ hv).trans (skipWs_suffix r1))).trans h0
      rcases h with ⟨r', hr, hm⟩ | ⟨hr, _⟩
      · exact (suffix_of_cons_eq hr ((ihm _ _ _ _ hm).trans (skipWs_suffix r'))).trans h2
      · exact (suffix_of_cons_eq hr (List.suffix_refl r)).trans h2

/-! ### nested containers, lifted step lemmas -/

theorem LOk_val_list {items rest' acc val tgt R} {l : JVal}
    (hn : LOk items .val [] [] false l rest') (h : LOk rest' .val (acc ++ [l]) val false tgt R) :
    LOk (some '[' :: items) .val acc val false tgt R := by
  intro line
  obtain ⟨l1, h1⟩ := hn line
  obtain ⟨l2, h2⟩ := h l1
  exact ⟨l2, LRun_val_list h1 (Nat.le_of_lt (pList_ok_length (h1 (items.length + 1) (by omega)))) h2⟩

theorem LOk_val_obj {items rest' acc val tgt R} {o : JVal}
    (hn : OOk items .keyStart [] [] [] false o rest') (h : LOk rest' .val (acc ++ [o]) val false tgt R) :
    LOk (some '{' :: items) .val acc val false tgt R := by
  intro line
  obtain ⟨l1, h1⟩ := hn line
  obtain ⟨l2, h2⟩ := h l1
  exact ⟨l2, LRun_val_obj h1 (Nat.le_of_lt (pObject_ok_length (h1 (items.length + 1) (by omega)))) h2⟩

theorem OOk_val_list {items rest' acc key val tgt R} {l : JVal}
    (hn : LOk items .val [] [] false l rest')
    (h : OOk rest' .afterVal (setField acc key l) key val false tgt R) :
    OOk (some '[' :: items) .val acc key val false tgt R := by
  intro line
  obtain ⟨l1, h1⟩ := hn line
  obtain ⟨l2, h2⟩ := h l1
  exact ⟨l2, ORun_val_list h1 (Nat.le_of_lt (pList_ok_length (h1 (items.length + 1) (by omega)))) h2⟩

theorem OOk_val_obj {items rest' acc key val tgt R} {o : JVal}
    (hn : OOk items .keyStart [] [] [] false o rest')
    (h : OOk rest' .afterVal (setField acc key o) key val false tgt R) :
    OOk (some '{' :: items) .val acc key val false tgt R := by
  intro line
  obtain ⟨l1, h1⟩ := hn line
  obtain ⟨l2, h2⟩ := h l1
  exact ⟨l2, ORun_val_obj h1 (Nat.le_of_lt (pObject_ok_length (h1 (items.length + 1) (by omega)))) h2⟩

theorem I_cons' (c : Char) (s : Str) : I (c :: s) = some c :: I s := rfl
theorem I_app (a b : Str) : I (a ++ b) = I a ++ I b := by simp [I]

/-! ### what follows a value -/

/-- after an element: whitespace, then `,` and the rest of the elements, or the closing bracket -/
def LEnd (r : Str) (acc' : List JVal) (tgt : JVal) (R : List Item) : Prop :=
  (∃ r', skipWs r = ',' :: r' ∧ LOk (I r') .val acc' [] false tgt R) ∨
  (∃ r', skipWs r = ']' :: r' ∧ tgt = .list acc' ∧ R = I r')

/-- after a field value: whitespace, then `,` and the rest of the members, or the closing brace -/
def OEnd (r : Str) (acc' : List (Str × JVal)) (key : Str) (tgt : JVal) (R : List Item) : Prop :=
  (∃ r', skipWs r = ',' :: r' ∧ ∀ val iv, OOk (I r') .keyStart acc' key val iv tgt R) ∨
  (∃ r', skipWs r = '}' :: r' ∧ tgt = .obj acc' ∧ R = I r')

theorem LEnd.container {r acc' tgt R} (h : LEnd r acc' tgt R) : LOk (I r) .val acc' [] false tgt R := by
  apply LOk_skipWs_val
  rcases h with ⟨r', hr, hk⟩ | ⟨r', hr, rfl, rfl⟩
  · rw [hr, I_cons']
    exact hk.lift (fun _ _ h => LRun_val_comma0 h)
  · rw [hr, I_cons']
    exact fun line => ⟨line, LRun_val_close0⟩

theorem LEnd.string {r acc' tgt R} (h : LEnd r acc' tgt R) : LOk (I r) .afterStr acc' [] false tgt R := by
  apply LOk_skipWs_afterStr
  rcases h with ⟨r', hr, hk⟩ | ⟨r', hr, rfl, rfl⟩
  · rw [hr, I_cons']
    exact hk.lift (fun _ _ h => LRun_afterStr_comma h)
  · rw [hr, I_cons']
    exact fun line => ⟨line, LRun_afterStr_close⟩

theorem LEnd.scalar {r acc tgt R} {v : JVal} {txt : Str} (h : LEnd r (acc ++ [v]) tgt R) (hne : txt ≠ [])
    (hpf : ∀ line, parseField txt line = .ok v) : LOk (I r) .val acc txt true tgt R := by
  apply LOk_skipWs_val
  rcases h with ⟨r', hr, hk⟩ | ⟨r', hr, rfl, rfl⟩
  · rw [hr, I_cons']
    exact fun line => let ⟨l', hl⟩ := hk line; ⟨l', LRun_val_comma hne (hpf line) hl⟩
  · rw [hr, I_cons']
    exact fun line => ⟨line, LRun_val_close hne (hpf line)⟩

theorem OEnd.container {r acc' key val iv tgt R} (h : OEnd r acc' key tgt R) :
    OOk (I r) .afterVal acc' key val iv tgt R := by
  apply OOk_skipWs _ (.inr (.inr (.inr rfl)))
  rcases h with ⟨r', hr, hk⟩ | ⟨r', hr, rfl, rfl⟩
  · rw [hr, I_cons']
    exact (hk val iv).lift (fun _ _ h => ORun_afterVal_comma h)
  · rw [hr, I_cons']
    exact fun line => ⟨line, ORun_afterVal_close⟩

theorem OEnd.string {r acc' key val iv tgt R} (h : OEnd r acc' key tgt R) :
    OOk (I r) .afterStr acc' key val iv tgt R := by
  apply OOk_skipWs_afterStr
  rcases h with ⟨r', hr, hk⟩ | ⟨r', hr, rfl, rfl⟩
  · rw [hr, I_cons']
    exact (hk val iv).lift (fun _ _ h => ORun_afterStr_comma h)
  · rw [hr, I_cons']
    exact fun line => ⟨line, ORun_afterStr_close⟩

theorem OEnd.scalar {r acc key tgt R} {v : JVal} {txt : Str} (h : OEnd r (setField acc key v) key tgt R)
    (hne : txt ≠ []) (hpf : ∀ line, parseField txt line = .ok v) :
    OOk (I r) .val acc key txt true tgt R := by
  apply OOk_skipWs _ (.inr (.inr (.inl rfl)))
  rcases h with ⟨r', hr, hk⟩ | ⟨r', hr, rfl, rfl⟩
  · rw [hr, I_cons']
    exact fun line => let ⟨l', hl⟩ := hk txt true line; ⟨l', ORun_val_comma hne (hpf line) hl⟩
  · rw [hr, I_cons']
    exact fun line => ⟨line, ORun_val_close hne (hpf line)⟩

/-! ### the induction -/

def EProp (f : Nat) : Prop := ∀ s acc v r, NumRunsShort s → elements f s acc = .ok v r →
  LOk (I s) .val acc [] false v (I r)

def MProp (f : Nat) : Prop := ∀ s acc v r, NumRunsShort s → members f s acc = .ok v r →
  ∀ key val iv, OOk (I s) .keyStart acc key val iv v (I r)

theorem nestedL {f : Nat} (hE : EProp f) {t : Str} {v : JVal} {r : Str} (hns : NumRunsShort t)
    (h : (skipWs t = ']' :: r ∧ v = .list []) ∨ elements f (skipWs t) [] = .ok v r) :
    LOk (I t) .val [] [] false v (I r) := by
  apply LOk_skipWs_val
  rcases h with ⟨hr, rfl⟩ | h
  · rw [hr, I_cons']
    exact fun line => ⟨line, LRun_val_close0⟩
  · exact hE _ _ _ _ (hns.of_suffix (skipWs_suffix t)) h

theorem nestedO {f : Nat} (hM : MProp f) {t : Str} {v : JVal} {r : Str} (hns : NumRunsShort t)
    (h : (skipWs t = '}' :: r ∧ v = .obj []) ∨ members f (skipWs t) [] = .ok v r) :
    OOk (I t) .keyStart [] [] [] false v (I r) := by
  apply OOk_skipWs _ (.inl rfl)
  rcases h with ⟨hr, rfl⟩ | h
  · rw [hr, I_cons']
    exact fun line => ⟨line, ORun_keyStart_close⟩
  · exact hM _ _ _ _ (hns.of_suffix (skipWs_suffix t)) h _ _ _

theorem ScalarAt.pf {s : Str} {v : JVal} {r : Str} (h : ScalarAt s v r) (hns : NumRunsShort s) :
    ∃ c txt, s = (c :: txt) ++ r ∧ (∀ d ∈ c :: txt, PlainChar d) ∧ ∀ line, parseField (c :: txt) line = .ok v := by
  obtain ⟨txt, hs, hne, hp, hpf, _⟩ := h
  cases txt with
  | nil => contradiction
  | cons c txt =>
    exact ⟨c, txt, hs, hp, hpf (fun hc => hns _ (hs ▸ (List.prefix_append _ _).isInfix) hc)⟩

/-- a value in element position -/
theorem valueL {f : Nat} (hE : EProp f) (hM : MProp f) {s : Str} {v : JVal} {r : Str} (hns : NumRunsShort s)
    (h : value (f + 1) s = .ok v r) {acc : List JVal} {tgt : JVal} {R : List Item}
    (hend : LEnd r (acc ++ [v]) tgt R) : LOk (I s) .val acc [] false tgt R := by
  rcases value_cases f s v r h with ⟨t, rfl, hc⟩ | ⟨t, rfl, hc⟩ | ⟨t, str, rfl, hs, rfl⟩ | hsc
  · rw [I_cons']
    exact LOk_val_list (nestedL hE (hns.of_suffix (List.suffix_cons _ _)) hc) hend.container
  · rw [I_cons']
    exact LOk_val_obj (nestedO hM (hns.of_suffix (List.suffix_cons _ _)) hc) hend.container
  · obtain ⟨_, hg⟩ := stringBody_sound _ _ _ _ _ _ hs
    obtain ⟨body, rfl, hraw, hu⟩ := hg.unquote
    rw [I_cons', I_app, I_cons']
    refine LOk.lift (fun line R h => LRun_val_quote (LRun_raw hraw (LRun_str_end h))) ?_
    rw [List.nil_append, hu]
    exact hend.string
  · obtain ⟨c, txt, rfl, hp, hpf⟩ := hsc.pf hns
    rw [I_app]
    refine LOk.lift (fun line R h =>
      LRun_val_plain (fun d hd => hp d (by simp [hd])) (hp c (by simp)) h) ?_
    rw [List.nil_append]
    exact hend.scalar (by simp) hpf

/-- a value in field position -/
theorem valueO {f : Nat} (hE : EProp f) (hM : MProp f) {s : Str} {v : JVal} {r : Str} (hns : NumRunsShort s)
    (h : value (f + 1) s = .ok v r) {acc : List (Str × JVal)} {key : Str} {tgt : JVal} {R : List Item}
    (hend : OEnd r (setField acc key v) key tgt R) : OOk (I s) .val acc key [] false tgt R := by
  rcases value_cases f s v r h with ⟨t, rfl, hc⟩ | ⟨t, rfl, hc⟩ | ⟨t, str, rfl, hs, rfl⟩ | hsc
  · rw [I_cons']
    exact OOk_val_list (nestedL hE (hns.of_suffix (List.suffix_cons _ _)) hc) hend.container
  · rw [I_cons']
    exact OOk_val_obj (nestedO hM (hns.of_suffix (List.suffix_cons _ _)) hc) hend.container
  · obtain ⟨_, hg⟩ := stringBody_sound _ _ _ _ _ _ hs
    obtain ⟨body, rfl, hraw, hu⟩ := hg.unquote
    rw [I_cons', I_app, I_cons']
    refine OOk.lift (fun line R h => ORun_val_quote (ORun_raw_str hraw (ORun_str_end h))) ?_
    rw [List.nil_append, hu]
    exact hend.string
  · obtain ⟨c, txt, rfl, hp, hpf⟩ := hsc.pf hns
    rw [I_app]
    refine OOk.lift (fun line R h =>
      ORun_val_plain (fun d hd => hp d (by simp [hd])) (hp c (by simp)) h) ?_
    rw [List.nil_append]
    exact hend.scalar (by simp) hpf

theorem value_zero (s : Str) : value 0 s = .bad := by simp [value]

theorem EM_all : ∀ n, EProp n ∧ MProp n := by
  intro n
  induction n using Nat.strongRecOn with
  | _ n ih =>
    cases n with
    | zero =>
      exact ⟨fun s acc v r _ h => by simp [elements] at h, fun s acc v r _ h => by simp [members] at h⟩
    | succ n =>
      refine ⟨?_, ?_⟩
      · intro s acc v r hns h
        obtain ⟨x, r1, hv, hcase⟩ := elements_cases n s acc v r h
        cases n with
        | zero => rw [value_zero] at hv; cases hv
        | succ m =>
          have hr1 : r1 <:+ s := (suffix_all _).1 _ _ _ hv
          apply valueL (ih m (by omega)).1 (ih m (by omega)).2 hns hv
          rcases hcase with ⟨r', hr, he⟩ | ⟨hr, rfl⟩
          · refine .inl ⟨r', hr, ?_⟩
            apply LOk_skipWs_val
            have hs' : skipWs r' <:+ s :=
              (suffix_of_cons_eq hr ((skipWs_suffix r'))).trans hr1
            exact (ih (m + 1) (by omega)).1 _ _ _ _ (hns.of_suffix hs') he
          · exact .inr ⟨r, hr, rfl, rfl⟩
      · intro s acc v r hns h key val iv
        obtain ⟨t, k, r0, r1, x, r2, rfl, hk, hr1, hv, hcase⟩ := members_cases n s acc v r h
        obtain ⟨_, hg⟩ := stringBody_sound _ _ _ _ _ _ hk
        obtain ⟨body, rfl, hraw, hu⟩ := hg.unquote
        cases n with
        | zero => rw [value_zero] at hv; cases hv
        | succ m =>
          have h0 : r0 <:+ '"' :: (body ++ '"' :: r0) :=
            ((List.suffix_cons _ _).trans (List.suffix_append _ _)).trans (List.suffix_cons _ _)
          have h1 : skipWs r1 <:+ '"' :: (body ++ '"' :: r0) :=
            (suffix_of_cons_eq hr1 (skipWs_suffix r1)).trans h0
          have h2 : r2 <:+ '"' :: (body ++ '"' :: r0) := ((suffix_all _).1 _ _ _ hv).trans h1
          rw [I_cons', I_app, I_cons']
          refine OOk.lift (fun line R h => ORun_keyStart_quote (ORun_raw_key hraw (ORun_key_end h))) ?_
          rw [List.nil_append]
          apply OOk_skipWs _ (.inr (.inl rfl))
          rw [hr1, I_cons']
          refine OOk.lift (fun line R h => ORun_afterKey_colon h) ?_
          rw [hu]
          apply OOk_skipWs _ (.inr (.inr (.inl rfl)))
          apply valueO (ih m (by omega)).1 (ih m (by omega)).2 (hns.of_suffix h1) hv
          rcases hcase with ⟨r', hr, hm⟩ | ⟨hr, rfl⟩
          · refine .inl ⟨r', hr, fun val' iv' => ?_⟩
            apply OOk_skipWs _ (.inl rfl)
            have hs' : skipWs r' <:+ '"' :: (body ++ '"' :: r0) :=
              (suffix_of_cons_eq hr (skipWs_suffix r')).trans h2
            exact (ih (m + 1) (by omega)).2 _ _ _ _ (hns.of_suffix hs') hm _ _ _
          · exact .inr ⟨r, hr, rfl, rfl⟩

/-! ### kinds of the decoded values -/

theorem elements_list : ∀ f s acc v r, elements f s acc = .ok v r → ∃ xs, v = .list xs := by
  intro f
  induction f with
  | zero => intro s acc v r h; simp [elements] at h
  | succ f ih =>
    intro s acc v r h
    obtain ⟨x, r1, _, ⟨r', _, he⟩ | ⟨_, rfl⟩⟩ := elements_cases f s acc v r h
    · exact ih _ _ _ _ he
    · exact ⟨_, rfl⟩

theorem members_obj : ∀ f s acc v r, members f s acc = .ok v r → ∃ kvs, v = .obj kvs := by
  intro f
  induction f with
  | zero => intro s acc v r h; simp [members] at h
  | succ f ih =>
    intro s acc v r h
    obtain ⟨t, k, r0, r1, x, r2, _, _, _, _, ⟨r', _, hm⟩ | ⟨_, rfl⟩⟩ := members_cases f s acc v r h
    · exact ih _ _ _ _ hm
    · exact ⟨_, rfl⟩

theorem not_plain_lbrack : ¬ PlainChar '[' := by decide
theorem not_plain_lbrace : ¬ PlainChar '{' := by decide

/-- a value that starts with `[` is an array -/
theorem value_at_lbrack {f : Nat} {t : Str} {v : JVal} {r : Str} (h : value (f + 1) ('[' :: t) = .ok v r) :
    (skipWs t = ']' :: r ∧ v = .list []) ∨ elements f (skipWs t) [] = .ok v r := by
  rcases value_cases f _ v r h with ⟨t', ht, hc⟩ | ⟨t', ht, _⟩ | ⟨t', _, ht, _⟩ | ⟨txt, hs, hne, hp, _⟩
  · cases ht; exact hc
  · cases ht
  · cases ht
  · cases txt with
    | nil => contradiction
    | cons c txt =>
      simp only [List.cons_append, List.cons.injEq] at hs
      exact absurd (hs.1 ▸ hp c (by simp)) not_plain_lbrack

theorem value_at_lbrace {f : Nat} {t : Str} {v : JVal} {r : Str} (h : value (f + 1) ('{' :: t) = .ok v r) :
    (skipWs t = '}' :: r ∧ v = .obj []) ∨ members f (skipWs t) [] = .ok v r := by
  rcases value_cases f _ v r h with ⟨t', ht, _⟩ | ⟨t', ht, hc⟩ | ⟨t', _, ht, _⟩ | ⟨txt, hs, hne, hp, _⟩
  · cases ht
  · cases ht; exact hc
  · cases ht
  · cases txt with
    | nil => contradiction
    | cons c txt =>
      simp only [List.cons_append, List.cons.injEq] at hs
      exact absurd (hs.1 ▸ hp c (by simp)) not_plain_lbrace

/-! ### bytes -/

theorem encode_append (a b : Str) : encode (a ++ b) = encode a ++ encode b := by simp [encode]

theorem encodeChar_ascii (c : Char) (b : UInt8) (hb : b ∈ encodeChar c) (hlt : b.toNat < 0x80) :
    c.toNat = b.toNat := by
  have hv := char_valid c
  unfold encodeChar at hb
  simp only [] at hb
  split at hb
  · simp only [List.mem_singleton] at hb
    rw [hb, toUInt8_toNat _ (by omega)]
  split at hb
  · simp only [List.mem_cons, List.not_mem_nil, or_false] at hb
    rcases hb with rfl | rfl
    · rw [toUInt8_toNat _ (by omega)] at hlt; omega
    · rw [toUInt8_toNat _ (by omega)] at hlt; omega
  split at hb
  · simp only [List.mem_cons, List.not_mem_nil, or_false] at hb
    rcases hb with rfl | rfl | rfl
    · rw [toUInt8_toNat _ (by omega)] at hlt; omega
    · rw [toUInt8_toNat _ (by omega)] at hlt; omega
    · rw [toUInt8_toNat _ (by omega)] at hlt; omega
  · simp only [List.mem_cons, List.not_mem_nil, or_false] at hb
    rcases hb with rfl | rfl | rfl | rfl
    · rw [toUInt8_toNat _ (by omega)] at hlt; omega
    · rw [toUInt8_toNat _ (by omega)] at hlt; omega
    · rw [toUInt8_toNat _ (by omega)] at hlt; omega
    · rw [toUInt8_toNat _ (by omega)] at hlt; omega

theorem not_mem_encode (pre : Str) (c0 : Char) (b : UInt8) (hb : b.toNat < 0x80) (hc : c0.toNat = b.toNat)
    (h : c0 ∉ pre) : b ∉ encode pre := by
  intro hm
  simp only [encode, List.mem_flatMap] at hm
  obtain ⟨c, hcm, hbc⟩ := hm
  have := encodeChar_ascii c b hbc hb
  have : c = c0 := (char_eq_iff _ _).2 (by omega)
  exact h (this ▸ hcm)

theorem runList_of_LOk {t : Str} {v : JVal} {r : Str} (h : LOk (I t) .val [] [] false v (I r)) (line : Nat) :
    ∃ l', runList (encode t) line = .ok v (I r) l' := by
  obtain ⟨l', hl⟩ := h line
  refine ⟨l', ?_⟩
  unfold runList
  simp only [decodeAll_encode]
  exact hl _ (by simp [I])

theorem runObject_of_OOk {t : Str} {v : JVal} {r : Str} (h : OOk (I t) .keyStart [] [] [] false v (I r))
    (line : Nat) : ∃ l', runObject (encode t) line = .ok v (I r) l' := by
  obtain ⟨l', hl⟩ := h line
  refine ⟨l', ?_⟩
  unfold runObject
  simp only [decodeAll_encode]
  exact hl _ (by simp [I])

/-- `ParseList` on a text whose first `[` opens an array the strict decoder accepts (whatever
precedes the bracket and follows the array) -/
theorem parseList_embedded (pre body : Str) (fuel : Nat) (v : JVal) (rest : Str) (hpre : '[' ∉ pre)
    (hns : NumRunsShort body) (h : value fuel ('[' :: body) = .ok v rest) :
    parseListBytes (encode (pre ++ '[' :: body)) = .ok v := by
  cases fuel with
  | zero => rw [value_zero] at h; cases h
  | succ f =>
    have hl := nestedL (EM_all f).1 hns (value_at_lbrack h)
    have he : encode (pre ++ '[' :: body) = encode pre ++ 0x5B :: encode body := by
      rw [encode_append, encode_cons]; rfl
    have hsplit := splitAtByte_append (b := 0x5B) (pre := encode pre) (encode body)
      (not_mem_encode pre '[' 0x5B (by decide) (by decide) hpre)
    obtain ⟨l', hr⟩ := runList_of_LOk hl (countNL (encode pre) + 1)
    unfold parseListBytes
    rw [he, hsplit]
    simp only [hr]

theorem parseObject_embedded (pre body : Str) (fuel : Nat) (v : JVal) (rest : Str) (hpre : '{' ∉ pre)
    (hns : NumRunsShort body) (h : value fuel ('{' :: body) = .ok v rest) :
    parseObjectBytes (encode (pre ++ '{' :: body)) = .ok v := by
  cases fuel with
  | zero => rw [value_zero] at h; cases h
  | succ f =>
    have hl := nestedO (EM_all f).2 hns (value_at_lbrace h)
    have he : encode (pre ++ '{' :: body) = encode pre ++ 0x7B :: encode body := by
      rw [encode_append, encode_cons]; rfl
    have hsplit := splitAtByte_append (b := 0x7B) (pre := encode pre) (encode body)
      (not_mem_encode pre '{' 0x7B (by decide) (by decide) hpre)
    obtain ⟨l', hr⟩ := runObject_of_OOk hl (countNL (encode pre) + 1)
    unfold parseObjectBytes
    rw [he, hsplit]
    simp only [hr]

/-! ### complete texts -/

theorem decode_ok {s : Str} {v : JVal} (h : decode s = .ok v []) :
    ∃ r, value (s.length + 1) (skipWs s) = .ok v r := by
  unfold decode at h
  split at h
  · rename_i v' r hv
    split at h
    · cases h; exact ⟨r, hv⟩
    · cases h
  · exact ⟨[], h⟩

theorem ws_no_bracket {w : Str} (hw : ∀ c ∈ w, isWs c = true) : '[' ∉ w ∧ '{' ∉ w :=
  ⟨fun h => by have := hw _ h; revert this; decide, fun h => by have := hw _ h; revert this; decide⟩

theorem root_list {f : Nat} {s : Str} {xs : List JVal} {r : Str} (h : value (f + 1) s = .ok (.list xs) r) :
    ∃ t, s = '[' :: t := by
  rcases value_cases f s _ r h with ⟨t, ht, _⟩ | ⟨t, _, hc⟩ | ⟨t, str, _, _, hv⟩ | ⟨_, _, _, _, _, hk⟩
  · exact ⟨t, ht⟩
  · rcases hc with ⟨_, hv⟩ | hm
    · cases hv
    · obtain ⟨kvs, hk⟩ := members_obj _ _ _ _ _ hm; cases hk
  · cases hv
  · cases hk

theorem root_obj {f : Nat} {s : Str} {kvs : List (Str × JVal)} {r : Str} (h : value (f + 1) s = .ok (.obj kvs) r) :
    ∃ t, s = '{' :: t := by
  rcases value_cases f s _ r h with ⟨t, _, hc⟩ | ⟨t, ht, _⟩ | ⟨t, str, _, _, hv⟩ | ⟨_, _, _, _, _, hk⟩
  · rcases hc with ⟨_, hv⟩ | hm
    · cases hv
    · obtain ⟨xs, hk⟩ := elements_list _ _ _ _ _ hm; cases hk
  · exact ⟨t, ht⟩
  · cases hv
  · cases hk

/-- `ParseList` agrees with the strict decoder on every complete text with an array root whose
number literals are shorter than `numRunBound` = 9600 characters -/
theorem parseList_decode (s : Str) (xs : List JVal) (hns : NumRunsShort s)
    (h : decode s = .ok (.list xs) []) : parseListBytes (encode s) = .ok (.list xs) := by
  obtain ⟨r, hv⟩ := decode_ok h
  obtain ⟨t, ht⟩ := root_list hv
  obtain ⟨w, hw, hw'⟩ := skipWs_spec s
  rw [ht] at hv hw
  rw [hw]
  exact parseList_embedded w t _ _ r (ws_no_bracket hw').1
    (hns.of_suffix (hw ▸ ((List.suffix_cons _ _).trans (List.suffix_append _ _)))) hv

theorem parseObject_decode (s : Str) (kvs : List (Str × JVal)) (hns : NumRunsShort s)
    (h : decode s = .ok (.obj kvs) []) : parseObjectBytes (encode s) = .ok (.obj kvs) := by
  obtain ⟨r, hv⟩ := decode_ok h
  obtain ⟨t, ht⟩ := root_obj hv
  obtain ⟨w, hw, hw'⟩ := skipWs_spec s
  rw [ht] at hv hw
  rw [hw]
  exact parseObject_embedded w t _ _ r (ws_no_bracket hw').2
    (hns.of_suffix (hw ▸ ((List.suffix_cons _ _).trans (List.suffix_append _ _)))) hv

end SVP
end Anytype
