/-
Tree-form paths (C10 / C11): the specification side (segments, render, navigate) and the
text-level lemmas about `TF.indexOf` / `TF.split` / `TF.strip` / `TF.parseIdx`.
-/
import Anytype.Lemmas.Strconv
import Anytype.Lemmas.HeapWF
import Anytype.Model.TreeForm
namespace Anytype
namespace TFP
open Heap

/-! ## Specification side -/

/-- one step of a tree-form path -/
inductive Seg
  | key (k : Str)
  | idx (n : Nat)
  deriving DecidableEq, Repr

def isSigil (c : Char) : Bool := c == '.' || c == '#'

/-- a key the property talks about: non-empty, free of '.' and '#' -/
def ValidKey (k : Str) : Prop := k ≠ [] ∧ ∀ c ∈ k, isSigil c = false

instance (k : Str) : Decidable (ValidKey k) := by unfold ValidKey; infer_instance

/-- well-formed segment: a valid key, or an index that fits a Go `int` -/
def Seg.Valid : Seg → Prop
  | .key k => ValidKey k
  | .idx n => n < 2 ^ 63

instance (s : Seg) : Decidable s.Valid := by cases s <;> unfold Seg.Valid <;> infer_instance

/-- every segment well-formed -/
def ValidPath (p : List Seg) : Prop := ∀ s ∈ p, s.Valid

instance (p : List Seg) : Decidable (ValidPath p) := by unfold ValidPath; infer_instance

/-- the text of a segment after its sigil -/
def Seg.text : Seg → Str
  | .key k => k
  | .idx n => Nat.toDigits 10 n

def Seg.sigil : Seg → Char
  | .key _ => '.'
  | .idx _ => '#'

/-- the path text of a segment list: '.' ++ k / '#' ++ Nat.toDigits 10 n -/
def render : List Seg → Str
  | [] => []
  | s :: rest => s.sigil :: (s.text ++ render rest)

/-- value of a digit string read in base ten (most significant digit first) -/
def decVal : Str → Nat → Nat
  | [], n => n
  | c :: t, n => decVal t (n * 10 + (c.toNat - 48))

/-- canonical decimal: the text is exactly the decimal numeral of its value, i.e. non-empty,
only digits, no sign, no leading zero except "0" itself (see `canonNat_iff`) -/
def canonNat (b : Str) : Option Nat :=
  if Nat.toDigits 10 (decVal b 0) = b then some (decVal b 0) else none

/-- right-to-left scanner: the characters read since the last sigil, and the segments after them -/
def segAux : Str → Option (Str × List Seg)
  | [] => some ([], [])
  | c :: t =>
    match segAux t with
    | none => none
    | some (body, segs) =>
      if c == '.' then (if body.isEmpty then none else some ([], .key body :: segs))
      else if c == '#' then
        (match canonNat body with
         | none => none
         | some n => some ([], .idx n :: segs))
      else some (c :: body, segs)

/-- the property's grammar: one or more of '.' key (key non-empty, free of '.' and '#') or
'#' digits (canonical decimal: only digits, no leading zero except "0" itself) -/
def segments (s : Str) : Option (List Seg) :=
  match segAux s with
  | some ([], seg :: segs) => some (seg :: segs)
  | _ => none

/-- one `Get`: `key` needs an object value, `idx` a list value; the result is what
`O.get` / `L.get` return (containers as `h.getVal`, by reference) -/
def navStep (h : Heap) (v : Val) : Seg → Option Val
  | .key k =>
    match v with
    | .obj r => (match O.get h r.addr k with | .ok w => some w | .panic _ => none)
    | _ => none
  | .idx n =>
    match v with
    | .list r => (match L.get h r.addr (n : Int) with | .ok w => some w | .panic _ => none)
    | _ => none

/-- apply Get segment by segment -/
def navigate (h : Heap) (v : Val) : List Seg → Option Val
  | [] => some v
  | s :: rest =>
    match navStep h v s with
    | none => none
    | some w => navigate h w rest

/-- the four tree-form methods on a receiver value with explicit fuel; on a scalar there is
no method to call: modelled as panic / undefined / no-op (never reached from a container root
on the paths the theorems talk about, see `getV_cons`) -/
def getV (fuel : Nat) (h : Heap) (v : Val) (s : Str) : Out Val :=
  match v with
  | .list r => TF.getL fuel h r.addr s
  | .obj r => TF.getO fuel h r.addr s
  | _ => .panic .badTF

def typeV (fuel : Nat) (h : Heap) (v : Val) (s : Str) : Kind :=
  match v with
  | .list r => TF.typeL fuel h r.addr s
  | .obj r => TF.typeO fuel h r.addr s
  | _ => .undefined

def setV (fuel : Nat) (h : Heap) (v : Val) (s : Str) (g : GoVal) : Heap × Out Unit :=
  match v with
  | .list r => TF.setL fuel h r.addr s g
  | .obj r => TF.setO fuel h r.addr s g
  | _ => (h, .panic .badTF)

def unsetV (fuel : Nat) (h : Heap) (v : Val) (s : Str) : Heap × Out Unit :=
  match v with
  | .list r => TF.unsetL fuel h r.addr s
  | .obj r => TF.unsetO fuel h r.addr s
  | _ => (h, .panic .badTF)

/-- the calls as the library makes them: `fuel = len(tf) + 1` -/
def getTF (h : Heap) (v : Val) (s : Str) : Out Val := getV (s.length + 1) h v s
def typeTF (h : Heap) (v : Val) (s : Str) : Kind := typeV (s.length + 1) h v s
def setTF (h : Heap) (v : Val) (s : Str) (g : GoVal) : Heap × Out Unit := setV (s.length + 1) h v s g
def unsetTF (h : Heap) (v : Val) (s : Str) : Heap × Out Unit := unsetV (s.length + 1) h v s

/-- the root is a List or an Object -/
def isContainer : Val → Bool
  | .list _ => true | .obj _ => true | _ => false

/-! ## `indexOf` -/

theorem indexOf_ge (c : Char) (t : Str) : -1 ≤ TF.indexOf c t := by
  induction t with
  | nil => simp [TF.indexOf]
  | cons x xs ih =>
    simp only [TF.indexOf]
    split
    · omega
    · split <;> omega

theorem indexOf_not_mem (c : Char) (t : Str) (h : ∀ x ∈ t, x ≠ c) : TF.indexOf c t = -1 := by
  induction t with
  | nil => rfl
  | cons x xs ih =>
    have hx : (x == c) = false := by simpa using h x (by simp)
    have := ih (fun y hy => h y (by simp [hy]))
    simp [TF.indexOf, hx, this]

theorem indexOf_append_hit (c : Char) (seg u : Str) (h : ∀ x ∈ seg, x ≠ c) :
    TF.indexOf c (seg ++ c :: u) = seg.length := by
  induction seg with
  | nil => simp [TF.indexOf]
  | cons x xs ih =>
    have hx : (x == c) = false := by simpa using h x (by simp)
    have := ih (fun y hy => h y (by simp [hy]))
    simp only [List.cons_append, TF.indexOf, hx, this]
    simp
    omega

theorem indexOf_append_miss (c d : Char) (seg u : Str) (h : ∀ x ∈ seg, x ≠ c) (hd : d ≠ c) :
    TF.indexOf c (seg ++ d :: u) = -1 ∨ (seg.length : Int) < TF.indexOf c (seg ++ d :: u) := by
  induction seg with
  | nil =>
    have hx : (d == c) = false := by simpa using hd
    have := indexOf_ge c u
    simp only [List.nil_append, TF.indexOf, hx]
    simp
    split <;> omega
  | cons x xs ih =>
    have hx : (x == c) = false := by simpa using h x (by simp)
    have := ih (fun y hy => h y (by simp [hy]))
    simp only [List.cons_append, TF.indexOf, hx]
    simp
    split <;> omega

/-! ## `split` -/

def SigilFree (t : Str) : Prop := ∀ c ∈ t, isSigil c = false

theorem SigilFree.ne_dot {t : Str} (h : SigilFree t) : ∀ x ∈ t, x ≠ '.' := by
  intro x hx e; subst e; exact absurd (h _ hx) (by decide)
theorem SigilFree.ne_hash {t : Str} (h : SigilFree t) : ∀ x ∈ t, x ≠ '#' := by
  intro x hx e; subst e; exact absurd (h _ hx) (by decide)

theorem split_sigilFree (t : Str) (h : SigilFree t) : TF.split t = .leaf t := by
  simp [TF.split, indexOf_not_mem _ _ h.ne_dot, indexOf_not_mem _ _ h.ne_hash]

theorem split_dot (seg u : Str) (hne : seg ≠ []) (h : SigilFree seg) :
    TF.split (seg ++ '.' :: u) = .dot seg ('.' :: u) := by
  have hd := indexOf_append_hit '.' seg u h.ne_dot
  have hh := indexOf_append_miss '#' '.' seg u h.ne_hash (by decide)
  have hl : 0 < seg.length := List.length_pos_iff.2 hne
  unfold TF.split
  simp only [hd]
  rw [if_pos]
  · simp
  · simp only [Bool.and_eq_true, Bool.or_eq_true, decide_eq_true_eq]
    omega

theorem split_hash (seg u : Str) (hne : seg ≠ []) (h : SigilFree seg) :
    TF.split (seg ++ '#' :: u) = .hash seg ('#' :: u) := by
  have hd := indexOf_append_hit '#' seg u h.ne_hash
  have hh := indexOf_append_miss '.' '#' seg u h.ne_dot (by decide)
  have hl : 0 < seg.length := List.length_pos_iff.2 hne
  unfold TF.split
  simp only [hd]
  rw [if_neg, if_pos]
  · simp
  · simp only [Bool.and_eq_true, Bool.or_eq_true, decide_eq_true_eq]
    omega
  · simp only [Bool.and_eq_true, Bool.or_eq_true, decide_eq_true_eq]
    omega

/-- an empty first segment: the whole remaining text becomes the leaf (finding K1) -/
theorem split_sigil_head (c : Char) (u : Str) (hc : isSigil c = true) :
    TF.split (c :: u) = .leaf (c :: u) := by
  have hc' : c = '.' ∨ c = '#' := by simpa [isSigil] using hc
  rcases hc' with rfl | rfl
  · have h1 := indexOf_ge '#' ('.' :: u)
    have h0 : TF.indexOf '.' ('.' :: u) = 0 := by simp [TF.indexOf]
    unfold TF.split
    simp only [h0]
    rw [if_neg, if_neg]
    · simp only [Bool.and_eq_true, Bool.or_eq_true, decide_eq_true_eq]; omega
    · simp
  · have h1 := indexOf_ge '.' ('#' :: u)
    have h0 : TF.indexOf '#' ('#' :: u) = 0 := by simp [TF.indexOf]
    unfold TF.split
    simp only [h0]
    rw [if_neg, if_neg]
    · simp
    · simp only [Bool.and_eq_true, Bool.or_eq_true, decide_eq_true_eq]; omega

/-- every text is a sigil-free segment followed by nothing or by a sigil -/
theorem seg_decomp (t : Str) :
    ∃ seg rest, t = seg ++ rest ∧ SigilFree seg ∧ (rest = [] ∨ ∃ c u, rest = c :: u ∧ isSigil c = true) := by
  induction t with
  | nil => exact ⟨[], [], rfl, (by intro c hc; cases hc), Or.inl rfl⟩
  | cons x xs ih =>
    cases hx : isSigil x
    · obtain ⟨seg, rest, e, hf, hr⟩ := ih
      refine ⟨x :: seg, rest, by rw [e]; rfl, ?_, hr⟩
      intro c hc
      rcases List.mem_cons.1 hc with rfl | hc
      · exact hx
      · exact hf c hc
    · exact ⟨[], x :: xs, rfl, (by intro c hc; cases hc), Or.inr ⟨x, xs, rfl, hx⟩⟩


/-- what `split` does on an arbitrary text -/
theorem split_spec (t : Str) :
    (TF.split t = .leaf t ∧ (SigilFree t ∨ ∃ c u, t = c :: u ∧ isSigil c = true)) ∨
    (∃ seg u, seg ≠ [] ∧ SigilFree seg ∧ t = seg ++ '.' :: u ∧ TF.split t = .dot seg ('.' :: u)) ∨
    (∃ seg u, seg ≠ [] ∧ SigilFree seg ∧ t = seg ++ '#' :: u ∧ TF.split t = .hash seg ('#' :: u)) := by
  obtain ⟨seg, rest, e, hf, hr⟩ := seg_decomp t
  rcases hr with rfl | ⟨c, u, rfl, hc⟩
  · simp only [List.append_nil] at e; subst e
    exact Or.inl ⟨split_sigilFree _ hf, Or.inl hf⟩
  · by_cases hne : seg = []
    · subst hne
      simp only [List.nil_append] at e; subst e
      exact Or.inl ⟨split_sigil_head c u hc, Or.inr ⟨c, u, rfl, hc⟩⟩
    · have hc' : c = '.' ∨ c = '#' := by simpa [isSigil] using hc
      rcases hc' with rfl | rfl
      · exact Or.inr (Or.inl ⟨seg, u, hne, hf, e, by rw [e]; exact split_dot seg u hne hf⟩)
      · exact Or.inr (Or.inr ⟨seg, u, hne, hf, e, by rw [e]; exact split_hash seg u hne hf⟩)

theorem split_dot_inv {t seg rest : Str} (h : TF.split t = .dot seg rest) :
    ∃ u, rest = '.' :: u ∧ seg ≠ [] ∧ SigilFree seg ∧ t = seg ++ rest := by
  rcases split_spec t with ⟨e, _⟩ | ⟨seg', u, hne, hf, et, e⟩ | ⟨seg', u, hne, hf, et, e⟩
  · rw [e] at h; cases h
  · rw [e] at h; cases h; exact ⟨u, rfl, hne, hf, et⟩
  · rw [e] at h; cases h

theorem split_hash_inv {t seg rest : Str} (h : TF.split t = .hash seg rest) :
    ∃ u, rest = '#' :: u ∧ seg ≠ [] ∧ SigilFree seg ∧ t = seg ++ rest := by
  rcases split_spec t with ⟨e, _⟩ | ⟨seg', u, hne, hf, et, e⟩ | ⟨seg', u, hne, hf, et, e⟩
  · rw [e] at h; cases h
  · rw [e] at h; cases h
  · rw [e] at h; cases h; exact ⟨u, rfl, hne, hf, et⟩

theorem split_leaf_inv {t x : Str} (h : TF.split t = .leaf x) :
    x = t ∧ (SigilFree t ∨ ∃ c u, t = c :: u ∧ isSigil c = true) := by
  rcases split_spec t with ⟨e, hx⟩ | ⟨seg', u, hne, hf, et, e⟩ | ⟨seg', u, hne, hf, et, e⟩
  · rw [e] at h; cases h; exact ⟨rfl, hx⟩
  · rw [e] at h; cases h
  · rw [e] at h; cases h

/-- each call consumes the sigil and at least one more character -/
theorem split_dot_length {t seg rest : Str} (h : TF.split t = .dot seg rest) : rest.length < t.length := by
  obtain ⟨u, _, hne, _, e⟩ := split_dot_inv h
  have := List.length_pos_iff.2 hne
  rw [e]; simp; omega

theorem split_hash_length {t seg rest : Str} (h : TF.split t = .hash seg rest) : rest.length < t.length := by
  obtain ⟨u, _, hne, _, e⟩ := split_hash_inv h
  have := List.length_pos_iff.2 hne
  rw [e]; simp; omega

/-! ## `strip`, `parseIdx`, and the text of a rendered path -/

theorem strip_cons (c d : Char) (t : Str) (ht : t ≠ []) :
    TF.strip c (d :: t) = if d = c then some t else none := by
  cases t with
  | nil => exact absurd rfl ht
  | cons x xs => by_cases hd : d = c <;> simp [TF.strip, hd]

theorem strip_short (c : Char) (t : Str) (ht : t.length < 2) : TF.strip c t = none := by
  match t, ht with
  | [], _ => rfl
  | [x], _ => simp [TF.strip]

theorem strip_some {c : Char} {tf t : Str} (hs : TF.strip c tf = some t) : tf = c :: t ∧ t ≠ [] := by
  cases tf with
  | nil => simp [TF.strip] at hs
  | cons d u =>
    simp only [TF.strip] at hs
    split at hs
    · next hc =>
      simp only [Bool.and_eq_true, beq_iff_eq, Bool.not_eq_true', List.isEmpty_eq_false_iff] at hc
      cases hs
      exact ⟨by rw [hc.1], hc.2⟩
    · cases hs

theorem parseIdx_toDigits (n : Nat) (hn : n < 2 ^ 63) : TF.parseIdx (Nat.toDigits 10 n) = some (n : Int) := by
  have := parseIntBase0_itoa (n : Int) (by unfold InRange; omega)
  have e : itoa (n : Int) = Nat.toDigits 10 n := by
    unfold itoa
    rw [if_neg (by omega)]
    simp
  rw [e] at this
  exact this

/-- an index that does not fit a Go `int`: `ParseInt` reports a range error -/
theorem parseIdx_toDigits_big (m : Nat) (hm : 2 ^ 63 ≤ m) : TF.parseIdx (Nat.toDigits 10 m) = none := by
  obtain ⟨c, t, e, _, hc⟩ := toDigits_head m (by omega)
  have hp := parseUintBase0_toDigits m
  have hu := contains_us_toDigits m
  rw [e] at hp hu ⊢
  have c1 : c ≠ '+' := by intro h; subst h; revert hc; decide
  have c2 : c ≠ '-' := by intro h; subst h; revert hc; decide
  unfold TF.parseIdx parseIntBase0
  split
  · rfl
  · split
    rename_i neg body hm'
    have : neg = false ∧ body = c :: t := by
      split at hm'
      · rename_i h1; simp at h1; exact absurd h1.1 c1
      · rename_i h1; simp at h1; exact absurd h1.1 c2
      · simp at hm'; exact ⟨hm'.1, hm'.2.symm⟩
    obtain ⟨rfl, rfl⟩ := this
    simp only [hp, hu]
    simp
    omega

theorem toDigits_ne_nil (n : Nat) : Nat.toDigits 10 n ≠ [] := by
  by_cases h : n = 0
  · subst h; decide
  · obtain ⟨c, t, e, _⟩ := toDigits_head n (by omega)
    rw [e]; simp

theorem toDigits_sigilFree (n : Nat) : SigilFree (Nat.toDigits 10 n) := by
  intro c hc
  have := mem_toDigits_dig hc
  simp only [isSigil, Bool.or_eq_false_iff, beq_eq_false_iff_ne]
  constructor <;> (intro e; subst e; revert this; decide)

theorem Seg.text_ne_nil {s : Seg} (hs : s.Valid) : s.text ≠ [] := by
  cases s with
  | key k => exact hs.1
  | idx n => exact toDigits_ne_nil n

theorem Seg.text_sigilFree {s : Seg} (hs : s.Valid) : SigilFree s.text := by
  cases s with
  | key k => exact hs.2
  | idx n => exact toDigits_sigilFree n

theorem Seg.isSigil_sigil (s : Seg) : isSigil s.sigil = true := by cases s <;> rfl

theorem render_cons (s : Seg) (q : List Seg) : render (s :: q) = s.sigil :: (s.text ++ render q) := rfl

theorem render_append (p q : List Seg) : render (p ++ q) = render p ++ render q := by
  induction p with
  | nil => rfl
  | cons s p ih => simp [render, ih]

theorem render_length_cons (s : Seg) (q : List Seg) (hs : s.Valid) :
    (render q).length + 2 ≤ (render (s :: q)).length := by
  have := List.length_pos_iff.2 (Seg.text_ne_nil hs)
  simp [render]; omega

theorem ValidPath.head {s : Seg} {q : List Seg} (h : ValidPath (s :: q)) : s.Valid := h s (by simp)
theorem ValidPath.tail {s : Seg} {q : List Seg} (h : ValidPath (s :: q)) : ValidPath q :=
  fun x hx => h x (by simp [hx])

/-- the kind of value the segment after this one is applied to -/
def Seg.kind : Seg → Kind
  | .key _ => .object
  | .idx _ => .list

theorem strip_render' (c : Char) (s : Seg) (q : List Seg) (hne : s.text ≠ []) :
    TF.strip c (render (s :: q)) = if s.sigil = c then some (s.text ++ render q) else none := by
  rw [render_cons, strip_cons]
  intro e
  exact hne (List.append_eq_nil_iff.1 e).1

theorem strip_render (c : Char) (s : Seg) (q : List Seg) (hs : s.Valid) :
    TF.strip c (render (s :: q)) = if s.sigil = c then some (s.text ++ render q) else none :=
  strip_render' c s q (Seg.text_ne_nil hs)

theorem split_render' (s : Seg) (q : List Seg) (hne : s.text ≠ []) (hf : SigilFree s.text) :
    TF.split (s.text ++ render q) =
      match q with
      | [] => .leaf s.text
      | .key _ :: _ => .dot s.text (render q)
      | .idx _ :: _ => .hash s.text (render q) := by
  match q with
  | [] => simp only [render, List.append_nil]; exact split_sigilFree _ hf
  | .key k :: q' => exact split_dot _ _ hne hf
  | .idx n :: q' => exact split_hash _ _ hne hf

/-- `TF.split` on a rendered path minus its leading sigil: the first segment's text and the
rendering of the rest -/
theorem split_render (s : Seg) (q : List Seg) (hs : s.Valid) :
    TF.split (s.text ++ render q) =
      match q with
      | [] => .leaf s.text
      | .key _ :: _ => .dot s.text (render q)
      | .idx _ :: _ => .hash s.text (render q) :=
  split_render' s q (Seg.text_ne_nil hs) (Seg.text_sigilFree hs)

/-! ## the grammar is the image of `render` -/

theorem decVal_append (s t : Str) (m : Nat) : decVal (s ++ t) m = decVal t (decVal s m) := by
  induction s generalizing m with
  | nil => rfl
  | cons c s ih => simp [decVal, ih]

theorem decVal_toDigits (n : Nat) : decVal (Nat.toDigits 10 n) 0 = n := by
  induction n using Nat.strongRecOn with
  | _ n ih =>
    by_cases h : n < 10
    · rw [Nat.toDigits_of_lt_base h]
      clear ih; revert n; decide
    · rw [Nat.toDigits_of_base_le (by decide) (by omega), decVal_append, ih (n / 10) (by omega)]
      have hd : ∀ k, k < 10 → (Nat.digitChar k).toNat - 48 = k := by decide
      simp only [decVal, hd (n % 10) (by omega)]
      omega

theorem canonNat_toDigits (n : Nat) : canonNat (Nat.toDigits 10 n) = some n := by
  simp [canonNat, decVal_toDigits]

theorem canonNat_some {b : Str} {n : Nat} (h : canonNat b = some n) : b = Nat.toDigits 10 n := by
  unfold canonNat at h
  split at h
  · next e => cases h; exact e.symm
  · cases h

/-! ### `canonNat` is the explicit grammar: digits only, no leading zero except "0" -/

def isDigit (c : Char) : Bool := 48 ≤ c.toNat && c.toNat ≤ 57

/-- non-empty, only digits, no leading zero except "0" itself -/
def IsCanonText (b : Str) : Prop :=
  b ≠ [] ∧ (∀ c ∈ b, isDigit c = true) ∧ (b = ['0'] ∨ b.head? ≠ some '0')

theorem digitChar_sub (c : Char) (h : 48 ≤ c.toNat ∧ c.toNat ≤ 57) : Nat.digitChar (c.toNat - 48) = c := by
  have hc : c = Char.ofNat c.toNat := (Char.ofNat_toNat c).symm
  have : c.toNat = 48 ∨ c.toNat = 49 ∨ c.toNat = 50 ∨ c.toNat = 51 ∨ c.toNat = 52 ∨ c.toNat = 53 ∨
      c.toNat = 54 ∨ c.toNat = 55 ∨ c.toNat = 56 ∨ c.toNat = 57 := by omega
  rcases this with e | e | e | e | e | e | e | e | e | e <;> (rw [e] at hc; subst hc; decide)

theorem decVal_digits (t : Str) (ht : ∀ c ∈ t, 48 ≤ c.toNat ∧ c.toNat ≤ 57) : ∀ m, 0 < m →
    Nat.toDigits 10 (decVal t m) = Nat.toDigits 10 m ++ t := by
  induction t with
  | nil => intro m _; simp [decVal]
  | cons c t ih =>
    intro m hm
    have hc := ht c (by simp)
    rw [decVal, ih (fun x hx => ht x (by simp [hx])) _ (by omega)]
    rw [Nat.toDigits_of_base_le (by decide) (by omega)]
    have h1 : (m * 10 + (c.toNat - 48)) / 10 = m := by omega
    have h2 : (m * 10 + (c.toNat - 48)) % 10 = c.toNat - 48 := by omega
    rw [h1, h2, digitChar_sub c hc]
    simp

theorem isDigit_iff (c : Char) : isDigit c = true ↔ 48 ≤ c.toNat ∧ c.toNat ≤ 57 := by
  simp [isDigit]

theorem canon_roundtrip {b : Str} (hb : IsCanonText b) : Nat.toDigits 10 (decVal b 0) = b := by
  obtain ⟨hne, hd, hz⟩ := hb
  rcases hz with rfl | hz
  · decide
  · cases b with
    | nil => exact absurd rfl hne
    | cons c t =>
      have hc := (isDigit_iff c).1 (hd c (by simp))
      have hc0 : c ≠ '0' := by intro e; subst e; simp at hz
      have hpos : 0 < c.toNat - 48 := by
        have : c.toNat ≠ 48 := by
          intro e
          apply hc0
          have hc' : c = Char.ofNat c.toNat := (Char.ofNat_toNat c).symm
          rw [e] at hc'; rw [hc']
        omega
      rw [decVal]
      simp only [Nat.zero_mul, Nat.zero_add]
      rw [decVal_digits t (fun x hx => (isDigit_iff x).1 (hd x (by simp [hx]))) _ hpos,
        Nat.toDigits_of_lt_base (by omega), digitChar_sub c hc]
      rfl

/-- `canonNat` accepts exactly the canonical decimal numerals, and returns their value -/
theorem canonNat_iff (b : Str) (n : Nat) : canonNat b = some n ↔ IsCanonText b ∧ n = decVal b 0 := by
  constructor
  · intro h
    have e := canonNat_some h
    subst e
    refine ⟨⟨toDigits_ne_nil n, ?_, ?_⟩, (decVal_toDigits n).symm⟩
    · intro c hc; exact (isDigit_iff c).2 (mem_toDigits_dig hc)
    · by_cases h0 : n = 0
      · subst h0; exact Or.inl (by decide)
      · obtain ⟨c, t, e, hc, _⟩ := toDigits_head n (by omega)
        rw [e]
        refine Or.inr ?_
        simp only [List.head?_cons, ne_eq, Option.some.injEq]
        exact hc
  · rintro ⟨hb, rfl⟩
    simp [canonNat, canon_roundtrip hb]

theorem segAux_append_free (seg rest b : Str) (segs : List Seg) (hf : SigilFree seg)
    (hr : segAux rest = some (b, segs)) : segAux (seg ++ rest) = some (seg ++ b, segs) := by
  induction seg with
  | nil => exact hr
  | cons c seg ih =>
    have hc := hf c (by simp)
    have hc1 : (c == '.') = false := by
      simp only [isSigil, Bool.or_eq_false_iff] at hc; exact hc.1
    have hc2 : (c == '#') = false := by
      simp only [isSigil, Bool.or_eq_false_iff] at hc; exact hc.2
    have := ih (fun x hx => hf x (by simp [hx]))
    simp [segAux, this, hc1, hc2]

theorem segAux_render (p : List Seg) (hp : ∀ s ∈ p, ∀ k, s = .key k → ValidKey k) :
    segAux (render p) = some ([], p) := by
  induction p with
  | nil => rfl
  | cons s q ih =>
    have ihq := ih (fun x hx => hp x (by simp [hx]))
    cases s with
    | key k =>
      have hk := hp (.key k) (by simp) k rfl
      have := segAux_append_free k (render q) [] q hk.2 ihq
      simp only [render_cons, Seg.sigil, Seg.text, segAux, this]
      simp [hk.1]
    | idx n =>
      have := segAux_append_free (Nat.toDigits 10 n) (render q) [] q (toDigits_sigilFree n) ihq
      simp only [render_cons, Seg.sigil, Seg.text, segAux, this]
      simp [canonNat_toDigits]

/-- every rendered non-empty path with valid keys is in the grammar, and parses back to itself -/
theorem segments_render (p : List Seg) (hne : p ≠ []) (hp : ∀ s ∈ p, ∀ k, s = .key k → ValidKey k) :
    segments (render p) = some p := by
  unfold segments
  rw [segAux_render p hp]
  cases p with
  | nil => exact absurd rfl hne
  | cons s q => rfl


theorem segAux_sound : ∀ (s : Str) (b : Str) (segs : List Seg), segAux s = some (b, segs) →
    s = b ++ render segs ∧ SigilFree b ∧ (∀ x ∈ segs, ∀ k, x = .key k → ValidKey k)
  | [], b, segs, h => by
    simp only [segAux, Option.some.injEq, Prod.mk.injEq] at h
    obtain ⟨rfl, rfl⟩ := h
    exact ⟨rfl, (by intro c hc; cases hc), (by intro x hx; cases hx)⟩
  | c :: t, b, segs, h => by
    simp only [segAux] at h
    cases ht : segAux t with
    | none => simp [ht] at h
    | some pr =>
      obtain ⟨b', segs'⟩ := pr
      obtain ⟨e, hf, hk⟩ := segAux_sound t b' segs' ht
      simp only [ht] at h
      by_cases h1 : c = '.'
      · subst h1
        simp only [beq_self_eq_true, if_true] at h
        split at h
        · cases h
        · next hb =>
          simp only [Option.some.injEq, Prod.mk.injEq] at h
          obtain ⟨rfl, rfl⟩ := h
          refine ⟨by rw [e]; rfl, (by intro c hc; cases hc), ?_⟩
          intro x hx k ek
          rcases List.mem_cons.1 hx with rfl | hx
          · cases ek
            exact ⟨by simpa using hb, hf⟩
          · exact hk x hx k ek
      · have h1' : (c == '.') = false := by simpa using h1
        simp only [h1'] at h
        by_cases h2 : c = '#'
        · subst h2
          simp only [beq_self_eq_true, if_true] at h
          cases hc : canonNat b' with
          | none => simp [hc] at h
          | some n =>
            simp only [hc] at h
            obtain ⟨rfl, rfl⟩ := h
            refine ⟨?_, (by intro c hc; cases hc), ?_⟩
            · rw [e, canonNat_some hc]; rfl
            · intro x hx k ek
              rcases List.mem_cons.1 hx with rfl | hx
              · cases ek
              · exact hk x hx k ek
        · have h2' : (c == '#') = false := by simpa using h2
          simp only [h2', Bool.false_eq_true, if_false, Option.some.injEq, Prod.mk.injEq] at h
          obtain ⟨rfl, rfl⟩ := h
          refine ⟨by rw [e]; rfl, ?_, hk⟩
          intro x hx
          rcases List.mem_cons.1 hx with rfl | hx
          · simp [isSigil, h1', h2']
          · exact hf x hx

/-- the grammar is exactly the image of `render` on non-empty paths with valid keys -/
theorem segments_some {s : Str} {p : List Seg} (h : segments s = some p) :
    s = render p ∧ p ≠ [] ∧ ∀ x ∈ p, ∀ k, x = .key k → ValidKey k := by
  unfold segments at h
  split at h
  · next seg segs hs =>
    cases h
    obtain ⟨e, _, hk⟩ := segAux_sound s [] (seg :: segs) hs
    exact ⟨e, by simp, hk⟩
  · cases h

theorem segments_iff (s : Str) (p : List Seg) :
    segments s = some p ↔ s = render p ∧ p ≠ [] ∧ ∀ x ∈ p, ∀ k, x = .key k → ValidKey k :=
  ⟨segments_some, fun ⟨e, hne, hk⟩ => by rw [e]; exact segments_render p hne hk⟩

end TFP
end Anytype
