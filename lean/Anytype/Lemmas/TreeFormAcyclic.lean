/-
On an acyclic value (a tree or a DAG: `Acyclic h v`, i.e. some fuel reifies it) SetTF never visits
a cell twice: `(trail h v p).Nodup`.
-/
import Anytype.Lemmas.TreeFormSet
namespace Anytype
namespace TFP
open Heap

theorem reifyList_isSome (n : Nat) (h : Heap) (xs : List Val) :
    (reifyList n h xs).isSome = true ↔ ∀ x ∈ xs, (reify n h x).isSome = true := by
  induction xs with
  | nil => simp [reifyList]
  | cons x xs ih =>
    rw [reifyList]
    simp only [List.forall_mem_cons, ← ih]
    cases hx : reify n h x <;> cases hxs : reifyList n h xs <;> simp

theorem reifyFields_isSome (n : Nat) (h : Heap) (kvs : List (Str × Val)) :
    (reifyFields n h kvs).isSome = true ↔ ∀ kv ∈ kvs, (reify n h kv.2).isSome = true := by
  induction kvs with
  | nil => simp [reifyFields]
  | cons kv kvs ih =>
    obtain ⟨k, x⟩ := kv
    rw [reifyFields]
    simp only [List.forall_mem_cons, ← ih]
    cases hx : reify n h x <;> cases hxs : reifyFields n h kvs <;> simp

theorem rok_list (n : Nat) (h : Heap) (r : Ref) :
    (reify (n + 1) h (.list r)).isSome = true ↔
      h.isList r.addr = true ∧ ∀ x ∈ h.items r.addr, (reify n h x).isSome = true := by
  rw [reify]
  cases hc : h[r.addr]? with
  | none => simp [isList, hc]
  | some c =>
    cases c with
    | list xs e => simp [isList, items, hc, reifyList_isSome]
    | obj kvs e => simp [isList, hc]

theorem rok_obj (n : Nat) (h : Heap) (r : Ref) :
    (reify (n + 1) h (.obj r)).isSome = true ↔
      h.isObj r.addr = true ∧ ∀ kv ∈ h.fields r.addr, (reify n h kv.2).isSome = true := by
  rw [reify]
  cases hc : h[r.addr]? with
  | none => simp [isObj, hc]
  | some c =>
    cases c with
    | list xs e => simp [isObj, hc]
    | obj kvs e => simp [isObj, fields, hc, reifyFields_isSome]

theorem rok_zero_list (h : Heap) (r : Ref) : (reify 0 h (.list r)).isSome = false := by simp [reify]
theorem rok_zero_obj (h : Heap) (r : Ref) : (reify 0 h (.obj r)).isSome = false := by simp [reify]

theorem reify_scalar (n : Nat) (h : Heap) (v : Val) (hv : isContainer v = false) :
    (reify n h v).isSome = true := by
  cases v <;> simp [isContainer] at hv <;> cases n <;> simp [reify]

/-- more fuel never hurts -/
theorem rok_mono (h : Heap) : ∀ (n : Nat) (v : Val), (reify n h v).isSome = true → (reify (n + 1) h v).isSome = true := by
  intro n
  induction n with
  | zero =>
    intro v hv
    cases v with
    | list r => simp [reify] at hv
    | obj r => simp [reify] at hv
    | _ => exact reify_scalar _ h _ rfl
  | succ n ih =>
    intro v hv
    cases v with
    | list r =>
      rw [rok_list] at hv ⊢
      exact ⟨hv.1, fun x hx => ih x (hv.2 x hx)⟩
    | obj r =>
      rw [rok_obj] at hv ⊢
      exact ⟨hv.1, fun kv hkv => ih kv.2 (hv.2 kv hkv)⟩
    | _ => exact reify_scalar _ h _ rfl

theorem reify_getVal (n : Nat) (h : Heap) (x : Val) : reify n h (h.getVal x) = reify n h x := by
  cases x <;> cases n <;> simp [Heap.getVal, reify]

theorem reify_canon (n : Nat) (h : Heap) (x : Val) : reify n h (canon x) = reify n h x := by
  cases x <;> cases n <;> simp [canon, reify]

/-- a value reached by one step reifies with one unit of fuel less -/
theorem rok_child {h : Heap} {n : Nat} {v w : Val} {s : Seg} (hv : (reify (n + 1) h v).isSome = true)
    (hn : navStep h v s = some w) : (reify n h w).isSome = true := by
  cases s with
  | key k =>
    cases v with
    | obj r =>
      rw [navStep_key_obj] at hn
      cases hx : lookup (h.fields r.addr) k with
      | none => simp [hx] at hn
      | some x =>
        simp only [hx, Option.map_some, Option.some.injEq] at hn
        rw [← hn, reify_getVal]
        exact ((rok_obj n h r).1 hv).2 (k, x) (mem_of_lookup hx)
    | _ => simp [navStep] at hn
  | idx i =>
    cases v with
    | list r =>
      rw [navStep_idx_list] at hn
      cases hx : (h.items r.addr)[i]? with
      | none => simp [hx] at hn
      | some x =>
        simp only [hx, Option.map_some, Option.some.injEq] at hn
        rw [← hn, reify_getVal]
        exact ((rok_list n h r).1 hv).2 x (List.mem_of_getElem? hx)
    | _ => simp [navStep] at hn

/-- the cell at address `b` reifies with fuel `n` -/
def AddrOk (h : Heap) (n : Nat) (b : Nat) : Prop :=
  (h.isList b = true ∧ (reify n h (.list ⟨b, 0⟩)).isSome = true) ∨
  (h.isObj b = true ∧ (reify n h (.obj ⟨b, 0⟩)).isSome = true)

theorem AddrOk.mono {h : Heap} {n b : Nat} (ha : AddrOk h n b) : AddrOk h (n + 1) b := by
  rcases ha with ⟨h1, h2⟩ | ⟨h1, h2⟩
  · exact Or.inl ⟨h1, rok_mono h n _ h2⟩
  · exact Or.inr ⟨h1, rok_mono h n _ h2⟩

theorem addrOk_of_container {h : Heap} {n : Nat} {v : Val} (hc : isContainer v = true)
    (hv : (reify n h v).isSome = true) : AddrOk h n (addrOf v) := by
  cases v with
  | list r =>
    cases n with
    | zero => simp [reify] at hv
    | succ n =>
      refine Or.inl ⟨((rok_list n h r).1 hv).1, ?_⟩
      show (reify (n + 1) h (canon (.list r))).isSome = true
      rw [reify_canon]; exact hv
  | obj r =>
    cases n with
    | zero => simp [reify] at hv
    | succ n =>
      refine Or.inr ⟨((rok_obj n h r).1 hv).1, ?_⟩
      show (reify (n + 1) h (canon (.obj r))).isSome = true
      rw [reify_canon]; exact hv
  | _ => simp [isContainer] at hc

theorem isContainer_of_kind {w : Val} {s : Seg} (hk : w.kind = s.kind) : isContainer w = true := by
  cases s <;> cases w <;> simp [Val.kind, Seg.kind] at hk <;> rfl

/-- every cell of the trail reifies within the fuel of the start value -/
theorem trail_addrOk (h : Heap) : ∀ (p : List Seg) (n : Nat) (v : Val), isContainer v = true →
    (reify n h v).isSome = true → ∀ b ∈ trail h v p, AddrOk h n b := by
  intro p
  induction p with
  | nil => intro n v _ _ b hb; simp [trail] at hb
  | cons s q ih =>
    intro n v hc hv b hb
    cases q with
    | nil =>
      simp only [trail, List.mem_singleton] at hb
      subst hb
      exact addrOk_of_container hc hv
    | cons s' q' =>
      simp only [trail, List.mem_cons] at hb
      rcases hb with rfl | hb
      · exact addrOk_of_container hc hv
      · cases hw : navStep h v s with
        | none => simp [hw] at hb
        | some w =>
          simp only [hw] at hb
          by_cases hk : w.kind = s'.kind
          · simp only [hk, if_true] at hb
            cases n with
            | zero => cases v <;> simp [isContainer] at hc <;> simp [reify] at hv
            | succ m =>
              exact (ih m w (isContainer_of_kind hk) (rok_child hv hw) b hb).mono
          · simp [hk] at hb

theorem exists_min_fuel {P : Nat → Prop} : ∀ n, P n → ∃ m, P m ∧ (m = 0 ∨ ¬ P (m - 1)) := by
  intro n
  induction n with
  | zero => intro h0; exact ⟨0, h0, Or.inl rfl⟩
  | succ n ih =>
    intro hn
    by_cases hp : P n
    · exact ih hp
    · exact ⟨n + 1, hn, Or.inr hp⟩

/-- on an acyclic value no cell is visited twice -/
theorem trail_nodup_of_acyclic (h : Heap) : ∀ (p : List Seg) (v : Val), isContainer v = true →
    Acyclic h v → (trail h v p).Nodup := by
  intro p
  induction p with
  | nil => intro v _ _; simp [trail]
  | cons s q ih =>
    intro v hc hac
    cases q with
    | nil => simp [trail]
    | cons s' q' =>
      cases hw : navStep h v s with
      | none => rw [trail_of_none _ hw]; simp
      | some w =>
        by_cases hk : w.kind = s'.kind
        · rw [trail_reuse q' hw hk, List.nodup_cons]
          obtain ⟨n0, hn0⟩ := hac
          obtain ⟨n, hn, hmin⟩ := exists_min_fuel (P := fun n => (reify n h v).isSome = true) n0 hn0
          cases n with
          | zero => cases v <;> simp [isContainer] at hc <;> simp [reify] at hn
          | succ m =>
            have hmin' : ¬ (reify m h v).isSome = true := by
              rcases hmin with h0 | h1
              · omega
              · exact h1
            have hwm := rok_child hn hw
            refine ⟨?_, ih w (isContainer_of_kind hk) ⟨m, hwm⟩⟩
            intro hmem
            have hok := trail_addrOk h _ m w (isContainer_of_kind hk) hwm _ hmem
            have hvn := addrOk_of_container hc hn
            apply hmin'
            cases v with
            | list r =>
              rcases hok with ⟨_, h2⟩ | ⟨h1, _⟩
              · rw [← reify_canon]; exact h2
              · have := ((rok_list m h r).1 hn).1
                simp only [addrOf] at h1
                rw [isList_false_of_isObj h1] at this; cases this
            | obj r =>
              rcases hok with ⟨h1, _⟩ | ⟨_, h2⟩
              · have := ((rok_obj m h r).1 hn).1
                simp only [addrOf] at h1
                rw [isObj_false_of_isList h1] at this; cases this
              · rw [← reify_canon]; exact h2
            | _ => simp [isContainer] at hc
        · simp [trail, hw, hk]

end TFP
end Anytype
