/-
The tree-form mutators (`SetTF` / `UnsetTF` on lists and objects) act inside the region of their
receiver: with a receiver in a closed address set `P` (and arguments referencing only `P`) they
change only cells of `P`, allocate only new cells, and keep `P` closed.
`GOp` = the method mutators `MOp` plus the four tree-form mutators.
-/
import Anytype.Lemmas.Closed
import Anytype.Model.TreeForm
namespace Anytype
open Heap
namespace Rf

/-- `h'` has every cell of `h`, and the cells outside `P` are unchanged -/
structure Confined (P : Nat → Prop) (h h' : Heap) : Prop where
  len : h.length ≤ h'.length
  same : ∀ b, b < h.length → ¬ P b → h'[b]? = h[b]?

/-- confined to `P`, and `P` is still closed afterwards -/
def Good (P : Nat → Prop) (h h' : Heap) : Prop := Confined P h h' ∧ Closed P h'

theorem Confined.refl (P : Nat → Prop) (h : Heap) : Confined P h h := ⟨Nat.le_refl _, fun _ _ _ => rfl⟩

theorem Confined.trans {P : Nat → Prop} {h1 h2 h3 : Heap} (c1 : Confined P h1 h2)
    (c2 : Confined P h2 h3) : Confined P h1 h3 :=
  ⟨Nat.le_trans c1.len c2.len, fun b hb hP => by
    rw [c2.same b (Nat.lt_of_lt_of_le hb c1.len) hP, c1.same b hb hP]⟩

theorem Confined.of_ext {P : Nat → Prop} {h h' : Heap} {a : Nat} (e : Ext h h' a) (ha : P a) :
    Confined P h h' :=
  ⟨e.len, fun b hb hP => e.other b hb (fun hc => hP (hc ▸ ha))⟩

theorem Confined.of_ext0 {P : Nat → Prop} {h h' : Heap} (e : Ext0 h h') : Confined P h h' :=
  ⟨e.len, fun b hb _ => e.same b hb⟩

theorem Confined.agreeOn {P : Nat → Prop} {h h' : Heap} (c : Confined P h h') (lo hi : Nat)
    (hhi : hi ≤ h.length) (hdis : ∀ a, P a → a < lo ∨ hi ≤ a) : AgreeOn lo hi h h' :=
  fun b h1 h2 => c.same b (by omega) (fun hP => by have := hdis b hP; omega)

theorem Good.refl {P : Nat → Prop} {h : Heap} (cl : Closed P h) : Good P h h := ⟨Confined.refl P h, cl⟩

theorem Good.trans {P : Nat → Prop} {h1 h2 h3 : Heap} (g1 : Good P h1 h2) (g2 : Good P h2 h3) :
    Good P h1 h3 := ⟨g1.1.trans g2.1, g2.2⟩

/-- a method mutator with its receiver in `P` -/
theorem Good.of_stepM {P : Nat → Prop} {h : Heap} (op : MOp) (cl : Closed P h)
    (up : UpFrom P h.length) (ht : P op.target) (hop : op.refP P) : Good P h (stepM h op) :=
  ⟨Confined.of_ext (stepM_ext h op) ht, stepM_closed P h op cl up hop⟩

/-! ### what `Get` returns is stored in the receiver -/

theorem refP_getVal (P : Nat → Prop) (h : Heap) (v : Val) : (h.getVal v).refP P ↔ v.refP P := by
  cases v <;> simp [getVal, Val.refP]

theorem lget_mem {h : Heap} {a : Nat} {i : Int} {w : Val} (hg : L.get h a i = .ok w) :
    ∃ v ∈ h.items a, h.getVal v = w := by
  unfold L.get at hg
  split at hg
  · cases hg
  · split at hg
    · next v hv => cases hg; exact ⟨v, List.mem_of_getElem? hv, rfl⟩
    · cases hg

theorem lgetK_refP {P : Nat → Prop} {h : Heap} {a : Nat} (cl : Closed P h) (ha : P a) {k : Kind}
    {i : Int} {w : Val} (hg : L.getK h a k i = .ok w) : w.refP P := by
  unfold L.getK at hg
  split at hg
  · cases hg
  · next v hv =>
    split at hg
    · cases hg
      obtain ⟨x, hx, rfl⟩ := lget_mem hv
      exact (refP_getVal P h x).2 ((cl a ha).1 x hx)
    · cases hg

theorem lookup_mem {α : Type} {kvs : List (Str × α)} {k : Str} {v : α} (hl : lookup kvs k = some v) :
    ∃ kv ∈ kvs, kv.2 = v := by
  induction kvs with
  | nil => simp [lookup] at hl
  | cons kv kvs ih =>
    obtain ⟨k', v'⟩ := kv
    unfold lookup at hl
    split at hl
    · cases hl; exact ⟨_, List.mem_cons_self, rfl⟩
    · obtain ⟨x, hx, hv⟩ := ih hl
      exact ⟨x, List.mem_cons_of_mem _ hx, hv⟩

theorem oget_refP {P : Nat → Prop} {h : Heap} {a : Nat} (cl : Closed P h) (ha : P a) {key : Str}
    {w : Val} (hg : O.get h a key = .ok w) : w.refP P := by
  unfold O.get at hg
  split at hg
  · cases hg
  · next v hv =>
    cases hg
    obtain ⟨kv, hkv, rfl⟩ := lookup_mem hv
    exact (refP_getVal P h kv.2).2 ((cl a ha).2 kv hkv)

theorem ogetK_refP {P : Nat → Prop} {h : Heap} {a : Nat} (cl : Closed P h) (ha : P a) {k : Kind}
    {key : Str} {w : Val} (hg : O.getK h a k key = .ok w) : w.refP P := by
  unfold O.getK at hg
  split at hg
  · cases hg
  · next v hv =>
    split at hg
    · cases hg; exact oget_refP cl ha hv
    · cases hg

/-! ### the intermediate step of `SetTF` -/

theorem padNil_good {P : Nat → Prop} {h : Heap} (cl : Closed P h) (a k : Nat) (ha : P a) :
    Good P h (TF.padNil h a k) ∧ (TF.padNil h a k).length = h.length := by
  unfold TF.padNil
  refine ⟨⟨Confined.of_ext (Ext.setItems h a _) ha, cl.setItems a _ (fun _ w hw => ?_)⟩, by simp⟩
  rcases List.mem_append.1 hw with hw | hw
  · exact (cl a ha).1 w hw
  · rw [(List.mem_replicate.1 hw).2]; trivial

/-- `TF.stepL` with the new cell / the reference to it / the wanted kind as parameters -/
def stepLG (h : Heap) (a : Nat) (index : Int) (mk : Cell) (mkv : Val) (kd : Kind) : Heap × Out Nat :=
  if index >= L.count h a then
    let h1 := TF.padNil (h ++ [mk]) a (index - L.count h a).toNat
    (h1.setItems a (h1.items a ++ [mkv]), .ok h.length)
  else if L.typeOf h a index == kd then
    match (h.items a)[index.toNat]? with
    | some (.obj r) => (h, .ok r.addr)
    | some (.list r) => (h, .ok r.addr)
    | _ => (h, .panic .runtime)
  else
    if index < 0 then (h ++ [mk], .panic .indexRange)
    else ((h ++ [mk]).setItems a ((h.items a).set index.toNat mkv), .ok h.length)

theorem stepL_eq (h : Heap) (a : Nat) (i : Int) (w : Bool) :
    TF.stepL h a i w = stepLG h a i (if w then .obj [] 0 else .list [] 0)
      (if w then .obj ⟨h.length, 0⟩ else .list ⟨h.length, 0⟩) (if w then .object else .list) := by
  cases w <;> rfl

theorem stepLG_good {P : Nat → Prop} {h : Heap} (cl : Closed P h) (up : UpFrom P h.length)
    (a : Nat) (ha : P a) (i : Int) (mk : Cell) (mkv : Val) (kd : Kind)
    (hmk : mk = .obj [] 0 ∨ mk = .list [] 0) (hval : mkv.refP P) :
    Good P h (stepLG h a i mk mkv kd).1 ∧ ∀ c, (stepLG h a i mk mkv kd).2 = .ok c → P c := by
  have hn : P h.length := up _ (Nat.le_refl _)
  have g0 : Good P h (h ++ [mk]) := by
    refine ⟨Confined.of_ext0 (Ext0.append h mk), ?_⟩
    rcases hmk with rfl | rfl
    · exact cl.append_obj [] 0 (by simp)
    · exact cl.append_list [] 0 (by simp)
  unfold stepLG
  by_cases h1 : i ≥ L.count h a
  · simp only [h1, ↓reduceIte]
    obtain ⟨g1, _⟩ := padNil_good g0.2 a (i - L.count h a).toNat ha
    refine ⟨g0.trans (g1.trans ⟨Confined.of_ext (Ext.setItems _ a _) ha,
      g1.2.setItems a _ (fun _ v hv => ?_)⟩), fun c hc => by cases hc; exact hn⟩
    rcases List.mem_append.1 hv with hv | hv
    · exact (g1.2 a ha).1 v hv
    · simp only [List.mem_singleton] at hv; rw [hv]; exact hval
  · simp only [h1, ↓reduceIte]
    by_cases h2 : (L.typeOf h a i == kd) = true
    · simp only [h2, ↓reduceIte]
      split
      · next r hr =>
        exact ⟨Good.refl cl, fun c hc => by
          cases hc; exact (cl a ha).1 _ (List.mem_of_getElem? hr)⟩
      · next r hr =>
        exact ⟨Good.refl cl, fun c hc => by
          cases hc; exact (cl a ha).1 _ (List.mem_of_getElem? hr)⟩
      · exact ⟨Good.refl cl, fun c hc => by cases hc⟩
    · simp only [h2, Bool.false_eq_true, ↓reduceIte]
      by_cases h3 : i < 0
      · simp only [h3, ↓reduceIte]
        exact ⟨g0, fun c hc => by cases hc⟩
      · simp only [h3, ↓reduceIte]
        refine ⟨g0.trans ⟨Confined.of_ext (Ext.setItems _ a _) ha,
          g0.2.setItems a _ (fun _ v hv => ?_)⟩, fun c hc => by cases hc; exact hn⟩
        rcases List.mem_or_eq_of_mem_set hv with hv | hv
        · exact (cl a ha).1 v hv
        · rw [hv]; exact hval

theorem stepL_good {P : Nat → Prop} {h : Heap} (cl : Closed P h) (up : UpFrom P h.length)
    (a : Nat) (ha : P a) (i : Int) (w : Bool) :
    Good P h (TF.stepL h a i w).1 ∧ ∀ c, (TF.stepL h a i w).2 = .ok c → P c := by
  rw [stepL_eq]
  exact stepLG_good cl up a ha i _ _ _ (by cases w <;> simp)
    (by cases w <;> exact up _ (Nat.le_refl _))

/-- `TF.stepO`, parametrised the same way -/
def stepOG (h : Heap) (a : Nat) (key : Str) (mk : Cell) (mkv : Val) (kd : Kind) : Heap × Nat :=
  if O.typeOf h a key == kd then
    match lookup (h.fields a) key with
    | some (.obj r) => (h, r.addr)
    | some (.list r) => (h, r.addr)
    | _ => (h, 0)
  else
    ((h ++ [mk]).setFields a (setKV (h.fields a) key mkv), h.length)

theorem stepO_eq (h : Heap) (a : Nat) (key : Str) (w : Bool) :
    TF.stepO h a key w = stepOG h a key (if w then .obj [] 0 else .list [] 0)
      (if w then .obj ⟨h.length, 0⟩ else .list ⟨h.length, 0⟩) (if w then .object else .list) := by
  cases w <;> rfl

theorem stepOG_good {P : Nat → Prop} {h : Heap} (cl : Closed P h) (up : UpFrom P h.length)
    (a : Nat) (ha : P a) (key : Str) (mk : Cell) (mkv : Val) (kd : Kind)
    (hmk : mk = .obj [] 0 ∨ mk = .list [] 0) (hval : mkv.refP P)
    (hkd : kd = .object ∨ kd = .list) :
    Good P h (stepOG h a key mk mkv kd).1 ∧ P (stepOG h a key mk mkv kd).2 := by
  have hn : P h.length := up _ (Nat.le_refl _)
  have g0 : Good P h (h ++ [mk]) := by
    refine ⟨Confined.of_ext0 (Ext0.append h mk), ?_⟩
    rcases hmk with rfl | rfl
    · exact cl.append_obj [] 0 (by simp)
    · exact cl.append_list [] 0 (by simp)
  unfold stepOG
  by_cases h1 : (O.typeOf h a key == kd) = true
  · simp only [h1, ↓reduceIte]
    split
    · next r hr =>
      obtain ⟨kv, hkv, he⟩ := lookup_mem hr
      have := (cl a ha).2 kv hkv
      rw [he] at this
      exact ⟨Good.refl cl, this⟩
    · next r hr =>
      obtain ⟨kv, hkv, he⟩ := lookup_mem hr
      have := (cl a ha).2 kv hkv
      rw [he] at this
      exact ⟨Good.refl cl, this⟩
    · next hno1 hno2 =>
      exfalso
      unfold O.typeOf at h1
      cases hl : lookup (h.fields a) key with
      | none => rw [hl] at h1; rcases hkd with rfl | rfl <;> simp at h1
      | some v =>
        rw [hl] at h1
        cases v with
        | obj r => exact hno1 r hl
        | list r => exact hno2 r hl
        | _ => rcases hkd with rfl | rfl <;> simp [Val.kind] at h1
  · simp only [h1, Bool.false_eq_true, ↓reduceIte]
    refine ⟨g0.trans ⟨Confined.of_ext (Ext.setFields _ a _) ha,
      g0.2.setFields a _ (fun _ kv hkv => ?_)⟩, hn⟩
    rcases mem_setKV hkv with hkv | hkv
    · rw [hkv]; exact hval
    · exact (cl a ha).2 kv hkv

theorem stepO_good {P : Nat → Prop} {h : Heap} (cl : Closed P h) (up : UpFrom P h.length)
    (a : Nat) (ha : P a) (key : Str) (w : Bool) :
    Good P h (TF.stepO h a key w).1 ∧ P (TF.stepO h a key w).2 := by
  rw [stepO_eq]
  exact stepOG_good cl up a ha key _ _ _ (by cases w <;> simp)
    (by cases w <;> exact up _ (Nat.le_refl _)) (by cases w <;> simp)

/-! ### `SetTF` -/

theorem Good.up {P : Nat → Prop} {h h' : Heap} (g : Good P h h') (up : UpFrom P h.length) :
    UpFrom P h'.length := up.mono g.1.len

theorem setTF_good (P : Nat → Prop) (g : GoVal) (hg : g.refP P) : ∀ n : Nat,
    (∀ (h : Heap) (a : Nat) (tf : Str), Closed P h → UpFrom P h.length → P a →
      Good P h (TF.setL n h a tf g).1) ∧
    (∀ (h : Heap) (a : Nat) (tf : Str), Closed P h → UpFrom P h.length → P a →
      Good P h (TF.setO n h a tf g).1) := by
  intro n
  induction n with
  | zero => exact ⟨fun h a tf cl _ _ => by simp only [TF.setL]; exact Good.refl cl,
      fun h a tf cl _ _ => by simp only [TF.setO]; exact Good.refl cl⟩
  | succ n ih =>
    constructor
    · intro h a tf cl up ha
      simp only [TF.setL]
      split
      · exact Good.refl cl
      · split
        · split
          · exact Good.refl cl
          · next i _ =>
            have s := stepL_good cl up a ha i true
            split
            · next h1 p hq => rw [hq] at s; exact s.1
            · next h1 c hq =>
              rw [hq] at s
              exact s.1.trans (ih.2 h1 c _ s.1.2 (s.1.up up) (s.2 c rfl))
        · split
          · exact Good.refl cl
          · next i _ =>
            have s := stepL_good cl up a ha i false
            split
            · next h1 p hq => rw [hq] at s; exact s.1
            · next h1 c hq =>
              rw [hq] at s
              exact s.1.trans (ih.1 h1 c _ s.1.2 (s.1.up up) (s.2 c rfl))
        · split
          · exact Good.refl cl
          · next i _ =>
            split
            · obtain ⟨g1, hl1⟩ := padNil_good cl a (i - L.count h a).toNat ha
              have g2 := Good.of_stepM (P := P) (.add a [g]) g1.2 (g1.up up) ha
                (by simp [MOp.refP, refPList, hg])
              simp only [stepM] at g2
              have g3 := g1.trans g2
              split <;> simp_all
            · have g2 := Good.of_stepM (P := P) (.replace a i g) cl up ha (by simpa [MOp.refP] using hg)
              simp only [stepM] at g2
              split <;> simp_all
    · intro h a tf cl up ha
      simp only [TF.setO]
      split
      · exact Good.refl cl
      · split
        · next key rest _ =>
          have s := stepO_good cl up a ha key true
          exact s.1.trans (ih.2 _ _ _ s.1.2 (s.1.up up) s.2)
        · next key rest _ =>
          have s := stepO_good cl up a ha key false
          exact s.1.trans (ih.1 _ _ _ s.1.2 (s.1.up up) s.2)
        · next key _ =>
          have g2 := Good.of_stepM (P := P) (.oset a [(some key, g)] false) cl up ha
            (by simp [MOp.refP, hg])
          simp only [stepM] at g2
          split <;> simp_all

/-! ### `UnsetTF` -/

theorem unsetTF_good (P : Nat → Prop) : ∀ n : Nat,
    (∀ (h : Heap) (a : Nat) (tf : Str), Closed P h → UpFrom P h.length → P a →
      Good P h (TF.unsetL n h a tf).1) ∧
    (∀ (h : Heap) (a : Nat) (tf : Str), Closed P h → UpFrom P h.length → P a →
      Good P h (TF.unsetO n h a tf).1) := by
  intro n
  induction n with
  | zero => exact ⟨fun h a tf cl _ _ => by simp only [TF.unsetL]; exact Good.refl cl,
      fun h a tf cl _ _ => by simp only [TF.unsetO]; exact Good.refl cl⟩
  | succ n ih =>
    constructor
    · intro h a tf cl up ha
      simp only [TF.unsetL]
      split
      · exact Good.refl cl
      · split
        · split
          · exact Good.refl cl
          · split
            · next r hq => exact ih.2 h r.addr _ cl up (lgetK_refP cl ha hq)
            · exact Good.refl cl
            · exact Good.refl cl
        · split
          · exact Good.refl cl
          · split
            · next r hq => exact ih.1 h r.addr _ cl up (lgetK_refP cl ha hq)
            · exact Good.refl cl
            · exact Good.refl cl
        · split
          · exact Good.refl cl
          · next i _ =>
            have g2 := Good.of_stepM (P := P) (.delete a [i]) cl up ha (by simp [MOp.refP])
            simp only [stepM] at g2
            split <;> simp_all
    · intro h a tf cl up ha
      simp only [TF.unsetO]
      split
      · exact Good.refl cl
      · split
        · split
          · next r hq => exact ih.2 h r.addr _ cl up (ogetK_refP cl ha hq)
          · exact Good.refl cl
          · exact Good.refl cl
        · split
          · next r hq => exact ih.1 h r.addr _ cl up (ogetK_refP cl ha hq)
          · exact Good.refl cl
          · exact Good.refl cl
        · next key _ =>
          have g2 := Good.of_stepM (P := P) (.ounset a [key]) cl up ha (by simp [MOp.refP])
          simp only [stepM] at g2
          exact g2

/-! ### the full mutator alphabet and programs acting inside a region -/

/-- a mutating call: a method mutator or one of the four tree-form mutators
(`n` is the recursion fuel of the model; `tf.length` always suffices) -/
inductive GOp
  | m (op : MOp)
  | setL (n a : Nat) (tf : Str) (g : GoVal)
  | setO (n a : Nat) (tf : Str) (g : GoVal)
  | unsetL (n a : Nat) (tf : Str)
  | unsetO (n a : Nat) (tf : Str)

/-- the receiver -/
def GOp.target : GOp → Nat
  | .m op => op.target
  | .setL _ a _ _ | .setO _ a _ _ | .unsetL _ a _ | .unsetO _ a _ => a

/-- the container references among the arguments (at any depth) are all in `P` -/
def GOp.refP (P : Nat → Prop) : GOp → Prop
  | .m op => op.refP P
  | .setL _ _ _ g | .setO _ _ _ g => g.refP P
  | _ => True

/-- the heap after the call (at the panic point if it panics) -/
def stepG (h : Heap) : GOp → Heap
  | .m op => stepM h op
  | .setL n a tf g => (TF.setL n h a tf g).1
  | .setO n a tf g => (TF.setO n h a tf g).1
  | .unsetL n a tf => (TF.unsetL n h a tf).1
  | .unsetO n a tf => (TF.unsetO n h a tf).1

def runG (h : Heap) : List GOp → Heap
  | [] => h
  | op :: ops => runG (stepG h op) ops

/-- any mutating call whose receiver is in the closed region `P` and whose arguments reference only
`P` changes only cells of `P` and keeps `P` closed -/
theorem stepG_good {P : Nat → Prop} {h : Heap} (op : GOp) (cl : Closed P h) (up : UpFrom P h.length)
    (ht : P op.target) (hop : op.refP P) : Good P h (stepG h op) := by
  cases op with
  | m op => exact Good.of_stepM op cl up ht hop
  | setL n a tf g => exact (setTF_good P g hop n).1 h a tf cl up ht
  | setO n a tf g => exact (setTF_good P g hop n).2 h a tf cl up ht
  | unsetL n a tf => exact (unsetTF_good P n).1 h a tf cl up ht
  | unsetO n a tf => exact (unsetTF_good P n).2 h a tf cl up ht

/-- every call's receiver is reachable from `root` in the heap the call is executed in, and its
arguments reference only containers in `P` -/
def ProgInside (P : Nat → Prop) (root : Val) : Heap → List GOp → Prop
  | _, [] => True
  | h, op :: ops =>
    (∃ n, op.target ∈ reach n h root) ∧ op.refP P ∧ ProgInside P root (stepG h op) ops

/-- such a program changes only cells of `P` (and appends cells), and `P` stays closed -/
theorem runG_inside (P : Nat → Prop) (root : Val) (hroot : root.refP P) :
    ∀ (ops : List GOp) (h : Heap), Closed P h → UpFrom P h.length → ProgInside P root h ops →
      Good P h (runG h ops) := by
  intro ops
  induction ops with
  | nil => intro h cl _ _; exact Good.refl cl
  | cons op ops ih =>
    intro h cl up hp
    obtain ⟨⟨n, hn⟩, harg, hrest⟩ := hp
    have g1 := stepG_good op cl up (reach_closed cl n root hroot _ hn) harg
    exact g1.trans (ih (stepG h op) g1.2 (g1.up up) hrest)

end Rf
end Anytype
