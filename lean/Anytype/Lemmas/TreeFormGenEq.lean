/-
The definitions that `vextract` (tfgen.go) translates from the Go source of the eight tree-form
methods, the seven `serialize()` methods and `FormatString` (`Anytype/Generated/TreeFormGen.lean`,
regenerated on every run) are equal to the hand-written model (`Model/TreeForm.lean`,
`Model/Serialize.lean`, `Model/Indent.lean`).

The proofs of the tree-form methods are one generic script: unfold both sides one step, rewrite
the recursive calls with the induction hypothesis and the primitives the Go code calls with their
normal forms (lemmas about the MODEL only, first half of this file), then split the tests of
both sides in lock step (`gen_case`); what remains are the cases the Go type system excludes
(`gen_absurd`).  Nothing in the scripts mentions the shape of the generated code except the
names of the generated definitions.
-/
import Anytype.Generated.TreeFormGen
import Anytype.Lemmas.Heap
import Mathlib.Tactic.SplitIfs
set_option linter.unusedSimpArgs false
set_option linter.unusedTactic false

namespace Anytype

open Generated

namespace TFGen

/-! ### facts about the model's getters (used to refute the cases the Go type system excludes) -/

theorem getVal_kind (h : Heap) (v : Val) : (h.getVal v).kind = v.kind := by cases v <;> rfl

theorem kind_object_iff (v : Val) : v.kind = .object ↔ ∃ r, v = .obj r := by cases v <;> simp [Val.kind]
theorem kind_list_iff (v : Val) : v.kind = .list ↔ ∃ r, v = .list r := by cases v <;> simp [Val.kind]

theorem L_getK_ok_iff (h : Heap) (a : Nat) (k : Kind) (i : Int) (v : Val) :
    (L.getK h a k i = .ok v) ↔ (L.get h a i = .ok v ∧ v.kind = k) := by
  unfold L.getK
  split
  · simp_all
  · split <;> simp_all
    · rintro rfl; assumption
    · rintro rfl; assumption

theorem O_getK_ok_iff (h : Heap) (a : Nat) (k : Kind) (key : Str) (v : Val) :
    (O.getK h a k key = .ok v) ↔ (O.get h a key = .ok v ∧ v.kind = k) := by
  unfold O.getK
  split
  · simp_all
  · split <;> simp_all
    · rintro rfl; assumption
    · rintro rfl; assumption

theorem L_get_of_typeOf {h : Heap} {a : Nat} {i : Int} {k : Kind} (ht : L.typeOf h a i = k)
    (hk : k ≠ .undefined) : ∃ v, (h.items a)[i.toNat]? = some v ∧ v.kind = k ∧ L.get h a i = .ok (h.getVal v) := by
  unfold L.typeOf at ht
  unfold L.get
  split at ht
  · split at ht
    · next v hv =>
      refine ⟨v, hv, ht, ?_⟩
      have : ¬ (L.count h a ≤ i ∨ i < 0) := by simp_all
      simp [this]
    · exact absurd ht.symm hk
  · exact absurd ht.symm hk

theorem O_get_of_typeOf {h : Heap} {a : Nat} {key : Str} {k : Kind} (ht : O.typeOf h a key = k)
    (hk : k ≠ .undefined) : ∃ v, lookup (h.fields a) key = some v ∧ v.kind = k ∧ O.get h a key = .ok (h.getVal v) := by
  unfold O.typeOf at ht
  unfold O.get
  split at ht
  · exact absurd ht.symm hk
  · next v hv => exact ⟨v, hv, ht, by simp⟩

theorem L_getK_panic_false {h : Heap} {a : Nat} {i : Int} {k : Kind} {p : PanicKind}
    (ht : L.typeOf h a i = k) (hk : k ≠ .undefined) : (L.getK h a k i = .panic p) = False := by
  obtain ⟨v, _, hv, hg⟩ := L_get_of_typeOf ht hk
  simp [L.getK, hg, getVal_kind, hv]

theorem O_getK_panic_false {h : Heap} {a : Nat} {key : Str} {k : Kind} {p : PanicKind}
    (ht : O.typeOf h a key = k) (hk : k ≠ .undefined) : (O.getK h a k key = .panic p) = False := by
  obtain ⟨v, _, hv, hg⟩ := O_get_of_typeOf ht hk
  simp [O.getK, hg, getVal_kind, hv]

/-! ### facts about `TF.indexOf` (the character at a position found by `strings.Index`, `strings.IndexAny`) -/

theorem indexOf_ge (c : Char) (s : Str) : -1 ≤ TF.indexOf c s := by
  induction s with
  | nil => simp [TF.indexOf]
  | cons x xs ih => simp only [TF.indexOf]; split_ifs <;> omega

theorem indexOf_get (c : Char) (s : Str) (h : 0 ≤ TF.indexOf c s) : s[(TF.indexOf c s).toNat]? = some c := by
  induction s with
  | nil => simp [TF.indexOf] at h
  | cons x xs ih =>
    simp only [TF.indexOf] at h ⊢
    split
    · simp_all
    · split
      · simp_all
      · have h0 : 0 ≤ TF.indexOf c xs := by omega
        rw [show (TF.indexOf c xs + 1).toNat = (TF.indexOf c xs).toNat + 1 by omega]
        simpa using ih h0

theorem indexOf_get_pos (c : Char) (s : Str) (h : 0 < TF.indexOf c s) : s[(TF.indexOf c s).toNat]? = some c :=
  indexOf_get c s (by omega)

theorem indexOf_ne {c₁ c₂ : Char} (hc : c₁ ≠ c₂) (s : Str) (h : 0 ≤ TF.indexOf c₁ s) :
    TF.indexOf c₁ s ≠ TF.indexOf c₂ s := by
  intro he
  have h1 := indexOf_get c₁ s h
  have h2 := indexOf_get c₂ s (he ▸ h)
  rw [he, h2] at h1
  exact hc (Option.some.inj h1).symm

/-- `strings.IndexAny(s, "c₁c₂")` as the translator writes it, in the terms in which the model splits a
tree form: the first separator is `c₁` at a positive position, or `c₂` at a positive position, or
there is none at a positive position -/
theorem indexAny2_eq {c₁ c₂ : Char} (hc : (c₁ == c₂) = false) (s : Str) :
    (if TF.indexOf c₁ s < 0 then TF.indexOf c₂ s else if TF.indexOf c₂ s < 0 then TF.indexOf c₁ s
      else min (TF.indexOf c₁ s) (TF.indexOf c₂ s)) =
    if TF.indexOf c₁ s > 0 && (TF.indexOf c₂ s < 0 || TF.indexOf c₁ s < TF.indexOf c₂ s) then TF.indexOf c₁ s
    else if TF.indexOf c₂ s > 0 && (TF.indexOf c₁ s < 0 || TF.indexOf c₂ s < TF.indexOf c₁ s) then TF.indexOf c₂ s
    else if TF.indexOf c₁ s < 0 && TF.indexOf c₂ s < 0 then -1 else 0 := by
  have g1 := indexOf_ge c₁ s
  have g2 := indexOf_ge c₂ s
  have ne : 0 ≤ TF.indexOf c₁ s → TF.indexOf c₁ s ≠ TF.indexOf c₂ s := indexOf_ne (by simpa using hc) s
  simp only [Int.min_def, Bool.and_eq_true, Bool.or_eq_true, decide_eq_true_eq]
  split_ifs <;> omega


/-! ### facts about the model's mutators, allocation and `stepL` / `stepO` -/

theorem O_new_empty (h : Heap) : O.new h [] false = (h ++ [.obj [] 0], .ok ⟨h.length, 0⟩) := by
  simp [O.new, O.set, O.setLoop]
theorem L_new_empty (h : Heap) : L.new h [] = (h ++ [.list [] 0], .ok ⟨h.length, 0⟩) := by
  simp [L.new, addEach]

theorem items_append_obj (h : Heap) (a : Nat) : (h ++ [Cell.obj [] 0]).items a = h.items a := by
  rcases Nat.lt_trichotomy a h.length with hlt | rfl | hgt
  · exact Heap.items_append_old h _ hlt
  · simp [Heap.items]
  · have h1 : (h ++ [Cell.obj [] 0])[a]? = none := by simp; omega
    have h2 : h[a]? = none := by simp; omega
    simp [Heap.items, h1, h2]
theorem items_append_list (h : Heap) (a : Nat) : (h ++ [Cell.list [] 0]).items a = h.items a := by
  rcases Nat.lt_trichotomy a h.length with hlt | rfl | hgt
  · exact Heap.items_append_old h _ hlt
  · simp [Heap.items]
  · have h1 : (h ++ [Cell.list [] 0])[a]? = none := by simp; omega
    have h2 : h[a]? = none := by simp; omega
    simp [Heap.items, h1, h2]
theorem fields_append_obj (h : Heap) (a : Nat) : (h ++ [Cell.obj [] 0]).fields a = h.fields a := by
  rcases Nat.lt_trichotomy a h.length with hlt | rfl | hgt
  · exact Heap.fields_append_old h _ hlt
  · simp [Heap.fields]
  · have h1 : (h ++ [Cell.obj [] 0])[a]? = none := by simp; omega
    have h2 : h[a]? = none := by simp; omega
    simp [Heap.fields, h1, h2]
theorem fields_append_list (h : Heap) (a : Nat) : (h ++ [Cell.list [] 0]).fields a = h.fields a := by
  rcases Nat.lt_trichotomy a h.length with hlt | rfl | hgt
  · exact Heap.fields_append_old h _ hlt
  · simp [Heap.fields]
  · have h1 : (h ++ [Cell.list [] 0])[a]? = none := by simp; omega
    have h2 : h[a]? = none := by simp; omega
    simp [Heap.fields, h1, h2]

theorem L_add_nil (h : Heap) (a : Nat) :
    L.add h a [.nil] = (h.setItems a (h.items a ++ [.nil]), .ok ((h.setItems a (h.items a ++ [.nil])).egoRef a)) := by
  simp [L.add, addEach, parseVal]
theorem L_add_obj (h : Heap) (a : Nat) (r : Ref) :
    L.add h a [.obj r] = (h.setItems a (h.items a ++ [.obj r]), .ok ((h.setItems a (h.items a ++ [.obj r])).egoRef a)) := by
  simp [L.add, addEach, parseVal]
theorem L_add_list (h : Heap) (a : Nat) (r : Ref) :
    L.add h a [.list r] = (h.setItems a (h.items a ++ [.list r]), .ok ((h.setItems a (h.items a ++ [.list r])).egoRef a)) := by
  simp [L.add, addEach, parseVal]

theorem padNil_zero (h : Heap) (a : Nat) : TF.padNil h a 0 = h := by simp [TF.padNil]
theorem padNil_succ (h : Heap) (a k : Nat) :
    TF.padNil (h.setItems a (h.items a ++ [.nil])) a k = TF.padNil h a (k + 1) := by
  unfold TF.padNil
  cases hl : h.isList a
  · simp [Heap.setItems_of_not_isList _ hl, Heap.items_of_not_isList hl]
  · simp [Heap.items_setItems_same _ hl, List.replicate_succ]

/-- a generated padding loop is the model's `padNil` -/
local macro "pad_loop" f:ident : tactic =>
  `(tactic| (intro a n; induction n with
    | zero => intro h; simp only [$f:ident, padNil_zero]
    | succ k ih => intro h; simp only [$f:ident, L_add_nil, ih, padNil_succ]))

theorem setLGen_loop1_eq : ∀ (a n : Nat) (h : Heap), setLGen_loop1 a n h = (TF.padNil h a n, .ok ()) := by
  pad_loop setLGen_loop1
theorem setLGen_loop2_eq : ∀ (a n : Nat) (h : Heap), setLGen_loop2 a n h = (TF.padNil h a n, .ok ()) := by
  pad_loop setLGen_loop2
theorem setLGen_loop3_eq : ∀ (a n : Nat) (h : Heap), setLGen_loop3 a n h = (TF.padNil h a n, .ok ()) := by
  pad_loop setLGen_loop3

theorem L_getK_of_typeOf_obj {h : Heap} {a : Nat} {i : Int} (ht : L.typeOf h a i = .object) :
    L.getK h a .object i = match (h.items a)[i.toNat]? with
      | some (.obj r) => .ok (.obj ⟨r.addr, h.ego r.addr⟩)
      | _ => .panic .runtime := by
  obtain ⟨v, hv, hk, hg⟩ := L_get_of_typeOf ht (by decide)
  obtain ⟨r, rfl⟩ := (kind_object_iff v).1 hk
  simp [L.getK, hg, hv, Heap.getVal, Val.kind]
theorem L_getK_of_typeOf_list {h : Heap} {a : Nat} {i : Int} (ht : L.typeOf h a i = .list) :
    L.getK h a .list i = match (h.items a)[i.toNat]? with
      | some (.list r) => .ok (.list ⟨r.addr, h.ego r.addr⟩)
      | _ => .panic .runtime := by
  obtain ⟨v, hv, hk, hg⟩ := L_get_of_typeOf ht (by decide)
  obtain ⟨r, rfl⟩ := (kind_list_iff v).1 hk
  simp [L.getK, hg, hv, Heap.getVal, Val.kind]
theorem O_getK_of_typeOf_obj {h : Heap} {a : Nat} {key : Str} (ht : O.typeOf h a key = .object) :
    O.getK h a .object key = match lookup (h.fields a) key with
      | some (.obj r) => .ok (.obj ⟨r.addr, h.ego r.addr⟩)
      | _ => .panic .runtime := by
  obtain ⟨v, hv, hk, hg⟩ := O_get_of_typeOf ht (by decide)
  obtain ⟨r, rfl⟩ := (kind_object_iff v).1 hk
  simp [O.getK, hg, hv, Heap.getVal, Val.kind]
theorem O_getK_of_typeOf_list {h : Heap} {a : Nat} {key : Str} (ht : O.typeOf h a key = .list) :
    O.getK h a .list key = match lookup (h.fields a) key with
      | some (.list r) => .ok (.list ⟨r.addr, h.ego r.addr⟩)
      | _ => .panic .runtime := by
  obtain ⟨v, hv, hk, hg⟩ := O_get_of_typeOf ht (by decide)
  obtain ⟨r, rfl⟩ := (kind_list_iff v).1 hk
  simp [O.getK, hg, hv, Heap.getVal, Val.kind]

theorem count_append_obj (h : Heap) (a : Nat) : L.count (h ++ [Cell.obj [] 0]) a = L.count h a := by
  simp [L.count, items_append_obj]
theorem count_append_list (h : Heap) (a : Nat) : L.count (h ++ [Cell.list [] 0]) a = L.count h a := by
  simp [L.count, items_append_list]

theorem L_replace_obj (h : Heap) (a : Nat) (i : Int) (r : Ref) :
    L.replace h a i (.obj r) = if i < 0 || i >= L.count h a then (h, .panic .indexRange)
      else (h.setItems a ((h.items a).set i.toNat (.obj r)), .ok (h.egoRef a)) := by
  simp [L.replace, parseVal]
theorem L_replace_list (h : Heap) (a : Nat) (i : Int) (r : Ref) :
    L.replace h a i (.list r) = if i < 0 || i >= L.count h a then (h, .panic .indexRange)
      else (h.setItems a ((h.items a).set i.toNat (.list r)), .ok (h.egoRef a)) := by
  simp [L.replace, parseVal]

/-- `stepL` for an object: the reused container is what `GetObject` returns -/
theorem stepL_obj (h : Heap) (a : Nat) (i : Int) : TF.stepL h a i true =
    if i >= L.count h a then
      ((TF.padNil (h ++ [Cell.obj [] 0]) a (i - L.count h a).toNat).setItems a
        ((TF.padNil (h ++ [Cell.obj [] 0]) a (i - L.count h a).toNat).items a ++ [Val.obj ⟨h.length, 0⟩]), .ok h.length)
    else if L.typeOf h a i == .object then
      match L.getK h a .object i with
      | .ok (.obj r) => (h, .ok r.addr)
      | _ => (h, .panic .runtime)
    else if i < 0 then (h ++ [Cell.obj [] 0], .panic .indexRange)
    else ((h ++ [Cell.obj [] 0]).setItems a ((h.items a).set i.toNat (Val.obj ⟨h.length, 0⟩)), .ok h.length) := by
  unfold TF.stepL
  simp only [↓reduceIte]
  split
  · rfl
  · split
    · next ht =>
      rw [L_getK_of_typeOf_obj (by simpa using ht)]
      split <;> (simp_all [L.typeOf, Val.kind] <;> split at * <;> simp_all)
    · rfl

theorem stepL_list (h : Heap) (a : Nat) (i : Int) : TF.stepL h a i false =
    if i >= L.count h a then
      ((TF.padNil (h ++ [Cell.list [] 0]) a (i - L.count h a).toNat).setItems a
        ((TF.padNil (h ++ [Cell.list [] 0]) a (i - L.count h a).toNat).items a ++ [Val.list ⟨h.length, 0⟩]), .ok h.length)
    else if L.typeOf h a i == .list then
      match L.getK h a .list i with
      | .ok (.list r) => (h, .ok r.addr)
      | _ => (h, .panic .runtime)
    else if i < 0 then (h ++ [Cell.list [] 0], .panic .indexRange)
    else ((h ++ [Cell.list [] 0]).setItems a ((h.items a).set i.toNat (Val.list ⟨h.length, 0⟩)), .ok h.length) := by
  unfold TF.stepL
  simp only [Bool.false_eq_true, ↓reduceIte]
  split
  · rfl
  · split
    · next ht =>
      rw [L_getK_of_typeOf_list (by simpa using ht)]
      split <;> (simp_all [L.typeOf, Val.kind] <;> split at * <;> simp_all)
    · rfl

theorem stepO_obj (h : Heap) (a : Nat) (key : Str) : TF.stepO h a key true =
    if O.typeOf h a key == .object then
      match O.getK h a .object key with
      | .ok (.obj r) => (h, r.addr)
      | _ => (h, 0)
    else ((h ++ [Cell.obj [] 0]).setFields a (setKV (h.fields a) key (Val.obj ⟨h.length, 0⟩)), h.length) := by
  unfold TF.stepO
  simp only [↓reduceIte]
  split
  · next ht =>
    rw [O_getK_of_typeOf_obj (by simpa using ht)]
    split <;> simp_all [O.typeOf, Val.kind]
  · rfl

theorem stepO_list (h : Heap) (a : Nat) (key : Str) : TF.stepO h a key false =
    if O.typeOf h a key == .list then
      match O.getK h a .list key with
      | .ok (.list r) => (h, r.addr)
      | _ => (h, 0)
    else ((h ++ [Cell.list [] 0]).setFields a (setKV (h.fields a) key (Val.list ⟨h.length, 0⟩)), h.length) := by
  unfold TF.stepO
  simp only [Bool.false_eq_true, ↓reduceIte]
  split
  · next ht =>
    rw [O_getK_of_typeOf_list (by simpa using ht)]
    split <;> simp_all [O.typeOf, Val.kind]
  · rfl

end TFGen
open TFGen

/- the character at a found position, once the splitting has decided which position it is -/
attribute [local simp] indexOf_get indexOf_get_pos

/-- closes one case: syntactic agreement, or exhaustive splitting -/
local macro "gen_case" : tactic =>
  `(tactic| first
    | rfl
    | (repeat' (first | rfl | (split_ifs <;> try simp_all) | (split <;> try simp_all))))

/-- the cases a typed getter cannot produce once `TypeOf` has been tested, and the cases in which the two
sides took different arms of the same integer test written in two ways (`i >= n` / `i < n`) -/
local macro "gen_absurd" : tactic =>
  `(tactic| all_goals (first
      | omega
      | (simp_all [L_getK_ok_iff, O_getK_ok_iff, L_getK_panic_false, O_getK_panic_false,
          kind_object_iff, kind_list_iff]; done)))

theorem getGen_eq_aux (fuel : Nat) :
    (∀ h a tf, getLGen fuel h a tf = TF.getL fuel h a tf) ∧
    (∀ h a tf, getOGen fuel h a tf = TF.getO fuel h a tf) := by
  induction fuel with
  | zero => constructor <;> intros <;> simp only [getLGen, TF.getL, getOGen, TF.getO]
  | succ n ih =>
    obtain ⟨ihL, ihO⟩ := ih
    constructor
    · intro h a tf
      simp only [getLGen, TF.getL, TF.split, indexAny2_eq, Char.reduceBEq, TF.parseIdx, ihL, ihO]
      gen_case
      gen_absurd
    · intro h a tf
      simp only [getOGen, TF.getO, TF.split, indexAny2_eq, Char.reduceBEq, TF.parseIdx, ihL, ihO]
      gen_case
      gen_absurd

theorem typeGen_eq_aux (fuel : Nat) :
    (∀ h a tf, typeLGen fuel h a tf = .ok (TF.typeL fuel h a tf)) ∧
    (∀ h a tf, typeOGen fuel h a tf = .ok (TF.typeO fuel h a tf)) := by
  induction fuel with
  | zero => constructor <;> intros <;> simp only [typeLGen, TF.typeL, typeOGen, TF.typeO]
  | succ n ih =>
    obtain ⟨ihL, ihO⟩ := ih
    constructor
    · intro h a tf
      simp only [typeLGen, TF.typeL, TF.split, indexAny2_eq, Char.reduceBEq, TF.parseIdx, ihL, ihO]
      gen_case
      gen_absurd
    · intro h a tf
      simp only [typeOGen, TF.typeO, TF.split, indexAny2_eq, Char.reduceBEq, ihL, ihO]
      gen_case
      gen_absurd

theorem unsetGen_eq_aux (fuel : Nat) :
    (∀ h a tf, unsetLGen fuel h a tf = TF.unsetL fuel h a tf) ∧
    (∀ h a tf, unsetOGen fuel h a tf = TF.unsetO fuel h a tf) := by
  induction fuel with
  | zero => constructor <;> intros <;> simp only [unsetLGen, TF.unsetL, unsetOGen, TF.unsetO]
  | succ n ih =>
    obtain ⟨ihL, ihO⟩ := ih
    constructor
    · intro h a tf
      simp only [unsetLGen, TF.unsetL, TF.split, indexAny2_eq, Char.reduceBEq, TF.parseIdx, ihL, ihO]
      gen_case
      gen_absurd
    · intro h a tf
      simp only [unsetOGen, TF.unsetO, TF.split, indexAny2_eq, Char.reduceBEq, O.unset, ihL, ihO]
      gen_case
      gen_absurd

theorem setGen_eq_aux (fuel : Nat) :
    (∀ h a tf g, setLGen fuel h a tf g = TF.setL fuel h a tf g) ∧
    (∀ h a tf g, setOGen fuel h a tf g = TF.setO fuel h a tf g) := by
  induction fuel with
  | zero => constructor <;> intros <;> simp only [setLGen, TF.setL, setOGen, TF.setO]
  | succ n ih =>
    obtain ⟨ihL, ihO⟩ := ih
    constructor
    · intro h a tf g
      simp only [setLGen, TF.setL, TF.split, indexAny2_eq, Char.reduceBEq, TF.parseIdx, stepL_obj, stepL_list, ihL, ihO, setLGen_loop1_eq, setLGen_loop2_eq,
        setLGen_loop3_eq, O_new_empty, L_new_empty, L_add_obj, L_add_list, L_replace_obj, L_replace_list,
        count_append_obj, count_append_list, items_append_obj, items_append_list]
      gen_case
      gen_absurd
    · intro h a tf g
      simp only [setOGen, TF.setO, TF.split, indexAny2_eq, Char.reduceBEq, stepO_obj, stepO_list, ihL, ihO, O_new_empty, L_new_empty, O.set, O.setLoop, parseVal,
        fields_append_obj, fields_append_list]
      gen_case
      gen_absurd


/-! ### the pointwise statements -/

theorem getLGen_eq (fuel : Nat) (h : Heap) (a : Nat) (tf : Str) :
    getLGen fuel h a tf = TF.getL fuel h a tf := (getGen_eq_aux fuel).1 h a tf
theorem getOGen_eq (fuel : Nat) (h : Heap) (a : Nat) (tf : Str) :
    getOGen fuel h a tf = TF.getO fuel h a tf := (getGen_eq_aux fuel).2 h a tf
/-- the translated `TypeOfTF` never panics and returns the model's value -/
theorem typeLGen_eq (fuel : Nat) (h : Heap) (a : Nat) (tf : Str) :
    typeLGen fuel h a tf = .ok (TF.typeL fuel h a tf) := (typeGen_eq_aux fuel).1 h a tf
theorem typeOGen_eq (fuel : Nat) (h : Heap) (a : Nat) (tf : Str) :
    typeOGen fuel h a tf = .ok (TF.typeO fuel h a tf) := (typeGen_eq_aux fuel).2 h a tf
theorem setLGen_eq (fuel : Nat) (h : Heap) (a : Nat) (tf : Str) (g : GoVal) :
    setLGen fuel h a tf g = TF.setL fuel h a tf g := (setGen_eq_aux fuel).1 h a tf g
theorem setOGen_eq (fuel : Nat) (h : Heap) (a : Nat) (tf : Str) (g : GoVal) :
    setOGen fuel h a tf g = TF.setO fuel h a tf g := (setGen_eq_aux fuel).2 h a tf g
theorem unsetLGen_eq (fuel : Nat) (h : Heap) (a : Nat) (tf : Str) :
    unsetLGen fuel h a tf = TF.unsetL fuel h a tf := (unsetGen_eq_aux fuel).1 h a tf
theorem unsetOGen_eq (fuel : Nat) (h : Heap) (a : Nat) (tf : Str) :
    unsetOGen fuel h a tf = TF.unsetO fuel h a tf := (unsetGen_eq_aux fuel).2 h a tf

/-! ### serialize() and FormatString -/

theorem serNilGen_eq : serNilGen = ser .null := by simp only [serNilGen, ser]
theorem serBoolGen_eq (b : Bool) : serBoolGen b = ser (.bool b) := by cases b <;> simp [serBoolGen, ser]
theorem serIntGen_eq (i : Int) : serIntGen i = ser (.int i) := by simp [serIntGen, ser]
theorem serStringGen_eq (s : Str) : serStringGen s = ser (.str s) := by simp [serStringGen, ser]

theorem serFGen_eq (f : F64) : serFGen f = serF f := by
  unfold serFGen serF goAbsGePow10 goAbsLeNegPow10 goAbsPos goEqTrunc
  cases f.isNaN <;> cases f.isInf <;> simp <;> (try (split_ifs <;> simp_all))

/-- the separator a loop writes between two elements: either behind every element but the last (the test
"there is a next element") or in front of every element but the first (the test "the index is positive") -/
def sepBefore (S : Str) (i : Nat) (isNil : Bool) : Str := if 0 < i ∧ isNil = false then S else []

/-- a generated loop over the elements satisfies the invariant stated in the goal: induction over the
elements, the recursive call by the induction hypothesis, the element by `hx` -/
local macro "ser_loop" f:ident g:ident : tactic =>
  `(tactic| (intro xs; induction xs with
    | nil => intro _ i acc; simp [$f:ident, $g:ident, sepBefore]
    | cons x rest ih =>
      intro hx i acc
      have hx0 := hx x (List.mem_cons_self ..)
      have ih' := ih (fun y hy => hx y (List.mem_cons_of_mem _ hy))
      simp only [$f:ident, ih', hx0]
      cases rest <;> cases i <;> simp [$g:ident, sepBefore]))

/-- the generated loop over the elements of a list is `serList`.  Two invariants are tried: nothing is
owed when an iteration starts (`S = []`), or the separator is (`S = [',']`). -/
theorem serGen_loop1_sound (xs : List JVal) (hx : ∀ x ∈ xs, serGen x = ser x) (acc : Str) :
    serGen_loop1 xs 0 acc = acc ++ serList xs := by
  have key : ∃ S : Str, ∀ (xs : List JVal), (∀ x ∈ xs, serGen x = ser x) → ∀ (i : Nat) (acc : Str),
      serGen_loop1 xs i acc = acc ++ sepBefore S i xs.isEmpty ++ serList xs := by
    first
    | refine ⟨[], ?_⟩; ser_loop serGen_loop1 serList
    | refine ⟨[','], ?_⟩; ser_loop serGen_loop1 serList
  obtain ⟨S, key⟩ := key
  simpa [sepBefore] using key xs hx 0 acc

theorem serGen_loop2_sound (kvs : List (Str × JVal)) (hx : ∀ p ∈ kvs, serGen p.2 = ser p.2) (acc : Str) :
    serGen_loop2 kvs 0 acc = acc ++ serFields kvs := by
  have key : ∃ S : Str, ∀ (kvs : List (Str × JVal)), (∀ p ∈ kvs, serGen p.2 = ser p.2) → ∀ (i : Nat) (acc : Str),
      serGen_loop2 kvs i acc = acc ++ sepBefore S i kvs.isEmpty ++ serFields kvs := by
    first
    | refine ⟨[], ?_⟩; ser_loop serGen_loop2 serFields
    | refine ⟨[','], ?_⟩; ser_loop serGen_loop2 serFields
  obtain ⟨S, key⟩ := key
  simpa [sepBefore] using key kvs hx 0 acc

mutual
theorem serGen_eq : ∀ v : JVal, serGen v = ser v
  | .null => by simp only [serGen, serNilGen_eq]
  | .bool b => by simp only [serGen, serBoolGen_eq]
  | .int i => by simp only [serGen, serIntGen_eq]
  | .float f => by simp only [serGen, serFGen_eq, ser]
  | .str s => by simp only [serGen, serStringGen_eq]
  | .list xs => by simp [serGen, ser, serGen_loop1_sound xs (serGen_all xs)]
  | .obj kvs => by simp [serGen, ser, serGen_loop2_sound kvs (serGen_allF kvs)]
theorem serGen_all : ∀ (xs : List JVal), ∀ x ∈ xs, serGen x = ser x
  | [], _, h => by cases h
  | y :: rest, x, h => by
    cases List.mem_cons.1 h with
    | inl e => rw [e]; exact serGen_eq y
    | inr h' => exact serGen_all rest x h'
theorem serGen_allF : ∀ (kvs : List (Str × JVal)), ∀ p ∈ kvs, serGen p.2 = ser p.2
  | [], _, h => by cases h
  | (k, y) :: rest, p, h => by
    cases List.mem_cons.1 h with
    | inl e => rw [e]; exact serGen_eq y
    | inr h' => exact serGen_allF rest p h'
end

theorem serGen_loop1_eq (xs : List JVal) (acc : Str) : serGen_loop1 xs 0 acc = acc ++ serList xs :=
  serGen_loop1_sound xs (fun x _ => serGen_eq x) acc
theorem serGen_loop2_eq (kvs : List (Str × JVal)) (acc : Str) : serGen_loop2 kvs 0 acc = acc ++ serFields kvs :=
  serGen_loop2_sound kvs (fun p _ => serGen_eq p.2) acc

theorem formatStringLGen_eq (indent : Int) (xs : List JVal) :
    formatStringLGen indent xs = formatString indent (.list xs) := by
  simp only [formatStringLGen, formatString, serGen_eq]
theorem formatStringOGen_eq (indent : Int) (kvs : List (Str × JVal)) :
    formatStringOGen indent kvs = formatString indent (.obj kvs) := by
  simp only [formatStringOGen, formatString, serGen_eq]

/-! ### unquoteJSON: the table of single-character escapes

Only the `switch` behind a backslash is translated.  The model's step on `\\ e …` is the dispatch
through the translated table; the `\u` case (hex4, surrogates) and the byte-indexed loop skeleton
are not translated, so for `.unicode` the statement is the identity. -/

theorem unquoteAux_backslash (fuel : Nat) (e : Char) (t acc : Str) :
    unquoteAux (fuel + 1) ('\\' :: e :: t) acc =
      (match unescGen e with
       | .write c => unquoteAux fuel t (acc ++ [c])
       | .fail => none
       | .unicode => unquoteAux (fuel + 1) ('\\' :: 'u' :: t) acc) := by
  unfold unescGen
  split_ifs <;> rw [unquoteAux] <;> simp_all <;> (rw [unquoteAux]; simp)

end Anytype

#print axioms Anytype.getLGen_eq
#print axioms Anytype.getOGen_eq
#print axioms Anytype.typeLGen_eq
#print axioms Anytype.typeOGen_eq
#print axioms Anytype.setLGen_eq
#print axioms Anytype.setOGen_eq
#print axioms Anytype.unsetLGen_eq
#print axioms Anytype.unsetOGen_eq
#print axioms Anytype.serNilGen_eq
#print axioms Anytype.serBoolGen_eq
#print axioms Anytype.serIntGen_eq
#print axioms Anytype.serFGen_eq
#print axioms Anytype.serStringGen_eq
#print axioms Anytype.serGen_eq
#print axioms Anytype.serGen_loop1_eq
#print axioms Anytype.serGen_loop2_eq
#print axioms Anytype.formatStringLGen_eq
#print axioms Anytype.formatStringOGen_eq
#print axioms Anytype.unquoteAux_backslash
