/-
GetTF / TypeOfTF: fuel independence, the one-step equations on rendered paths, and the
resolved / unresolved theorems behind C10.
-/
import Anytype.Lemmas.TreeForm
namespace Anytype
namespace TFP
open Heap

/-! ## `navStep` in terms of the cell contents -/

theorem navStep_key_obj (h : Heap) (r : Ref) (k : Str) :
    navStep h (.obj r) (.key k) = (lookup (h.fields r.addr) k).map h.getVal := by
  simp only [navStep, O.get]
  cases lookup (h.fields r.addr) k <;> rfl

theorem navStep_idx_list (h : Heap) (r : Ref) (n : Nat) :
    navStep h (.list r) (.idx n) = ((h.items r.addr)[n]?).map h.getVal := by
  simp only [navStep]
  by_cases hn : n < (h.items r.addr).length
  · rw [L.get_in h r.addr (n : Int) (by omega) (by simpa using hn)]
    simp [List.getElem?_eq_getElem hn]
  · rw [L.get_out h r.addr (n : Int) (by omega)]
    simp [List.getElem?_eq_none (Nat.le_of_not_lt hn)]

theorem val_kind_ne_undefined (w : Val) : w.kind ≠ .undefined := by cases w <;> simp [Val.kind]

theorem kind_object {w : Val} (h : w.kind = .object) : ∃ r, w = .obj r := by
  cases w <;> simp [Val.kind] at h; exact ⟨_, rfl⟩
theorem kind_list {w : Val} (h : w.kind = .list) : ∃ r, w = .list r := by
  cases w <;> simp [Val.kind] at h; exact ⟨_, rfl⟩

/-- a step can only be taken from a value of the kind the segment requires -/
theorem navStep_kind {h : Heap} {v w : Val} {s : Seg} (hn : navStep h v s = some w) : v.kind = s.kind := by
  cases s <;> cases v <;> simp [navStep] at hn <;> rfl

/-! ## `L.get` / `L.typeOf`, `O.get` / `O.typeOf` -/

theorem L_typeOf_of_get_ok {h : Heap} {a : Nat} {i : Int} {w : Val} (hg : L.get h a i = .ok w) :
    L.typeOf h a i = w.kind := by
  unfold L.get at hg
  split at hg
  · cases hg
  · next hc =>
    simp only [Bool.or_eq_true, decide_eq_true_eq, not_or, Int.not_le, Int.not_lt] at hc
    unfold L.typeOf
    rw [if_pos (by simp only [Bool.and_eq_true, decide_eq_true_eq]; omega)]
    cases hx : (h.items a)[i.toNat]? with
    | none => simp [hx] at hg
    | some x =>
      simp only [hx, Out.ok.injEq] at hg
      subst hg
      exact (getVal_kind h x).symm

theorem L_typeOf_of_get_panic {h : Heap} {a : Nat} {i : Int} {p : PanicKind} (hg : L.get h a i = .panic p) :
    L.typeOf h a i = .undefined := by
  unfold L.get at hg
  unfold L.typeOf
  split at hg
  · next hc =>
    simp only [Bool.or_eq_true, decide_eq_true_eq] at hc
    rw [if_neg (by simp only [Bool.and_eq_true, decide_eq_true_eq]; omega)]
  · cases hx : (h.items a)[i.toNat]? with
    | none => simp
    | some x => simp [hx] at hg

theorem O_of_get_ok {h : Heap} {a : Nat} {k : Str} {w : Val} (hg : O.get h a k = .ok w) :
    O.keyExists h a k = true ∧ O.typeOf h a k = w.kind := by
  unfold O.get at hg
  unfold O.keyExists O.typeOf
  cases hx : lookup (h.fields a) k with
  | none => simp [hx] at hg
  | some x =>
    simp only [hx, Out.ok.injEq] at hg
    subst hg
    exact ⟨rfl, (getVal_kind h x).symm⟩

theorem O_of_get_panic {h : Heap} {a : Nat} {k : Str} {p : PanicKind} (hg : O.get h a k = .panic p) :
    O.keyExists h a k = false ∧ O.typeOf h a k = .undefined := by
  unfold O.get at hg
  unfold O.keyExists O.typeOf
  cases hx : lookup (h.fields a) k with
  | none => exact ⟨rfl, rfl⟩
  | some x => simp [hx] at hg


/-! ## one step of GetTF / TypeOfTF on a rendered path -/

/-- the plain `Get` a segment stands for (a wrong receiver kind is the `badTF` panic) -/
def getStep (h : Heap) (v : Val) : Seg → Out Val
  | .key k => match v with | .obj r => O.get h r.addr k | _ => .panic .badTF
  | .idx n => match v with | .list r => L.get h r.addr (n : Int) | _ => .panic .badTF

theorem navStep_eq_getStep (h : Heap) (v : Val) (s : Seg) :
    navStep h v s = match getStep h v s with | .ok w => some w | .panic _ => none := by
  cases s <;> cases v <;> rfl

theorem getV_cons (n : Nat) (h : Heap) (v : Val) (s : Seg) (q : List Seg) (hs : s.Valid) :
    getV (n + 1) h v (render (s :: q)) =
      match q with
      | [] => getStep h v s
      | s' :: _ =>
        match getStep h v s with
        | .panic p => .panic p
        | .ok w => if w.kind = s'.kind then getV n h w (render q) else .panic .notKind := by
  cases v with
  | list r =>
    cases s with
    | key k =>
      have : TF.strip '#' (render (Seg.key k :: q)) = none := by
        rw [strip_render _ _ _ hs]; simp [Seg.sigil]
      cases q <;> simp [getV, TF.getL, this, getStep]
    | idx i =>
      have hst : TF.strip '#' (render (Seg.idx i :: q)) = some ((Seg.idx i).text ++ render q) := by
        rw [strip_render _ _ _ hs]; simp [Seg.sigil]
      have hsp := split_render (.idx i) q hs
      have hp : TF.parseIdx (Seg.idx i).text = some (i : Int) := parseIdx_toDigits i hs
      match q with
      | [] => simp only [getV, TF.getL, hst, hsp, hp, getStep]
      | .key k' :: q' =>
        simp only [getV, TF.getL, hst, hsp, hp, getStep, L.getK, Seg.kind]
        cases hg : L.get h r.addr (i : Int) with
        | panic p => rfl
        | ok w => cases w <;> simp [Val.kind]
      | .idx i' :: q' =>
        simp only [getV, TF.getL, hst, hsp, hp, getStep, L.getK, Seg.kind]
        cases hg : L.get h r.addr (i : Int) with
        | panic p => rfl
        | ok w => cases w <;> simp [Val.kind]
  | obj r =>
    cases s with
    | idx i =>
      have : TF.strip '.' (render (Seg.idx i :: q)) = none := by
        rw [strip_render _ _ _ hs]; simp [Seg.sigil]
      cases q <;> simp [getV, TF.getO, this, getStep]
    | key k =>
      have hst : TF.strip '.' (render (Seg.key k :: q)) = some ((Seg.key k).text ++ render q) := by
        rw [strip_render _ _ _ hs]; simp [Seg.sigil]
      have hsp := split_render (.key k) q hs
      simp only [Seg.text] at hst hsp
      match q with
      | [] => simp only [getV, TF.getO, hst, hsp, getStep]
      | .key k' :: q' =>
        simp only [getV, TF.getO, hst, hsp, getStep, O.getK, Seg.kind]
        cases hg : O.get h r.addr k with
        | panic p => rfl
        | ok w => cases w <;> simp [Val.kind]
      | .idx i' :: q' =>
        simp only [getV, TF.getO, hst, hsp, getStep, O.getK, Seg.kind]
        cases hg : O.get h r.addr k with
        | panic p => rfl
        | ok w => cases w <;> simp [Val.kind]
  | nil => cases s <;> cases q <;> simp [getV, getStep]
  | bool b => cases s <;> cases q <;> simp [getV, getStep]
  | int b => cases s <;> cases q <;> simp [getV, getStep]
  | float b => cases s <;> cases q <;> simp [getV, getStep]
  | str b => cases s <;> cases q <;> simp [getV, getStep]


theorem getV_cons_some (n : Nat) (h : Heap) (v w : Val) (s : Seg) (q : List Seg) (hs : s.Valid)
    (hn : navStep h v s = some w) :
    getV (n + 1) h v (render (s :: q)) =
      match q with
      | [] => .ok w
      | s' :: _ => if w.kind = s'.kind then getV n h w (render q) else .panic .notKind := by
  rw [getV_cons n h v s q hs]
  rw [navStep_eq_getStep] at hn
  cases hg : getStep h v s with
  | panic p => simp [hg] at hn
  | ok w' =>
    simp only [hg, Option.some.injEq] at hn
    subst hn
    cases q <;> rfl

theorem getV_cons_none (n : Nat) (h : Heap) (v : Val) (s : Seg) (q : List Seg) (hs : s.Valid)
    (hn : navStep h v s = none) : (getV (n + 1) h v (render (s :: q))).isPanic = true := by
  rw [getV_cons n h v s q hs]
  rw [navStep_eq_getStep] at hn
  cases hg : getStep h v s with
  | ok w => simp [hg] at hn
  | panic p => cases q <;> rfl

theorem typeV_cons (n : Nat) (h : Heap) (v : Val) (s : Seg) (q : List Seg) (hs : s.Valid) :
    typeV (n + 1) h v (render (s :: q)) =
      match navStep h v s with
      | none => .undefined
      | some w =>
        match q with
        | [] => w.kind
        | s' :: _ => if w.kind = s'.kind then typeV n h w (render q) else .undefined := by
  cases v with
  | list r =>
    cases s with
    | key k =>
      have : TF.strip '#' (render (Seg.key k :: q)) = none := by
        rw [strip_render _ _ _ hs]; simp [Seg.sigil]
      simp [typeV, TF.typeL, this, navStep]
    | idx i =>
      have hst : TF.strip '#' (render (Seg.idx i :: q)) = some ((Seg.idx i).text ++ render q) := by
        rw [strip_render _ _ _ hs]; simp [Seg.sigil]
      have hsp := split_render (.idx i) q hs
      have hp : TF.parseIdx (Seg.idx i).text = some (i : Int) := parseIdx_toDigits i hs
      cases hg : L.get h r.addr (i : Int) with
      | panic p =>
        have ht := L_typeOf_of_get_panic hg
        match q with
        | [] => simp [typeV, TF.typeL, hst, hsp, hp, navStep, hg, ht]
        | .key k' :: q' => simp [typeV, TF.typeL, hst, hsp, hp, navStep, hg, ht]
        | .idx i' :: q' => simp [typeV, TF.typeL, hst, hsp, hp, navStep, hg, ht]
      | ok w =>
        have ht := L_typeOf_of_get_ok hg
        match q with
        | [] => simp [typeV, TF.typeL, hst, hsp, hp, navStep, hg, ht]
        | .key k' :: q' =>
          simp only [typeV, TF.typeL, hst, hsp, hp, navStep, hg, ht, L.getK, Seg.kind]
          cases w <;> simp [Val.kind]
        | .idx i' :: q' =>
          simp only [typeV, TF.typeL, hst, hsp, hp, navStep, hg, ht, L.getK, Seg.kind]
          cases w <;> simp [Val.kind]
  | obj r =>
    cases s with
    | idx i =>
      have : TF.strip '.' (render (Seg.idx i :: q)) = none := by
        rw [strip_render _ _ _ hs]; simp [Seg.sigil]
      simp [typeV, TF.typeO, this, navStep]
    | key k =>
      have hst : TF.strip '.' (render (Seg.key k :: q)) = some ((Seg.key k).text ++ render q) := by
        rw [strip_render _ _ _ hs]; simp [Seg.sigil]
      have hsp := split_render (.key k) q hs
      simp only [Seg.text] at hst hsp
      cases hg : O.get h r.addr k with
      | panic p =>
        obtain ⟨he, ht⟩ := O_of_get_panic hg
        match q with
        | [] => simp [typeV, TF.typeO, hst, hsp, navStep, hg, he]
        | .key k' :: q' => simp [typeV, TF.typeO, hst, hsp, navStep, hg, ht, he]
        | .idx i' :: q' => simp [typeV, TF.typeO, hst, hsp, navStep, hg, ht, he]
      | ok w =>
        obtain ⟨he, ht⟩ := O_of_get_ok hg
        match q with
        | [] => simp [typeV, TF.typeO, hst, hsp, navStep, hg, ht, he]
        | .key k' :: q' =>
          simp only [typeV, TF.typeO, hst, hsp, navStep, hg, ht, he, O.getK, Seg.kind]
          cases w <;> simp [Val.kind]
        | .idx i' :: q' =>
          simp only [typeV, TF.typeO, hst, hsp, navStep, hg, ht, he, O.getK, Seg.kind]
          cases w <;> simp [Val.kind]
  | nil => cases s <;> simp [typeV, navStep]
  | bool b => cases s <;> simp [typeV, navStep]
  | int b => cases s <;> simp [typeV, navStep]
  | float b => cases s <;> simp [typeV, navStep]
  | str b => cases s <;> simp [typeV, navStep]


/-! ## resolved / unresolved paths, any sufficient fuel -/

theorem navigate_cons_some {h : Heap} {v r : Val} {s : Seg} {q : List Seg}
    (hn : navigate h v (s :: q) = some r) : ∃ w, navStep h v s = some w ∧ navigate h w q = some r := by
  simp only [navigate] at hn
  cases hw : navStep h v s with
  | none => simp [hw] at hn
  | some w => simp only [hw] at hn; exact ⟨w, rfl, hn⟩

theorem navigate_cons_of_step {h : Heap} {v w : Val} {s : Seg} (q : List Seg)
    (hn : navStep h v s = some w) : navigate h v (s :: q) = navigate h w q := by
  simp only [navigate, hn]

theorem navigate_cons_none_of_step {h : Heap} {v : Val} {s : Seg} (q : List Seg)
    (hn : navStep h v s = none) : navigate h v (s :: q) = none := by
  simp only [navigate, hn]

theorem navigate_kind {h : Heap} {v r : Val} {s : Seg} {q : List Seg}
    (hn : navigate h v (s :: q) = some r) : v.kind = s.kind := by
  obtain ⟨w, hw, _⟩ := navigate_cons_some hn
  exact navStep_kind hw

theorem resolved_V (h : Heap) : ∀ (p : List Seg), p ≠ [] → ValidPath p → ∀ (fuel : Nat) (v r : Val),
    (render p).length < fuel → navigate h v p = some r →
    getV fuel h v (render p) = .ok r ∧ typeV fuel h v (render p) = r.kind := by
  intro p
  induction p with
  | nil => intro hne; exact absurd rfl hne
  | cons s q ih =>
    intro _ hv fuel v r hf hn
    obtain ⟨w, hw, hq⟩ := navigate_cons_some hn
    cases fuel with
    | zero => omega
    | succ n =>
      rw [getV_cons_some n h v w s q hv.head hw, typeV_cons n h v s q hv.head, hw]
      cases q with
      | nil =>
        simp only [navigate, Option.some.injEq] at hq
        subst hq
        exact ⟨rfl, rfl⟩
      | cons s' q' =>
        have hk := navigate_kind hq
        have hl := render_length_cons s (s' :: q') hv.head
        simp only [hk, if_true]
        exact ih (by simp) hv.tail n w r (by omega) hq

theorem unresolved_V (h : Heap) : ∀ (p : List Seg), p ≠ [] → ValidPath p → ∀ (fuel : Nat) (v : Val),
    (render p).length < fuel → navigate h v p = none →
    typeV fuel h v (render p) = .undefined ∧ (getV fuel h v (render p)).isPanic = true := by
  intro p
  induction p with
  | nil => intro hne; exact absurd rfl hne
  | cons s q ih =>
    intro _ hv fuel v hf hn
    cases fuel with
    | zero => omega
    | succ n =>
      cases hw : navStep h v s with
      | none =>
        exact ⟨by rw [typeV_cons n h v s q hv.head, hw], getV_cons_none n h v s q hv.head hw⟩
      | some w =>
        rw [navigate_cons_of_step q hw] at hn
        rw [getV_cons_some n h v w s q hv.head hw, typeV_cons n h v s q hv.head, hw]
        cases q with
        | nil => simp [navigate] at hn
        | cons s' q' =>
          have hl := render_length_cons s (s' :: q') hv.head
          by_cases hk : w.kind = s'.kind
          · simp only [hk, if_true]
            exact ih (by simp) hv.tail n w (by omega) hn
          · simp [hk, Out.isPanic]

/-! ## an index that does not fit a Go `int` -/

theorem typeV_zero (h : Heap) (v : Val) (s : Str) : typeV 0 h v s = .undefined := by
  cases v <;> simp [typeV, TF.typeL, TF.typeO]

theorem typeV_overflow_head (n : Nat) (h : Heap) (v : Val) (m : Nat) (q : List Seg) (hm : 2 ^ 63 ≤ m) :
    typeV n h v (render (.idx m :: q)) = .undefined := by
  cases n with
  | zero => exact typeV_zero h v _
  | succ n =>
    have hne : (Seg.idx m).text ≠ [] := toDigits_ne_nil m
    have hf : SigilFree (Seg.idx m).text := toDigits_sigilFree m
    have hp : TF.parseIdx (Seg.idx m).text = none := parseIdx_toDigits_big m hm
    cases v with
    | list r =>
      have hst : TF.strip '#' (render (Seg.idx m :: q)) = some ((Seg.idx m).text ++ render q) := by
        rw [strip_render' _ _ _ hne]; simp [Seg.sigil]
      have hsp := split_render' (.idx m) q hne hf
      match q with
      | [] => simp [typeV, TF.typeL, hst, hsp, hp]
      | .key k' :: q' => simp [typeV, TF.typeL, hst, hsp, hp]
      | .idx i' :: q' => simp [typeV, TF.typeL, hst, hsp, hp]
    | obj r =>
      have : TF.strip '.' (render (Seg.idx m :: q)) = none := by
        rw [strip_render' _ _ _ hne]; simp [Seg.sigil]
      simp [typeV, TF.typeO, this]
    | _ => rfl

/-- a path through an index `≥ 2^63` never resolves -/
theorem overflow_V (h : Heap) (m : Nat) (hm : 2 ^ 63 ≤ m) (post : List Seg) : ∀ (pre : List Seg),
    ValidPath pre → ∀ (n : Nat) (v : Val), typeV n h v (render (pre ++ .idx m :: post)) = .undefined := by
  intro pre
  induction pre with
  | nil => intro _ n v; exact typeV_overflow_head n h v m post hm
  | cons s pre' ih =>
    intro hv n v
    cases n with
    | zero => exact typeV_zero h v _
    | succ n =>
      rw [List.cons_append, typeV_cons n h v s _ hv.head]
      cases hw : navStep h v s with
      | none => rfl
      | some w =>
        cases hq : pre' ++ Seg.idx m :: post with
        | nil => simp at hq
        | cons s' q' =>
          simp only
          by_cases hk : w.kind = s'.kind
          · simp only [hk, if_true]
            rw [← hq]
            exact ih hv.tail n w
          · simp only [hk, if_false]

/-! ## fuel independence (arbitrary texts) -/

theorem get_fuel (h : Heap) : ∀ (n m : Nat) (a : Nat) (tf : Str), tf.length < n → tf.length < m →
    TF.getL n h a tf = TF.getL m h a tf ∧ TF.getO n h a tf = TF.getO m h a tf := by
  intro n
  induction n with
  | zero => intro m a tf hn; omega
  | succ n ih =>
    intro m a tf hn hm
    cases m with
    | zero => omega
    | succ m =>
      constructor
      · simp only [TF.getL]
        cases hs : TF.strip '#' tf with
        | none => rfl
        | some t =>
          obtain ⟨rfl, ht⟩ := strip_some hs
          simp only [List.length_cons] at hn hm
          cases hsp : TF.split t with
          | dot seg rest =>
            have hl := split_dot_length hsp
            have e : ∀ b, TF.getO n h b rest = TF.getO m h b rest :=
              fun b => (ih m b rest (by omega) (by omega)).2
            simp only [hsp, e]
          | hash seg rest =>
            have hl := split_hash_length hsp
            have e : ∀ b, TF.getL n h b rest = TF.getL m h b rest :=
              fun b => (ih m b rest (by omega) (by omega)).1
            simp only [hsp, e]
          | leaf seg => simp only [hsp]
      · simp only [TF.getO]
        cases hs : TF.strip '.' tf with
        | none => rfl
        | some t =>
          obtain ⟨rfl, ht⟩ := strip_some hs
          simp only [List.length_cons] at hn hm
          cases hsp : TF.split t with
          | dot seg rest =>
            have hl := split_dot_length hsp
            have e : ∀ b, TF.getO n h b rest = TF.getO m h b rest :=
              fun b => (ih m b rest (by omega) (by omega)).2
            simp only [hsp, e]
          | hash seg rest =>
            have hl := split_hash_length hsp
            have e : ∀ b, TF.getL n h b rest = TF.getL m h b rest :=
              fun b => (ih m b rest (by omega) (by omega)).1
            simp only [hsp, e]
          | leaf seg => simp only [hsp]

theorem type_fuel (h : Heap) : ∀ (n m : Nat) (a : Nat) (tf : Str), tf.length < n → tf.length < m →
    TF.typeL n h a tf = TF.typeL m h a tf ∧ TF.typeO n h a tf = TF.typeO m h a tf := by
  intro n
  induction n with
  | zero => intro m a tf hn; omega
  | succ n ih =>
    intro m a tf hn hm
    cases m with
    | zero => omega
    | succ m =>
      constructor
      · simp only [TF.typeL]
        cases hs : TF.strip '#' tf with
        | none => rfl
        | some t =>
          obtain ⟨rfl, ht⟩ := strip_some hs
          simp only [List.length_cons] at hn hm
          cases hsp : TF.split t with
          | dot seg rest =>
            have hl := split_dot_length hsp
            have e : ∀ b, TF.typeO n h b rest = TF.typeO m h b rest :=
              fun b => (ih m b rest (by omega) (by omega)).2
            simp only [hsp, e]
          | hash seg rest =>
            have hl := split_hash_length hsp
            have e : ∀ b, TF.typeL n h b rest = TF.typeL m h b rest :=
              fun b => (ih m b rest (by omega) (by omega)).1
            simp only [hsp, e]
          | leaf seg => simp only [hsp]
      · simp only [TF.typeO]
        cases hs : TF.strip '.' tf with
        | none => rfl
        | some t =>
          obtain ⟨rfl, ht⟩ := strip_some hs
          simp only [List.length_cons] at hn hm
          cases hsp : TF.split t with
          | dot seg rest =>
            have hl := split_dot_length hsp
            have e : ∀ b, TF.typeO n h b rest = TF.typeO m h b rest :=
              fun b => (ih m b rest (by omega) (by omega)).2
            simp only [hsp, e]
          | hash seg rest =>
            have hl := split_hash_length hsp
            have e : ∀ b, TF.typeL n h b rest = TF.typeL m h b rest :=
              fun b => (ih m b rest (by omega) (by omega)).1
            simp only [hsp, e]
          | leaf seg => simp only [hsp]

end TFP
end Anytype
