/-
GetTF / TypeOfTF on ARBITRARY texts: TypeOfTF is undefined exactly when GetTF panics, and a
text outside the grammar resolves only in two situations (non-canonical numerals that
`strconv.ParseInt(s, 0, 64)` accepts; finding K1: an empty segment makes the rest of the text a key).
-/
import Anytype.Lemmas.TreeFormGet
namespace Anytype
namespace TFP
open Heap

/-! ## reading indexes -/

theorem parseIdx_dot_head (u : Str) : TF.parseIdx ('.' :: u) = none := by
  have h1 : readDigits 10 ('.' :: u) 0 = none := by
    have : digitVal '.' = 36 := by decide
    simp [readDigits, this]
  simp [TF.parseIdx, parseIntBase0, parseUintBase0, h1]

theorem parseIdx_hash_head (u : Str) : TF.parseIdx ('#' :: u) = none := by
  have h1 : readDigits 10 ('#' :: u) 0 = none := by
    have : digitVal '#' = 36 := by decide
    simp [readDigits, this]
  simp [TF.parseIdx, parseIntBase0, parseUintBase0, h1]

theorem parseIdx_sigil_head (c : Char) (u : Str) (hc : isSigil c = true) : TF.parseIdx (c :: u) = none := by
  have hc' : c = '.' ∨ c = '#' := by simpa [isSigil] using hc
  rcases hc' with rfl | rfl
  · exact parseIdx_dot_head u
  · exact parseIdx_hash_head u

/-- a canonical numeral is read as its value, and only when it fits a Go `int` -/
theorem parseIdx_canon {b : Str} {m : Nat} {i : Int} (hc : canonNat b = some m)
    (hp : TF.parseIdx b = some i) : i = (m : Int) ∧ m < 2 ^ 63 := by
  rw [canonNat_some hc] at hp
  by_cases hm : m < 2 ^ 63
  · rw [parseIdx_toDigits m hm] at hp
    cases hp
    exact ⟨rfl, hm⟩
  · rw [parseIdx_toDigits_big m (by omega)] at hp
    cases hp

/-! ## typed getters and `TypeOf` in terms of `Get` -/

theorem L_typeOf_eq (h : Heap) (a : Nat) (i : Int) :
    L.typeOf h a i = match L.get h a i with | .ok w => w.kind | .panic _ => .undefined := by
  cases hg : L.get h a i with
  | ok w => exact L_typeOf_of_get_ok hg
  | panic p => exact L_typeOf_of_get_panic hg

theorem O_typeOf_eq (h : Heap) (a : Nat) (k : Str) :
    O.typeOf h a k = match O.get h a k with | .ok w => w.kind | .panic _ => .undefined := by
  cases hg : O.get h a k with
  | ok w => exact (O_of_get_ok hg).2
  | panic p => exact (O_of_get_panic hg).2

theorem O_keyExists_eq (h : Heap) (a : Nat) (k : Str) :
    O.keyExists h a k = match O.get h a k with | .ok _ => true | .panic _ => false := by
  cases hg : O.get h a k with
  | ok w => exact (O_of_get_ok hg).1
  | panic p => exact (O_of_get_panic hg).1

theorem L_get_ok_nonneg {h : Heap} {a : Nat} {i : Int} {w : Val} (hg : L.get h a i = .ok w) : 0 ≤ i := by
  unfold L.get at hg
  split at hg
  · cases hg
  · next hc =>
    simp only [Bool.or_eq_true, decide_eq_true_eq, not_or, Int.not_lt] at hc
    exact hc.2

/-! ## TypeOfTF is undefined exactly when GetTF panics — on every text -/

theorem type_undefined_iff_get_panic (h : Heap) : ∀ (n : Nat) (v : Val) (s : Str),
    typeV n h v s = .undefined ↔ (getV n h v s).isPanic = true := by
  intro n
  induction n with
  | zero => intro v s; cases v <;> simp [typeV, getV, TF.typeL, TF.typeO, TF.getL, TF.getO, Out.isPanic]
  | succ n ih =>
    intro v s
    cases v with
    | list r =>
      simp only [typeV, getV, TF.typeL, TF.getL]
      cases hs : TF.strip '#' s with
      | none => simp [Out.isPanic]
      | some t =>
        cases hsp : TF.split t with
        | dot seg rest =>
          simp only [hsp]
          cases hp : TF.parseIdx seg with
          | none => simp [Out.isPanic]
          | some i =>
            simp only [L_typeOf_eq, L.getK]
            cases hg : L.get h r.addr i with
            | panic p => simp [Out.isPanic]
            | ok w =>
              cases w <;> simp [Val.kind, Out.isPanic]
              exact ih (.obj _) rest
        | hash seg rest =>
          simp only [hsp]
          cases hp : TF.parseIdx seg with
          | none => simp [Out.isPanic]
          | some i =>
            simp only [L_typeOf_eq, L.getK]
            cases hg : L.get h r.addr i with
            | panic p => simp [Out.isPanic]
            | ok w =>
              cases w <;> simp [Val.kind, Out.isPanic]
              exact ih (.list _) rest
        | leaf seg =>
          simp only [hsp]
          cases hp : TF.parseIdx seg with
          | none => simp [Out.isPanic]
          | some i =>
            simp only [L_typeOf_eq]
            cases hg : L.get h r.addr i with
            | panic p => simp [Out.isPanic]
            | ok w => simp [Out.isPanic, val_kind_ne_undefined]
    | obj r =>
      simp only [typeV, getV, TF.typeO, TF.getO]
      cases hs : TF.strip '.' s with
      | none => simp [Out.isPanic]
      | some t =>
        cases hsp : TF.split t with
        | dot seg rest =>
          simp only [hsp]
          simp only [O_typeOf_eq, O_keyExists_eq, O.getK]
          cases hg : O.get h r.addr seg with
          | panic p => simp [Out.isPanic]
          | ok w =>
            cases w <;> simp [Val.kind, Out.isPanic]
            exact ih (.obj _) rest
        | hash seg rest =>
          simp only [hsp]
          simp only [O_typeOf_eq, O_keyExists_eq, O.getK]
          cases hg : O.get h r.addr seg with
          | panic p => simp [Out.isPanic]
          | ok w =>
            cases w <;> simp [Val.kind, Out.isPanic]
            exact ih (.list _) rest
        | leaf seg =>
          simp only [hsp]
          simp only [O_typeOf_eq, O_keyExists_eq]
          cases hg : O.get h r.addr seg with
          | panic p => simp [Out.isPanic]
          | ok w => simp [Out.isPanic, val_kind_ne_undefined]
    | nil => simp [typeV, getV, Out.isPanic]
    | bool b => simp [typeV, getV, Out.isPanic]
    | int b => simp [typeV, getV, Out.isPanic]
    | float b => simp [typeV, getV, Out.isPanic]
    | str b => simp [typeV, getV, Out.isPanic]


/-! ## texts outside the grammar -/

/-- some '#'-segment is not a canonical decimal numeral, yet `strconv.ParseInt(seg, 0, 64)` reads
it as a non-negative index (`#010`, `#0x2`, `#+1`, `#1_0`, `#-0`): the property says nothing there -/
def NonCanonicalNumeral (s : Str) : Prop :=
  ∃ (pre body post : Str) (i : Int), s = pre ++ '#' :: (body ++ post) ∧ SigilFree body ∧
    (post = [] ∨ ∃ c u, post = c :: u ∧ isSigil c = true) ∧ canonNat body = none ∧
    parseIntBase0 body = some i ∧ 0 ≤ i

/-- finding K1: after a resolvable prefix `p` comes an EMPTY segment (a sigil directly followed
by a sigil), the receiver reached by `p` is an object, and that object has the whole remaining
text `t` (which starts with a sigil) as a key -/
def SigilLeafKey (h : Heap) (v : Val) (s : Str) : Prop :=
  ∃ (p : List Seg) (t : Str) (r : Ref), s = render p ++ '.' :: t ∧
    (∃ c u, t = c :: u ∧ isSigil c = true) ∧ ValidPath p ∧
    navigate h v p = some (.obj r) ∧ (lookup (h.fields r.addr) t).isSome = true

/-- the three ways a text can resolve -/
def Explained (h : Heap) (v : Val) (s : Str) : Prop :=
  (∃ p, segments s = some p) ∨ NonCanonicalNumeral s ∨ SigilLeafKey h v s

theorem Explained.cons {h : Heap} {v w : Val} (s1 : Seg) (hs1 : s1.Valid) (hn : navStep h v s1 = some w)
    {rest : Str} (he : Explained h w rest) : Explained h v (s1.sigil :: (s1.text ++ rest)) := by
  rcases he with ⟨p', hp'⟩ | ⟨pre, body, post, i, e, hb, hpost, hc, hpi, hi⟩ | ⟨p', t, r, e, ht, hv, hnav, hl⟩
  · obtain ⟨rfl, hne, hk⟩ := segments_some hp'
    refine Or.inl ⟨s1 :: p', ?_⟩
    rw [← render_cons]
    apply segments_render _ (by simp)
    intro x hx k ek
    rcases List.mem_cons.1 hx with rfl | hx
    · subst ek; exact hs1
    · exact hk x hx k ek
  · refine Or.inr (Or.inl ⟨s1.sigil :: (s1.text ++ pre), body, post, i, ?_, hb, hpost, hc, hpi, hi⟩)
    rw [e]; simp
  · refine Or.inr (Or.inr ⟨s1 :: p', t, r, ?_, ht, ?_, ?_, hl⟩)
    · rw [e, render_cons]; simp
    · intro x hx
      rcases List.mem_cons.1 hx with rfl | hx
      · exact hs1
      · exact hv x hx
    · rw [navigate_cons_of_step _ hn]; exact hnav

theorem render_single_idx (m : Nat) : render [Seg.idx m] = '#' :: Nat.toDigits 10 m := by
  simp [render, Seg.sigil, Seg.text]

theorem render_single_key (k : Str) : render [Seg.key k] = '.' :: k := by
  simp [render, Seg.sigil, Seg.text]

/-- whenever TypeOfTF answers something, the text is explained -/
theorem explained_of_type (h : Heap) : ∀ (n : Nat) (v : Val) (s : Str),
    typeV n h v s ≠ .undefined → Explained h v s := by
  intro n
  induction n with
  | zero => intro v s hne; cases v <;> simp [typeV, TF.typeL, TF.typeO] at hne
  | succ n ih =>
    intro v s hne
    cases v with
    | list r =>
      simp only [typeV, TF.typeL] at hne
      cases hs : TF.strip '#' s with
      | none => simp [hs] at hne
      | some t =>
        obtain ⟨rfl, ht⟩ := strip_some hs
        simp only [hs] at hne
        rcases split_spec t with ⟨hsp, hleaf⟩ | ⟨seg, u, hsn, hf, rfl, hsp⟩ | ⟨seg, u, hsn, hf, rfl, hsp⟩
        · simp only [hsp] at hne
          cases hp : TF.parseIdx t with
          | none => simp [hp] at hne
          | some i =>
            simp only [hp, L_typeOf_eq] at hne
            cases hg : L.get h r.addr i with
            | panic p => simp [hg] at hne
            | ok w =>
              have h0 := L_get_ok_nonneg hg
              rcases hleaf with hfree | ⟨c, u, rfl, hc⟩
              · cases hc : canonNat t with
                | none => exact Or.inr (Or.inl ⟨[], t, [], i, by simp, hfree, Or.inl rfl, hc, hp, h0⟩)
                | some m =>
                  refine Or.inl ⟨[.idx m], ?_⟩
                  rw [canonNat_some hc, ← render_single_idx]
                  exact segments_render _ (by simp) (by simp)
              · rw [parseIdx_sigil_head c u hc] at hp; cases hp
        · simp only [hsp] at hne
          cases hp : TF.parseIdx seg with
          | none => simp [hp] at hne
          | some i =>
            simp only [hp, L_typeOf_eq, L.getK] at hne
            cases hg : L.get h r.addr i with
            | panic p => simp [hg] at hne
            | ok w =>
              have h0 := L_get_ok_nonneg hg
              cases w <;> simp [hg, Val.kind] at hne
              next r' =>
              have he := ih (.obj r') _ hne
              cases hc : canonNat seg with
              | none =>
                exact Or.inr (Or.inl ⟨[], seg, '.' :: u, i, by simp, hf, Or.inr ⟨_, _, rfl, rfl⟩, hc, hp, h0⟩)
              | some m =>
                obtain ⟨rfl, hm⟩ := parseIdx_canon hc hp
                have hn : navStep h (.list r) (.idx m) = some (.obj r') := by simp [navStep, hg]
                have := Explained.cons (.idx m) hm hn he
                rw [canonNat_some hc]
                exact this
        · simp only [hsp] at hne
          cases hp : TF.parseIdx seg with
          | none => simp [hp] at hne
          | some i =>
            simp only [hp, L_typeOf_eq, L.getK] at hne
            cases hg : L.get h r.addr i with
            | panic p => simp [hg] at hne
            | ok w =>
              have h0 := L_get_ok_nonneg hg
              cases w <;> simp [hg, Val.kind] at hne
              next r' =>
              have he := ih (.list r') _ hne
              cases hc : canonNat seg with
              | none =>
                exact Or.inr (Or.inl ⟨[], seg, '#' :: u, i, by simp, hf, Or.inr ⟨_, _, rfl, rfl⟩, hc, hp, h0⟩)
              | some m =>
                obtain ⟨rfl, hm⟩ := parseIdx_canon hc hp
                have hn : navStep h (.list r) (.idx m) = some (.list r') := by simp [navStep, hg]
                have := Explained.cons (.idx m) hm hn he
                rw [canonNat_some hc]
                exact this
    | obj r =>
      simp only [typeV, TF.typeO] at hne
      cases hs : TF.strip '.' s with
      | none => simp [hs] at hne
      | some t =>
        obtain ⟨rfl, ht⟩ := strip_some hs
        simp only [hs] at hne
        rcases split_spec t with ⟨hsp, hleaf⟩ | ⟨seg, u, hsn, hf, rfl, hsp⟩ | ⟨seg, u, hsn, hf, rfl, hsp⟩
        · simp only [hsp] at hne
          rcases hleaf with hfree | ⟨c, u, rfl, hc⟩
          · refine Or.inl ⟨[.key t], ?_⟩
            rw [← render_single_key]
            apply segments_render _ (by simp)
            intro x hx k ek
            simp only [List.mem_singleton] at hx
            subst hx; cases ek
            exact ⟨ht, hfree⟩
          · refine Or.inr (Or.inr ⟨[], c :: u, r, rfl, ⟨c, u, rfl, hc⟩, (by intro x hx; cases hx), rfl, ?_⟩)
            cases hk : O.keyExists h r.addr (c :: u) with
            | false => simp [hk] at hne
            | true => exact hk
        · simp only [hsp, O_typeOf_eq, O_keyExists_eq, O.getK] at hne
          cases hg : O.get h r.addr seg with
          | panic p => simp [hg] at hne
          | ok w =>
            cases w <;> simp [hg, Val.kind] at hne
            next r' =>
            have he := ih (.obj r') _ hne
            have hn : navStep h (.obj r) (.key seg) = some (.obj r') := by simp [navStep, hg]
            exact Explained.cons (.key seg) ⟨hsn, hf⟩ hn he
        · simp only [hsp, O_typeOf_eq, O_keyExists_eq, O.getK] at hne
          cases hg : O.get h r.addr seg with
          | panic p => simp [hg] at hne
          | ok w =>
            cases w <;> simp [hg, Val.kind] at hne
            next r' =>
            have he := ih (.list r') _ hne
            have hn : navStep h (.obj r) (.key seg) = some (.list r') := by simp [navStep, hg]
            exact Explained.cons (.key seg) ⟨hsn, hf⟩ hn he
    | nil => simp [typeV] at hne
    | bool b => simp [typeV] at hne
    | int b => simp [typeV] at hne
    | float b => simp [typeV] at hne
    | str b => simp [typeV] at hne

/-- a text that is outside the grammar and not one of the two explained exceptions does not resolve -/
theorem malformed_V (h : Heap) (n : Nat) (v : Val) (s : Str) (hseg : segments s = none)
    (hnc : ¬ NonCanonicalNumeral s) (hk1 : ¬ SigilLeafKey h v s) :
    typeV n h v s = .undefined ∧ (getV n h v s).isPanic = true := by
  have ht : typeV n h v s = .undefined := by
    by_cases hne : typeV n h v s = .undefined
    · exact hne
    · rcases explained_of_type h n v s hne with ⟨p, hp⟩ | hc | hc
      · rw [hseg] at hp; cases hp
      · exact absurd hc hnc
      · exact absurd hc hk1
  exact ⟨ht, (type_undefined_iff_get_panic h n v s).1 ht⟩


/-! ## K1 is real: every `SigilLeafKey` instance resolves -/

/-- the kind a receiver must have for a text starting with sigil `c` -/
def sigilKind (c : Char) : Kind := if c = '.' then .object else .list

theorem typeV_cons_tail (n : Nat) (h : Heap) (v : Val) (s : Seg) (c : Char) (u : Str) (hs : s.Valid)
    (hc : isSigil c = true) :
    typeV (n + 1) h v (s.sigil :: (s.text ++ c :: u)) =
      match navStep h v s with
      | none => .undefined
      | some w => if w.kind = sigilKind c then typeV n h w (c :: u) else .undefined := by
  have hne : s.text ++ c :: u ≠ [] := by simp
  have hc' : c = '.' ∨ c = '#' := by simpa [isSigil] using hc
  rcases hc' with rfl | rfl
  · have hsp : TF.split (s.text ++ '.' :: u) = .dot s.text ('.' :: u) :=
      split_dot _ _ (Seg.text_ne_nil hs) (Seg.text_sigilFree hs)
    have hsk : sigilKind '.' = Kind.object := by decide
    cases v with
    | list r =>
      cases s with
      | key k =>
        have : TF.strip '#' ((Seg.key k).sigil :: ((Seg.key k).text ++ '.' :: u)) = none := by
          rw [strip_cons _ _ _ hne]; simp [Seg.sigil]
        simp [typeV, TF.typeL, this, navStep]
      | idx i =>
        have hst : TF.strip '#' ((Seg.idx i).sigil :: ((Seg.idx i).text ++ '.' :: u)) =
            some ((Seg.idx i).text ++ '.' :: u) := by
          rw [strip_cons _ _ _ hne]; simp [Seg.sigil]
        have hp : TF.parseIdx (Seg.idx i).text = some (i : Int) := parseIdx_toDigits i hs
        cases hg : L.get h r.addr (i : Int) with
        | panic p => simp [typeV, TF.typeL, hst, hsp, hp, navStep, hg, L_typeOf_eq]
        | ok w =>
          simp only [typeV, TF.typeL, hst, hsp, hp, navStep, hg, L_typeOf_eq, L.getK, hsk]
          cases w <;> simp [Val.kind]
    | obj r =>
      cases s with
      | idx i =>
        have : TF.strip '.' ((Seg.idx i).sigil :: ((Seg.idx i).text ++ '.' :: u)) = none := by
          rw [strip_cons _ _ _ hne]; simp [Seg.sigil]
        simp [typeV, TF.typeO, this, navStep]
      | key k =>
        have hst : TF.strip '.' ((Seg.key k).sigil :: ((Seg.key k).text ++ '.' :: u)) =
            some ((Seg.key k).text ++ '.' :: u) := by
          rw [strip_cons _ _ _ hne]; simp [Seg.sigil]
        simp only [Seg.text] at hst hsp
        cases hg : O.get h r.addr k with
        | panic p => simp [typeV, TF.typeO, Seg.text, hst, hsp, navStep, hg, O_typeOf_eq, O_keyExists_eq]
        | ok w =>
          simp only [typeV, TF.typeO, Seg.text, hst, hsp, navStep, hg, O_typeOf_eq, O_keyExists_eq,
            O.getK, hsk]
          cases w <;> simp [Val.kind]
    | nil => cases s <;> simp [typeV, navStep]
    | bool b => cases s <;> simp [typeV, navStep]
    | int b => cases s <;> simp [typeV, navStep]
    | float b => cases s <;> simp [typeV, navStep]
    | str b => cases s <;> simp [typeV, navStep]
  · have hsp : TF.split (s.text ++ '#' :: u) = .hash s.text ('#' :: u) :=
      split_hash _ _ (Seg.text_ne_nil hs) (Seg.text_sigilFree hs)
    have hsk : sigilKind '#' = Kind.list := by decide
    cases v with
    | list r =>
      cases s with
      | key k =>
        have : TF.strip '#' ((Seg.key k).sigil :: ((Seg.key k).text ++ '#' :: u)) = none := by
          rw [strip_cons _ _ _ hne]; simp [Seg.sigil]
        simp [typeV, TF.typeL, this, navStep]
      | idx i =>
        have hst : TF.strip '#' ((Seg.idx i).sigil :: ((Seg.idx i).text ++ '#' :: u)) =
            some ((Seg.idx i).text ++ '#' :: u) := by
          rw [strip_cons _ _ _ hne]; simp [Seg.sigil]
        have hp : TF.parseIdx (Seg.idx i).text = some (i : Int) := parseIdx_toDigits i hs
        cases hg : L.get h r.addr (i : Int) with
        | panic p => simp [typeV, TF.typeL, hst, hsp, hp, navStep, hg, L_typeOf_eq]
        | ok w =>
          simp only [typeV, TF.typeL, hst, hsp, hp, navStep, hg, L_typeOf_eq, L.getK, hsk]
          cases w <;> simp [Val.kind]
    | obj r =>
      cases s with
      | idx i =>
        have : TF.strip '.' ((Seg.idx i).sigil :: ((Seg.idx i).text ++ '#' :: u)) = none := by
          rw [strip_cons _ _ _ hne]; simp [Seg.sigil]
        simp [typeV, TF.typeO, this, navStep]
      | key k =>
        have hst : TF.strip '.' ((Seg.key k).sigil :: ((Seg.key k).text ++ '#' :: u)) =
            some ((Seg.key k).text ++ '#' :: u) := by
          rw [strip_cons _ _ _ hne]; simp [Seg.sigil]
        simp only [Seg.text] at hst hsp
        cases hg : O.get h r.addr k with
        | panic p => simp [typeV, TF.typeO, Seg.text, hst, hsp, navStep, hg, O_typeOf_eq, O_keyExists_eq]
        | ok w =>
          simp only [typeV, TF.typeO, Seg.text, hst, hsp, navStep, hg, O_typeOf_eq, O_keyExists_eq,
            O.getK, hsk]
          cases w <;> simp [Val.kind]
    | nil => cases s <;> simp [typeV, navStep]
    | bool b => cases s <;> simp [typeV, navStep]
    | int b => cases s <;> simp [typeV, navStep]
    | float b => cases s <;> simp [typeV, navStep]
    | str b => cases s <;> simp [typeV, navStep]

theorem sigilKind_sigil (s : Seg) : sigilKind s.sigil = s.kind := by cases s <;> rfl

/-- after a resolvable prefix, an empty segment followed by text `t` that is a key of the object
reached: TypeOfTF answers the kind of that field -/
theorem k1_resolves (h : Heap) (t : Str) (r : Ref) (x : Val) (ht : ∃ c u, t = c :: u ∧ isSigil c = true)
    (hx : lookup (h.fields r.addr) t = some x) : ∀ (p : List Seg), ValidPath p → ∀ (n : Nat) (v : Val),
    (render p ++ '.' :: t).length < n → navigate h v p = some (.obj r) →
    typeV n h v (render p ++ '.' :: t) = x.kind := by
  intro p
  induction p with
  | nil =>
    intro _ n v hn hnav
    simp only [navigate, Option.some.injEq] at hnav
    subst hnav
    obtain ⟨c, u, rfl, hc⟩ := ht
    cases n with
    | zero => omega
    | succ n =>
      have hst : TF.strip '.' ('.' :: c :: u) = some (c :: u) := by
        rw [strip_cons _ _ _ (by simp)]; simp
      simp [render, typeV, TF.typeO, hst, split_sigil_head c u hc, O.keyExists, O.typeOf, hx]
  | cons s p' ih =>
    intro hv n v hn hnav
    obtain ⟨w, hw, hnav'⟩ := navigate_cons_some hnav
    cases n with
    | zero => omega
    | succ n =>
      have hlen := Seg.text_ne_nil hv.head
      have hl : (render p' ++ '.' :: t).length < n := by
        have := List.length_pos_iff.2 hlen
        simp only [render_cons, List.cons_append, List.append_assoc, List.length_cons,
          List.length_append] at hn ⊢
        omega
      cases p' with
      | nil =>
        simp only [navigate, Option.some.injEq] at hnav'
        subst hnav'
        have := typeV_cons_tail n h v s '.' t hv.head rfl
        simp only [render, List.append_nil, List.cons_append] at this ⊢
        rw [this, hw]
        simp only
        rw [if_pos (by rfl)]
        have := ih hv.tail n (.obj r) (by simpa [render] using hl) rfl
        simpa [render] using this
      | cons s' p'' =>
        have hk : w.kind = s'.kind := navigate_kind hnav'
        have := typeV_cons_tail n h v s s'.sigil (s'.text ++ (render p'' ++ '.' :: t)) hv.head
          (Seg.isSigil_sigil s')
        simp only [render_cons, List.cons_append, List.append_assoc] at this ⊢
        rw [this, hw]
        simp only [sigilKind_sigil, hk, if_true]
        have := ih hv.tail n w hl hnav'
        simpa [render_cons] using this

/-- every instance of K1 violates the property: TypeOfTF is not `undefined` (and GetTF does not
panic) although the text is outside the grammar -/
theorem sigilLeafKey_resolves {h : Heap} {v : Val} {s : Str} (hk : SigilLeafKey h v s) :
    typeV (s.length + 1) h v s ≠ .undefined ∧ (getV (s.length + 1) h v s).isPanic = false := by
  obtain ⟨p, t, r, rfl, ht, hv, hnav, hl⟩ := hk
  cases hx : lookup (h.fields r.addr) t with
  | none => simp [hx] at hl
  | some x =>
    have := k1_resolves h t r x ht hx p hv _ v (Nat.lt_succ_self _) hnav
    have hne : typeV ((render p ++ '.' :: t).length + 1) h v (render p ++ '.' :: t) ≠ .undefined := by
      rw [this]; exact val_kind_ne_undefined x
    refine ⟨hne, ?_⟩
    cases hp : (getV ((render p ++ '.' :: t).length + 1) h v (render p ++ '.' :: t)).isPanic with
    | false => rfl
    | true => exact absurd ((type_undefined_iff_get_panic h _ v _).2 hp) hne


/-! ## … and is outside the grammar -/

theorem segAux_sigil_head {c : Char} {u b : Str} {segs : List Seg} (hc : isSigil c = true)
    (h : segAux (c :: u) = some (b, segs)) : b = [] := by
  have hc' : c = '.' ∨ c = '#' := by simpa [isSigil] using hc
  simp only [segAux] at h
  cases hu : segAux u with
  | none => simp [hu] at h
  | some pr =>
    obtain ⟨b', segs'⟩ := pr
    simp only [hu] at h
    rcases hc' with rfl | rfl
    · simp only [beq_self_eq_true, if_true] at h
      split at h
      · cases h
      · cases h; rfl
    · have : ('#' == '.') = false := by decide
      simp only [this, Bool.false_eq_true, if_false, beq_self_eq_true, if_true] at h
      cases hcn : canonNat b' with
      | none => simp [hcn] at h
      | some m => simp only [hcn] at h; cases h; rfl

theorem segAux_empty_segment (c : Char) (u : Str) (hc : isSigil c = true) :
    segAux ('.' :: c :: u) = none := by
  cases hcu : segAux (c :: u) with
  | none => rw [segAux, hcu]
  | some pr =>
    obtain ⟨b, segs⟩ := pr
    have hb := segAux_sigil_head hc hcu
    subst hb
    rw [segAux, hcu]
    simp

theorem segAux_none_append (pre rest : Str) (h : segAux rest = none) : segAux (pre ++ rest) = none := by
  induction pre with
  | nil => exact h
  | cons x pre ih => simp [segAux, ih]

theorem segments_none_of_sigilLeafKey {h : Heap} {v : Val} {s : Str} (hk : SigilLeafKey h v s) :
    segments s = none := by
  obtain ⟨p, t, r, rfl, ⟨c, u, rfl, hc⟩, _, _, _⟩ := hk
  unfold segments
  rw [segAux_none_append _ _ (segAux_empty_segment c u hc)]


/-! ## decidable sufficient checks for the two exclusions -/

/-- does the text contain an empty segment (a sigil directly followed by a sigil)? -/
def hasEmptySeg : Str → Bool
  | c1 :: c2 :: t => (isSigil c1 && isSigil c2) || hasEmptySeg (c2 :: t)
  | _ => false

theorem hasEmptySeg_append (pre : Str) (c1 c2 : Char) (u : Str) (h1 : isSigil c1 = true)
    (h2 : isSigil c2 = true) : hasEmptySeg (pre ++ c1 :: c2 :: u) = true := by
  induction pre with
  | nil => simp [hasEmptySeg, h1, h2]
  | cons x pre ih =>
    cases hp : pre ++ c1 :: c2 :: u with
    | nil => simp at hp
    | cons y t =>
      rw [hp] at ih
      simp only [List.cons_append, hp, hasEmptySeg, ih, Bool.or_true]

theorem not_sigilLeafKey_of_check {h : Heap} {v : Val} {s : Str} (hc : hasEmptySeg s = false) :
    ¬ SigilLeafKey h v s := by
  rintro ⟨p, t, r, rfl, ⟨c, u, rfl, hcs⟩, _, _, _⟩
  rw [hasEmptySeg_append _ '.' c u rfl hcs] at hc
  cases hc

/-- is the maximal sigil-free text at the head of `rest` a non-canonical numeral that ParseInt reads
as a non-negative number? -/
def ncAt (rest : Str) : Bool :=
  let body := rest.takeWhile (fun c => !isSigil c)
  (canonNat body).isNone &&
    (match parseIntBase0 body with
     | some i => decide (0 ≤ i)
     | none => false)

/-- some '#' is followed by such a text -/
def ncCheck : Str → Bool
  | [] => false
  | c :: t => (c == '#' && ncAt t) || ncCheck t

theorem takeWhile_body (body post : Str) (hb : SigilFree body)
    (hp : post = [] ∨ ∃ c u, post = c :: u ∧ isSigil c = true) :
    (body ++ post).takeWhile (fun c => !isSigil c) = body := by
  induction body with
  | nil =>
    rcases hp with rfl | ⟨c, u, rfl, hc⟩
    · rfl
    · simp [hc]
  | cons x body ih =>
    have hx := hb x (by simp)
    simp only [List.cons_append, List.takeWhile, hx, Bool.not_false]
    rw [ih (fun y hy => hb y (by simp [hy]))]

theorem ncCheck_of_nonCanonical {s : Str} (hn : NonCanonicalNumeral s) : ncCheck s = true := by
  obtain ⟨pre, body, post, i, rfl, hb, hp, hc, hpi, hi⟩ := hn
  induction pre with
  | nil =>
    simp only [List.nil_append, ncCheck, ncAt, takeWhile_body body post hb hp, hc, hpi]
    simp [hi]
  | cons x pre ih => simp [ncCheck, ih]

theorem not_nonCanonical_of_check {s : Str} (hc : ncCheck s = false) : ¬ NonCanonicalNumeral s := by
  intro hn
  rw [ncCheck_of_nonCanonical hn] at hc
  cases hc

end TFP
end Anytype
