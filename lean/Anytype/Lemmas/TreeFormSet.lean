/-
SetTF: the shape of one descent step (`stepL` / `stepO`), the one-step equation on rendered
paths, the frame (only visited and new cells change) and set-then-get.
-/
import Anytype.Lemmas.TreeFormUnset
import Anytype.Lemmas.Assoc
namespace Anytype
namespace TFP
open Heap

/-! ## vocabulary -/

/-- the new container a step creates / the reference to it, by wanted kind -/
def mkCell (wantObj : Bool) : Cell := if wantObj then .obj [] 0 else .list [] 0
def mkRef (wantObj : Bool) (n : Nat) : Val := if wantObj then .obj ⟨n, 0⟩ else .list ⟨n, 0⟩
def wantKind (wantObj : Bool) : Kind := if wantObj then .object else .list

def addrOf : Val → Nat
  | .list r => r.addr
  | .obj r => r.addr
  | _ => 0

/-- a value with its embedding level forgotten: the tree-form methods only use the address -/
def canon : Val → Val
  | .list r => .list ⟨r.addr, 0⟩
  | .obj r => .obj ⟨r.addr, 0⟩
  | x => x

/-- write `x` at position `i`: in place when `i` is inside, else pad with nil and append -/
def putAt (xs : List Val) (i : Nat) (x : Val) : List Val :=
  if i < xs.length then xs.set i x else xs ++ List.replicate (i - xs.length) .nil ++ [x]

theorem putAt_getElem?_self (xs : List Val) (i : Nat) (x : Val) : (putAt xs i x)[i]? = some x := by
  unfold putAt
  split
  · next hi => simp [hi]
  · next hi =>
    have hl : (xs ++ List.replicate (i - xs.length) Val.nil).length = i := by simp; omega
    rw [List.getElem?_append_right (by omega), hl]
    simp

theorem putAt_getElem?_ne (xs : List Val) (i j : Nat) (x : Val) (hj : j ≠ i) (hjl : j < xs.length) :
    (putAt xs i x)[j]? = xs[j]? := by
  unfold putAt
  split
  · rw [List.getElem?_set_ne (by omega)]
  · rw [List.append_assoc, List.getElem?_append_left hjl]

theorem putAt_length (xs : List Val) (i : Nat) (x : Val) :
    (putAt xs i x).length = max xs.length (i + 1) := by
  unfold putAt
  split <;> simp <;> omega

theorem mem_putAt {xs : List Val} {i : Nat} {x y : Val} (hy : y ∈ putAt xs i x) :
    y = x ∨ y = .nil ∨ y ∈ xs := by
  unfold putAt at hy
  split at hy
  · rcases List.mem_or_eq_of_mem_set hy with h | h
    · exact Or.inr (Or.inr h)
    · exact Or.inl h
  · simp only [List.mem_append, List.mem_replicate, List.mem_singleton] at hy
    rcases hy with (h | h) | h
    · exact Or.inr (Or.inr h)
    · exact Or.inr (Or.inl h.2)
    · exact Or.inl h

/-- the heap after storing `x` where segment `s` points in container `v` -/
def leafHeap (h : Heap) (v : Val) (s : Seg) (x : Val) : Heap :=
  match s with
  | .idx i => (match v with
    | .list r => h.setItems r.addr (putAt (h.items r.addr) i x)
    | _ => h)
  | .key k => (match v with
    | .obj r => h.setFields r.addr (setKV (h.fields r.addr) k x)
    | _ => h)

theorem canon_getVal (h : Heap) (x : Val) : canon (h.getVal x) = canon x := by cases x <;> rfl
theorem canon_kind (x : Val) : (canon x).kind = x.kind := by cases x <;> rfl
theorem addrOf_canon (x : Val) : addrOf (canon x) = addrOf x := by cases x <;> rfl
theorem addrOf_getVal (h : Heap) (x : Val) : addrOf (h.getVal x) = addrOf x := by cases x <;> rfl
theorem okIn_getVal {h : Heap} {x : Val} (hx : x.okIn h) : (h.getVal x).okIn h := by
  cases x <;> simp [Heap.getVal, Val.okIn] <;> exact hx
theorem okIn_canon {h : Heap} {x : Val} (hx : x.okIn h) : (canon x).okIn h := by
  cases x <;> simp [canon, Val.okIn] <;> exact hx

theorem mkRef_of_kind {x : Val} {b : Bool} (hk : x.kind = wantKind b) : mkRef b (addrOf x) = canon x := by
  cases b <;> cases x <;> simp [wantKind, Val.kind] at hk <;> rfl

theorem mkRef_kind (b : Bool) (n : Nat) : (mkRef b n).kind = wantKind b := by cases b <;> rfl
theorem addrOf_mkRef (b : Bool) (n : Nat) : addrOf (mkRef b n) = n := by cases b <;> rfl
theorem canon_mkRef (b : Bool) (n : Nat) : canon (mkRef b n) = mkRef b n := by cases b <;> rfl

theorem getV_canon (n : Nat) (h : Heap) (v : Val) (s : Str) : getV n h (canon v) s = getV n h v s := by
  cases v <;> rfl
theorem typeV_canon (n : Nat) (h : Heap) (v : Val) (s : Str) : typeV n h (canon v) s = typeV n h v s := by
  cases v <;> rfl
theorem setV_canon (n : Nat) (h : Heap) (v : Val) (s : Str) (g : GoVal) :
    setV n h (canon v) s g = setV n h v s g := by
  cases v <;> rfl
theorem navStep_canon (h : Heap) (v : Val) (s : Seg) : navStep h (canon v) s = navStep h v s := by
  cases v <;> cases s <;> rfl

/-- a step reads only the receiver's cell (and the ego levels): same cell content, same step
up to the embedding level of the result -/
theorem navStep_congr {h h' : Heap} {v w : Val} {s : Seg} (e : h'[addrOf v]? = h[addrOf v]?)
    (hn : navStep h v s = some w) : ∃ w', navStep h' v s = some w' ∧ canon w' = canon w := by
  cases s with
  | key k =>
    cases v with
    | obj r =>
      rw [navStep_key_obj] at hn ⊢
      have e' : h'[r.addr]? = h[r.addr]? := e
      rw [fields_congr e']
      cases hx : lookup (h.fields r.addr) k with
      | none => simp [hx] at hn
      | some x =>
        simp only [hx, Option.map_some, Option.some.injEq] at hn ⊢
        exact ⟨_, rfl, by rw [← hn, canon_getVal, canon_getVal]⟩
    | _ => simp [navStep] at hn
  | idx i =>
    cases v with
    | list r =>
      rw [navStep_idx_list] at hn ⊢
      have e' : h'[r.addr]? = h[r.addr]? := e
      rw [items_congr e']
      cases hx : (h.items r.addr)[i]? with
      | none => simp [hx] at hn
      | some x =>
        simp only [hx, Option.map_some, Option.some.injEq] at hn ⊢
        exact ⟨_, rfl, by rw [← hn, canon_getVal, canon_getVal]⟩
    | _ => simp [navStep] at hn

/-! ## `leafHeap` -/

/-- the receiver is a cell of the kind the segment applies to -/
def Recv (h : Heap) (v : Val) (s : Seg) : Prop := v.okIn h ∧ v.kind = s.kind

theorem Recv.cases {h : Heap} {v : Val} {s : Seg} (hr : Recv h v s) :
    (∃ r i, v = .list r ∧ s = .idx i ∧ h.isList r.addr = true) ∨
    (∃ r k, v = .obj r ∧ s = .key k ∧ h.isObj r.addr = true) := by
  obtain ⟨ho, hk⟩ := hr
  cases s <;> cases v <;> simp [Val.kind, Seg.kind] at hk
  · exact Or.inr ⟨_, _, rfl, rfl, ho⟩
  · exact Or.inl ⟨_, _, rfl, rfl, ho⟩

theorem Recv.lt {h : Heap} {v : Val} {s : Seg} (hr : Recv h v s) : addrOf v < h.length := by
  rcases hr.cases with ⟨r, i, rfl, rfl, hl⟩ | ⟨r, k, rfl, rfl, hl⟩
  · exact isList_lt hl
  · exact isObj_lt hl

theorem leafHeap_length (h : Heap) (v : Val) (s : Seg) (x : Val) : (leafHeap h v s x).length = h.length := by
  cases s <;> cases v <;> simp [leafHeap]

theorem leafHeap_ext (h : Heap) (v : Val) (s : Seg) (x : Val) : Ext h (leafHeap h v s x) (addrOf v) := by
  cases s <;> cases v <;> simp only [leafHeap, addrOf] <;>
    first | exact Ext.refl _ _ | exact Ext.setItems _ _ _ | exact Ext.setFields _ _ _

theorem leafHeap_navStep {h : Heap} {v : Val} {s : Seg} (x : Val) (hr : Recv h v s) :
    navStep (leafHeap h v s x) v s = some ((leafHeap h v s x).getVal x) := by
  rcases hr.cases with ⟨r, i, rfl, rfl, hl⟩ | ⟨r, k, rfl, rfl, hl⟩
  · rw [navStep_idx_list]
    simp only [leafHeap]
    rw [items_setItems_same _ hl, putAt_getElem?_self]
    rfl
  · rw [navStep_key_obj]
    simp only [leafHeap]
    rw [fields_setFields_same _ hl, lookup_setKV]
    simp

theorem leafHeap_wf {h : Heap} {v : Val} {s : Seg} {x : Val} (wf : HeapWF h) (hx : x.okIn h) :
    HeapWF (leafHeap h v s x) := by
  cases s with
  | key k =>
    cases v with
    | obj r =>
      refine wf.setFields _ _ (fun kv hkv => ?_)
      rcases mem_setKV hkv with e | hm
      · rw [e]; exact hx
      · exact (wf r.addr).2 kv hm
    | _ => exact wf
  | idx i =>
    cases v with
    | list r =>
      refine wf.setItems _ _ (fun y hy => ?_)
      rcases mem_putAt hy with e | e | hm
      · rw [e]; exact hx
      · rw [e]; trivial
      · exact (wf r.addr).1 y hm
    | _ => exact wf


/-! ## the shape of one descent step -/

theorem stepL_pad (h : Heap) (a : Nat) (i : Int) (b : Bool) (hl : h.isList a = true)
    (hi : ((h.items a).length : Int) ≤ i) :
    TF.stepL h a i b =
      ((h ++ [mkCell b]).setItems a
        (h.items a ++ List.replicate (i.toNat - (h.items a).length) .nil ++ [mkRef b h.length]),
       .ok h.length) := by
  have ha := isList_lt hl
  have hl' : (h ++ [mkCell b]).isList a = true := by rw [isList_append_old h _ ha]; exact hl
  have hit : (h ++ [mkCell b]).items a = h.items a := items_append_old h _ ha
  have hc : (i - ((h.items a).length : Int)).toNat = i.toNat - (h.items a).length := by omega
  unfold TF.stepL
  simp only [L.count]
  rw [if_pos (by omega)]
  simp only [TF.padNil, hc]
  have e1 : (if b = true then Cell.obj [] 0 else Cell.list [] 0) = mkCell b := rfl
  have e2 : (if b = true then Val.obj ⟨h.length, 0⟩ else Val.list ⟨h.length, 0⟩) = mkRef b h.length := rfl
  rw [e1, e2, hit, items_setItems_same _ hl', setItems_setItems]

theorem stepL_reuse (h : Heap) (a : Nat) (i : Int) (b : Bool) (x : Val) (h0 : 0 ≤ i)
    (hx : (h.items a)[i.toNat]? = some x) (hk : x.kind = wantKind b) :
    TF.stepL h a i b = (h, .ok (addrOf x)) := by
  have hlt : i.toNat < (h.items a).length := (List.getElem?_eq_some_iff.1 hx).1
  have ht : L.typeOf h a i = x.kind := by
    rw [L.typeOf_in h a i h0 hlt]
    rw [List.getElem?_eq_getElem hlt] at hx
    cases hx; rfl
  unfold TF.stepL
  simp only [L.count]
  rw [if_neg (by omega)]
  simp only [ht, hk]
  have : (wantKind b == if b = true then Kind.object else Kind.list) = true := by cases b <;> rfl
  rw [if_pos this, hx]
  cases b <;> cases x <;> simp [wantKind, Val.kind] at hk <;> rfl

theorem stepL_replace (h : Heap) (a : Nat) (i : Int) (b : Bool) (x : Val) (h0 : 0 ≤ i)
    (hx : (h.items a)[i.toNat]? = some x) (hk : x.kind ≠ wantKind b) :
    TF.stepL h a i b =
      ((h ++ [mkCell b]).setItems a ((h.items a).set i.toNat (mkRef b h.length)), .ok h.length) := by
  have hlt : i.toNat < (h.items a).length := (List.getElem?_eq_some_iff.1 hx).1
  have ht : L.typeOf h a i = x.kind := by
    rw [L.typeOf_in h a i h0 hlt]
    rw [List.getElem?_eq_getElem hlt] at hx
    cases hx; rfl
  unfold TF.stepL
  simp only [L.count]
  rw [if_neg (by omega)]
  simp only [ht]
  have : (x.kind == if b = true then Kind.object else Kind.list) = false := by
    cases b <;> simpa [wantKind] using hk
  rw [if_neg (by simp [this]), if_neg (by omega)]
  rfl

theorem stepO_reuse (h : Heap) (a : Nat) (k : Str) (b : Bool) (x : Val)
    (hx : lookup (h.fields a) k = some x) (hk : x.kind = wantKind b) :
    TF.stepO h a k b = (h, addrOf x) := by
  unfold TF.stepO
  simp only [O.typeOf, hx, hk]
  have : (wantKind b == if b = true then Kind.object else Kind.list) = true := by cases b <;> rfl
  rw [if_pos this]
  cases b <;> cases x <;> simp [wantKind, Val.kind] at hk <;> rfl

theorem stepO_new (h : Heap) (a : Nat) (k : Str) (b : Bool)
    (hx : ∀ x, lookup (h.fields a) k = some x → x.kind ≠ wantKind b) :
    TF.stepO h a k b =
      ((h ++ [mkCell b]).setFields a (setKV (h.fields a) k (mkRef b h.length)), h.length) := by
  unfold TF.stepO
  have : (O.typeOf h a k == if b = true then Kind.object else Kind.list) = false := by
    unfold O.typeOf
    cases hl : lookup (h.fields a) k with
    | none => cases b <;> rfl
    | some x => have := hx x hl; cases b <;> simpa [wantKind] using this
  rw [if_neg (by simp [this])]
  rfl


/-- in every case a list step touches only the receiver cell and appends at most one cell -/
theorem stepL_ext (h : Heap) (a : Nat) (i : Int) (b : Bool) (hl : h.isList a = true) (h0 : 0 ≤ i) :
    Ext h (TF.stepL h a i b).1 a ∧ (TF.stepL h a i b).1.length ≤ h.length + 1 := by
  cases hx : (h.items a)[i.toNat]? with
  | none =>
    have hlen : (h.items a).length ≤ i.toNat := by
      cases Nat.lt_or_ge i.toNat (h.items a).length with
      | inl hlt => rw [List.getElem?_eq_getElem hlt] at hx; cases hx
      | inr hge => exact hge
    rw [stepL_pad h a i b hl (by omega)]
    exact ⟨((Ext0.append h _).toExt a).trans (Ext.setItems _ a _), by simp⟩
  | some x =>
    by_cases hk : x.kind = wantKind b
    · rw [stepL_reuse h a i b x h0 hx hk]
      exact ⟨Ext.refl h a, by simp⟩
    · rw [stepL_replace h a i b x h0 hx hk]
      exact ⟨((Ext0.append h _).toExt a).trans (Ext.setItems _ a _), by simp⟩

theorem stepO_ext (h : Heap) (a : Nat) (k : Str) (b : Bool) :
    Ext h (TF.stepO h a k b).1 a ∧ (TF.stepO h a k b).1.length ≤ h.length + 1 := by
  cases hx : lookup (h.fields a) k with
  | none =>
    rw [stepO_new h a k b (by intro x hx'; rw [hx] at hx'; cases hx')]
    exact ⟨((Ext0.append h _).toExt a).trans (Ext.setFields _ a _), by simp⟩
  | some x =>
    by_cases hk : x.kind = wantKind b
    · rw [stepO_reuse h a k b x hx hk]
      exact ⟨Ext.refl h a, by simp⟩
    · rw [stepO_new h a k b (by intro y hy; rw [hx] at hy; cases hy; exact hk)]
      exact ⟨((Ext0.append h _).toExt a).trans (Ext.setFields _ a _), by simp⟩

/-! ## one step of SetTF on a rendered path -/

def Seg.isKey : Seg → Bool
  | .key _ => true
  | .idx _ => false

theorem wantKind_isKey (s : Seg) : wantKind s.isKey = s.kind := by cases s <;> rfl

/-- the descent step of SetTF from receiver `v` along `s`, wanting an object (`b`) or a list -/
def stepV (h : Heap) (v : Val) (s : Seg) (b : Bool) : Heap × Out Nat :=
  match s with
  | .idx i => (match v with
    | .list r => TF.stepL h r.addr (i : Int) b
    | _ => (h, .panic .badTF))
  | .key k => (match v with
    | .obj r => ((TF.stepO h r.addr k b).1, .ok (TF.stepO h r.addr k b).2)
    | _ => (h, .panic .badTF))

/-- forget the fluent result of a mutator -/
def outUnit {α} (p : Heap × Out α) : Heap × Out Unit :=
  (p.1, match p.2 with | .ok _ => .ok () | .panic k => .panic k)

/-- what SetTF does at the last segment -/
def setLeaf (h : Heap) (v : Val) (s : Seg) (g : GoVal) : Heap × Out Unit :=
  match s with
  | .idx i => (match v with
    | .list r =>
      if (i : Int) ≥ L.count h r.addr then
        outUnit (L.add (TF.padNil h r.addr ((i : Int) - L.count h r.addr).toNat) r.addr [g])
      else outUnit (L.replace h r.addr (i : Int) g)
    | _ => (h, .panic .badTF))
  | .key k => (match v with
    | .obj r => outUnit (O.set h r.addr [(some k, g)] false)
    | _ => (h, .panic .badTF))

theorem outUnit_eq {α} (p : Heap × Out α) :
    (match p with | (h1, .ok _) => (h1, Out.ok ()) | (h1, .panic k) => (h1, Out.panic k)) = outUnit p := by
  obtain ⟨h1, o⟩ := p
  cases o <;> rfl

theorem setV_cons (n : Nat) (h : Heap) (v : Val) (s : Seg) (q : List Seg) (g : GoVal) (hs : s.Valid) :
    setV (n + 1) h v (render (s :: q)) g =
      match q with
      | [] => setLeaf h v s g
      | s' :: _ =>
        match stepV h v s s'.isKey with
        | (h1, .panic p) => (h1, .panic p)
        | (h1, .ok c) => setV n h1 (mkRef s'.isKey c) (render q) g := by
  cases v with
  | list r =>
    cases s with
    | key k =>
      have : TF.strip '#' (render (Seg.key k :: q)) = none := by
        rw [strip_render _ _ _ hs]; simp [Seg.sigil]
      cases q <;> simp [setV, TF.setL, this, setLeaf, stepV]
    | idx i =>
      have hst : TF.strip '#' (render (Seg.idx i :: q)) = some ((Seg.idx i).text ++ render q) := by
        rw [strip_render _ _ _ hs]; simp [Seg.sigil]
      have hsp := split_render (.idx i) q hs
      have hp : TF.parseIdx (Seg.idx i).text = some (i : Int) := parseIdx_toDigits i hs
      match q with
      | [] =>
        simp only [setV, TF.setL, hst, hsp, hp, setLeaf]
        generalize L.add (TF.padNil h r.addr ((i : Int) - L.count h r.addr).toNat) r.addr [g] = p1
        generalize L.replace h r.addr (i : Int) g = p2
        obtain ⟨h1, o1⟩ := p1
        obtain ⟨h2, o2⟩ := p2
        cases o1 <;> cases o2 <;> rfl
      | .key k' :: q' =>
        simp only [setV, TF.setL, hst, hsp, hp, stepV, Seg.isKey]
        rfl
      | .idx i' :: q' =>
        simp only [setV, TF.setL, hst, hsp, hp, stepV, Seg.isKey]
        rfl
  | obj r =>
    cases s with
    | idx i =>
      have : TF.strip '.' (render (Seg.idx i :: q)) = none := by
        rw [strip_render _ _ _ hs]; simp [Seg.sigil]
      cases q <;> simp [setV, TF.setO, this, setLeaf, stepV]
    | key k =>
      have hst : TF.strip '.' (render (Seg.key k :: q)) = some ((Seg.key k).text ++ render q) := by
        rw [strip_render _ _ _ hs]; simp [Seg.sigil]
      have hsp := split_render (.key k) q hs
      simp only [Seg.text] at hst hsp
      match q with
      | [] =>
        simp only [setV, TF.setO, hst, hsp, setLeaf]
        generalize O.set h r.addr [(some k, g)] false = p1
        obtain ⟨h1, o1⟩ := p1
        cases o1 <;> rfl
      | .key k' :: q' =>
        simp only [setV, TF.setO, hst, hsp, stepV, Seg.isKey]
        rfl
      | .idx i' :: q' =>
        simp only [setV, TF.setO, hst, hsp, stepV, Seg.isKey]
        rfl
  | nil => cases s <;> cases q <;> simp [setV, setLeaf, stepV]
  | bool b => cases s <;> cases q <;> simp [setV, setLeaf, stepV]
  | int b => cases s <;> cases q <;> simp [setV, setLeaf, stepV]
  | float b => cases s <;> cases q <;> simp [setV, setLeaf, stepV]
  | str b => cases s <;> cases q <;> simp [setV, setLeaf, stepV]


/-! ## the leaf store and the descent step in specification terms -/

theorem setLeaf_scalar {h : Heap} {v : Val} {s : Seg} {g : GoVal} (hr : Recv h v s)
    (hg : g.isScalar = true) : setLeaf h v s g = (leafHeap h v s (scalarVal g), .ok ()) := by
  rcases hr.cases with ⟨r, i, rfl, rfl, hl⟩ | ⟨r, k, rfl, rfl, hl⟩
  · have hcnt := L.count_eq h r.addr
    simp only [setLeaf, leafHeap, putAt]
    by_cases hi : i < (h.items r.addr).length
    · rw [if_neg (by omega), if_pos hi, L.replace_scalar h r.addr (i : Int) g hg (by omega) (by omega)]
      simp [outUnit]
    · rw [if_pos (by omega), if_neg hi]
      have hc : ((i : Int) - L.count h r.addr).toNat = i - (h.items r.addr).length := by omega
      rw [L.add_scalars _ _ [g] (by simpa using hg)]
      simp only [TF.padNil, hc, items_setItems_same _ hl, setItems_setItems]
      simp [outUnit]
  · simp only [setLeaf, leafHeap, O.set, O.setLoop, parseVal_scalar h hg]
    simp [outUnit]

theorem O_set_single_ext (h : Heap) (a : Nat) (k : Str) (g : GoVal) :
    Ext h (O.set h a [(some k, g)] false).1 a := by
  have e0 := parseVal_ext0 h g
  simp only [O.set, O.setLoop]
  cases hp : parseVal h g with
  | mk h1 o =>
    rw [hp] at e0
    cases o with
    | panic p => exact e0.toExt a
    | ok x => exact (e0.toExt a).trans (Ext.setFields h1 a _)

theorem outUnit_fst {α} (p : Heap × Out α) : (outUnit p).1 = p.1 := rfl

theorem setLeaf_ext (h : Heap) (v : Val) (s : Seg) (g : GoVal) : Ext h (setLeaf h v s g).1 (addrOf v) := by
  cases s with
  | idx i =>
    cases v with
    | list r =>
      simp only [setLeaf, addrOf]
      split
      · rw [outUnit_fst]
        exact (Ext.setItems h r.addr _).trans (L.add_ext _ _ _)
      · rw [outUnit_fst]
        exact L.replace_ext _ _ _ _
    | _ => exact Ext.refl _ _
  | key k =>
    cases v with
    | obj r =>
      simp only [setLeaf, addrOf, outUnit_fst]
      exact O_set_single_ext h r.addr k g
    | _ => exact Ext.refl _ _

theorem items_leafHeap_append {h : Heap} {r : Ref} (c : Cell) (hl : h.isList r.addr = true) :
    (h ++ [c]).items r.addr = h.items r.addr := items_append_old h c (isList_lt hl)

/-- the two ways a descent step goes: the existing container of the wanted kind is reused and
the heap is untouched, or a new container is allocated at `h.length` and stored in the slot -/
theorem stepV_cases {h : Heap} {v : Val} {s : Seg} (wf : HeapWF h) (hr : Recv h v s) (b : Bool) :
    (∃ w, navStep h v s = some w ∧ w.kind = wantKind b ∧ w.okIn h ∧
        stepV h v s b = (h, .ok (addrOf w))) ∨
    ((∀ w, navStep h v s = some w → w.kind ≠ wantKind b) ∧
        stepV h v s b = (leafHeap (h ++ [mkCell b]) v s (mkRef b h.length), .ok h.length)) := by
  rcases hr.cases with ⟨r, i, rfl, rfl, hl⟩ | ⟨r, k, rfl, rfl, hl⟩
  · have hit := items_leafHeap_append (mkCell b) hl
    simp only [stepV, leafHeap, navStep_idx_list, hit]
    cases hx : (h.items r.addr)[i]? with
    | none =>
      have hlen : (h.items r.addr).length ≤ i := by
        cases Nat.lt_or_ge i (h.items r.addr).length with
        | inl hlt => rw [List.getElem?_eq_getElem hlt] at hx; cases hx
        | inr hge => exact hge
      refine Or.inr ⟨by simp, ?_⟩
      rw [stepL_pad h r.addr (i : Int) b hl (by omega)]
      simp only [putAt, if_neg (Nat.not_lt.2 hlen), Int.toNat_natCast]
    | some x =>
      have hxi : (h.items r.addr)[(i : Int).toNat]? = some x := by simpa using hx
      have hlt : i < (h.items r.addr).length := (List.getElem?_eq_some_iff.1 hx).1
      by_cases hk : x.kind = wantKind b
      · refine Or.inl ⟨h.getVal x, rfl, by rw [getVal_kind]; exact hk, ?_, ?_⟩
        · exact okIn_getVal ((wf r.addr).1 x (List.mem_of_getElem? hx))
        · rw [stepL_reuse h r.addr (i : Int) b x (by omega) hxi hk, addrOf_getVal]
      · refine Or.inr ⟨?_, ?_⟩
        · intro w hw
          simp only [Option.map_some, Option.some.injEq] at hw
          rw [← hw, getVal_kind]; exact hk
        · rw [stepL_replace h r.addr (i : Int) b x (by omega) hxi hk]
          simp only [putAt, if_pos hlt, Int.toNat_natCast]
  · have hit : (h ++ [mkCell b]).fields r.addr = h.fields r.addr := fields_append_old h _ (isObj_lt hl)
    simp only [stepV, leafHeap, navStep_key_obj, hit]
    cases hx : lookup (h.fields r.addr) k with
    | none =>
      refine Or.inr ⟨by simp, ?_⟩
      rw [stepO_new h r.addr k b (by intro x hx'; rw [hx] at hx'; cases hx')]
    | some x =>
      by_cases hk : x.kind = wantKind b
      · refine Or.inl ⟨h.getVal x, rfl, by rw [getVal_kind]; exact hk, ?_, ?_⟩
        · exact okIn_getVal ((wf r.addr).2 (k, x) (mem_of_lookup hx))
        · rw [stepO_reuse h r.addr k b x hx hk, addrOf_getVal]
      · refine Or.inr ⟨?_, ?_⟩
        · intro w hw
          simp only [Option.map_some, Option.some.injEq] at hw
          rw [← hw, getVal_kind]; exact hk
        · rw [stepO_new h r.addr k b (by intro y hy; rw [hx] at hy; cases hy; exact hk)]


/-! ## the trail: the existing cells SetTF visits -/

/-- addresses of the receivers SetTF is called on while it follows existing containers of the
right kind; after the first newly created container only new cells are visited -/
def trail (h : Heap) (v : Val) : List Seg → List Nat
  | [] => []
  | s :: q => addrOf v :: (match q with
    | [] => []
    | s' :: _ => (match navStep h v s with
      | some w => if w.kind = s'.kind then trail h w q else []
      | none => []))

theorem trail_canon (h : Heap) (v : Val) (p : List Seg) : trail h (canon v) p = trail h v p := by
  cases p with
  | nil => rfl
  | cons s q => simp only [trail, addrOf_canon, navStep_canon]

theorem head_mem_trail (h : Heap) (v : Val) (s : Seg) (q : List Seg) : addrOf v ∈ trail h v (s :: q) := by
  simp [trail]

theorem trail_reuse {h : Heap} {v w : Val} {s s' : Seg} (q : List Seg) (hn : navStep h v s = some w)
    (hk : w.kind = s'.kind) : trail h v (s :: s' :: q) = addrOf v :: trail h w (s' :: q) := by
  simp only [trail, hn, hk, if_true]

theorem trail_of_none {h : Heap} {v : Val} {s : Seg} (q : List Seg) (hn : navStep h v s = none) :
    trail h v (s :: q) = [addrOf v] := by
  cases q <;> simp [trail, hn]

/-! ## after a creating step -/

theorem wf_append_mkCell {h : Heap} (wf : HeapWF h) (b : Bool) : HeapWF (h ++ [mkCell b]) := by
  cases b
  · exact wf.append_list [] 0 (by simp)
  · exact wf.append_obj [] 0 (by simp)

theorem mkRef_okIn_append (h : Heap) (b : Bool) : (mkRef b h.length).okIn (h ++ [mkCell b]) := by
  cases b <;> simp [mkRef, mkCell, Val.okIn]

theorem Recv.append {h : Heap} {v : Val} {s : Seg} (hr : Recv h v s) (c : Cell) : Recv (h ++ [c]) v s :=
  ⟨Val.okIn_mono (Ext0.append h c).mono hr.1, hr.2⟩

structure Created (h h1 : Heap) (v : Val) (s : Seg) (b : Bool) : Prop where
  len : h1.length = h.length + 1
  newCell : h1[h.length]? = some (mkCell b)
  ext : Ext h h1 (addrOf v)
  wf : HeapWF h1
  nav : navStep h1 v s = some (h1.getVal (mkRef b h.length))

theorem created {h : Heap} {v : Val} {s : Seg} (wf : HeapWF h) (hr : Recv h v s) (b : Bool) :
    Created h (leafHeap (h ++ [mkCell b]) v s (mkRef b h.length)) v s b := by
  have hlt := hr.lt
  have e1 := leafHeap_ext (h ++ [mkCell b]) v s (mkRef b h.length)
  refine ⟨by rw [leafHeap_length]; simp, ?_, ((Ext0.append h _).toExt _).trans e1, ?_, ?_⟩
  · rw [e1.other h.length (by simp) (by omega)]; simp
  · exact leafHeap_wf (wf_append_mkCell wf b) (mkRef_okIn_append h b)
  · exact leafHeap_navStep _ (hr.append _)

theorem Created.recv {h h1 : Heap} {v : Val} {s : Seg} {b : Bool} (c : Created h h1 v s b) (s' : Seg)
    (hk : wantKind b = s'.kind) : Recv h1 (mkRef b h.length) s' := by
  refine ⟨?_, by rw [mkRef_kind, hk]⟩
  have := c.newCell
  cases b <;> simp [mkRef, mkCell, Val.okIn, isList, isObj, this]

theorem Created.fresh {h h1 : Heap} {v : Val} {s : Seg} {b : Bool} (c : Created h h1 v s b) (s' : Seg) :
    navStep h1 (mkRef b h.length) s' = none := by
  have := c.newCell
  cases b <;> cases s' <;>
    simp [mkRef, mkCell, navStep, O.get, L.get, L.count, Heap.fields, Heap.items, this]


/-! ## frame: only trail cells and new cells change -/

theorem stepV_mismatch {h : Heap} {v : Val} {s : Seg} (b : Bool) (hk : v.kind ≠ s.kind) :
    stepV h v s b = (h, .panic .badTF) := by
  cases s <;> cases v <;> simp [Val.kind, Seg.kind] at hk <;> rfl

theorem set_frame_V (g : GoVal) : ∀ (p : List Seg), p ≠ [] → ValidPath p →
    ∀ (fuel : Nat) (h : Heap) (v : Val), HeapWF h → v.okIn h → (render p).length < fuel →
    Mono h (setV fuel h v (render p) g).1 ∧
    ∀ b, b < h.length → b ∉ trail h v p → (setV fuel h v (render p) g).1[b]? = h[b]? := by
  intro p
  induction p with
  | nil => intro hne; exact absurd rfl hne
  | cons s q ih =>
    intro _ hv fuel h v wf hok hf
    cases fuel with
    | zero => omega
    | succ n =>
      rw [setV_cons n h v s q g hv.head]
      cases q with
      | nil =>
        have e := setLeaf_ext h v s g
        refine ⟨e.mono, fun b hb hnb => e.other b hb ?_⟩
        intro hc; exact hnb (by rw [hc]; exact head_mem_trail h v s [])
      | cons s' q' =>
        have hl := render_length_cons s (s' :: q') hv.head
        by_cases hk : v.kind = s.kind
        · rcases stepV_cases wf ⟨hok, hk⟩ s'.isKey with ⟨w, hw, hwk, hwo, hst⟩ | ⟨hno, hst⟩
          · rw [wantKind_isKey] at hwk
            simp only [hst]
            rw [mkRef_of_kind (by rw [wantKind_isKey]; exact hwk), setV_canon]
            obtain ⟨m, fr⟩ := ih (by simp) hv.tail n h w wf hwo (by omega)
            refine ⟨m, fun b hb hnb => fr b hb ?_⟩
            rw [trail_reuse q' hw hwk] at hnb
            exact fun hc => hnb (List.mem_cons_of_mem _ hc)
          · have c := created wf ⟨hok, hk⟩ s'.isKey
            simp only [hst]
            have hr1 := c.recv s' (wantKind_isKey s')
            obtain ⟨m, fr⟩ := ih (by simp) hv.tail n _ (mkRef s'.isKey h.length) c.wf hr1.1
              (by omega)
            refine ⟨c.ext.mono.trans m, fun b hb hnb => ?_⟩
            have hba : b ≠ addrOf v := fun hc => hnb (by rw [hc]; exact head_mem_trail h v s _)
            rw [fr b (by rw [c.len]; omega) ?_, c.ext.other b hb hba]
            rw [trail_of_none q' (c.fresh s'), addrOf_mkRef]
            simp; omega
        · simp only [stepV_mismatch s'.isKey hk]
          exact ⟨Mono.refl h, fun _ _ _ => trivial⟩

/-! ## set, then get -/

theorem set_get_V (g : GoVal) (hg : g.isScalar = true) : ∀ (p : List Seg), p ≠ [] → ValidPath p →
    ∀ (fuel : Nat) (h : Heap) (v : Val), HeapWF h → v.okIn h → (∀ s ∈ p.head?, v.kind = s.kind) →
    (trail h v p).Nodup → (render p).length < fuel →
    (setV fuel h v (render p) g).2 = .ok () ∧
    getV fuel (setV fuel h v (render p) g).1 v (render p) =
      .ok ((setV fuel h v (render p) g).1.getVal (scalarVal g)) := by
  intro p
  induction p with
  | nil => intro hne; exact absurd rfl hne
  | cons s q ih =>
    intro _ hv fuel h v wf hok hk hnd hf
    have hk : v.kind = s.kind := hk s (by simp)
    have hr : Recv h v s := ⟨hok, hk⟩
    cases fuel with
    | zero => omega
    | succ n =>
      rw [setV_cons n h v s q g hv.head]
      cases q with
      | nil =>
        simp only [setLeaf_scalar hr hg]
        refine ⟨trivial, ?_⟩
        rw [getV_cons_some n _ v _ s [] hv.head (leafHeap_navStep (scalarVal g) hr)]
      | cons s' q' =>
        have hl := render_length_cons s (s' :: q') hv.head
        rcases stepV_cases wf hr s'.isKey with ⟨w, hw, hwk, hwo, hst⟩ | ⟨hno, hst⟩
        · rw [wantKind_isKey] at hwk
          simp only [hst]
          rw [mkRef_of_kind (by rw [wantKind_isKey]; exact hwk), setV_canon]
          rw [trail_reuse q' hw hwk, List.nodup_cons] at hnd
          obtain ⟨hok', hget⟩ := ih (by simp) hv.tail n h w wf hwo
            (by intro x hx; simp at hx; rw [← hx]; exact hwk) hnd.2 (by omega)
          obtain ⟨m, fr⟩ := set_frame_V g (s' :: q') (by simp) hv.tail n h w wf hwo (by omega)
          refine ⟨hok', ?_⟩
          obtain ⟨w', hw', hcw⟩ := navStep_congr (fr (addrOf v) hr.lt hnd.1) hw
          have hwk' : w'.kind = s'.kind := by rw [← canon_kind, hcw, canon_kind]; exact hwk
          rw [getV_cons_some n _ v w' s _ hv.head hw']
          simp only [hwk', if_true]
          rw [← getV_canon, hcw, getV_canon]
          exact hget
        · have c := created wf hr s'.isKey
          simp only [hst]
          have hr1 := c.recv s' (wantKind_isKey s')
          have htr : trail (leafHeap (h ++ [mkCell s'.isKey]) v s (mkRef s'.isKey h.length))
              (mkRef s'.isKey h.length) (s' :: q') = [h.length] := by
            rw [trail_of_none q' (c.fresh s'), addrOf_mkRef]
          obtain ⟨hok', hget⟩ := ih (by simp) hv.tail n _ (mkRef s'.isKey h.length) c.wf hr1.1
            (by intro x hx; simp at hx; rw [← hx]; exact hr1.2) (by rw [htr]; simp) (by omega)
          obtain ⟨m, fr⟩ := set_frame_V g (s' :: q') (by simp) hv.tail n _ (mkRef s'.isKey h.length)
            c.wf hr1.1 (by omega)
          refine ⟨hok', ?_⟩
          have hlt := hr.lt
          obtain ⟨w', hw', hcw⟩ := navStep_congr
            (fr (addrOf v) (by rw [c.len]; omega) (by rw [htr]; simp; omega)) c.nav
          rw [canon_getVal, canon_mkRef] at hcw
          have hwk' : w'.kind = s'.kind := by
            rw [← canon_kind, hcw, mkRef_kind, wantKind_isKey]
          rw [getV_cons_some n _ v w' s _ hv.head hw']
          simp only [hwk', if_true]
          rw [← getV_canon, hcw]
          exact hget


/-! ## inside a visited cell only the addressed slot changes -/

/-- every slot of the container `v` other than the one `s` addresses is the same in `h'` as in `h`
(for a list: every position that existed) -/
def SlotsKept (h h' : Heap) (v : Val) (s : Seg) : Prop :=
  match s with
  | .idx i => ∀ j, j ≠ i → j < (h.items (addrOf v)).length →
      (h'.items (addrOf v))[j]? = (h.items (addrOf v))[j]?
  | .key k => ∀ k', k' ≠ k → lookup (h'.fields (addrOf v)) k' = lookup (h.fields (addrOf v)) k'

theorem SlotsKept.congr {h h' g g' : Heap} {v : Val} {s : Seg} (e : g[addrOf v]? = h[addrOf v]?)
    (e' : g'[addrOf v]? = h'[addrOf v]?) (hs : SlotsKept h h' v s) : SlotsKept g g' v s := by
  cases s with
  | idx i =>
    intro j hj hjl
    rw [items_congr e] at hjl ⊢
    rw [items_congr e']
    exact hs j hj hjl
  | key k =>
    intro k' hk'
    rw [fields_congr e, fields_congr e']
    exact hs k' hk'

theorem SlotsKept.of_same {h h' : Heap} {v : Val} {s : Seg} (e : h'[addrOf v]? = h[addrOf v]?) :
    SlotsKept h h' v s := by
  cases s with
  | idx i => intro j _ _; rw [items_congr e]
  | key k => intro k' _; rw [fields_congr e]

theorem leafHeap_slots {h : Heap} {v : Val} {s : Seg} (x : Val) (hr : Recv h v s) :
    SlotsKept h (leafHeap h v s x) v s := by
  rcases hr.cases with ⟨r, i, rfl, rfl, hl⟩ | ⟨r, k, rfl, rfl, hl⟩
  · intro j hj hjl
    simp only [leafHeap, addrOf] at hjl ⊢
    rw [items_setItems_same _ hl, putAt_getElem?_ne _ _ _ _ hj hjl]
  · intro k' hk'
    simp only [leafHeap, addrOf]
    rw [fields_setFields_same _ hl, lookup_setKV, if_neg hk']

theorem set_slot_root (g : GoVal) (hg : g.isScalar = true) (s : Seg) (q : List Seg)
    (hv : ValidPath (s :: q)) (fuel : Nat) (h : Heap) (v : Val) (wf : HeapWF h) (hr : Recv h v s)
    (hnd : (trail h v (s :: q)).Nodup) (hf : (render (s :: q)).length < fuel) :
    SlotsKept h (setV fuel h v (render (s :: q)) g).1 v s := by
  cases fuel with
  | zero => omega
  | succ n =>
    rw [setV_cons n h v s q g hv.head]
    cases q with
    | nil =>
      simp only [setLeaf_scalar hr hg]
      exact leafHeap_slots _ hr
    | cons s' q' =>
      have hl := render_length_cons s (s' :: q') hv.head
      rcases stepV_cases wf hr s'.isKey with ⟨w, hw, hwk, hwo, hst⟩ | ⟨hno, hst⟩
      · rw [wantKind_isKey] at hwk
        simp only [hst]
        rw [mkRef_of_kind (by rw [wantKind_isKey]; exact hwk), setV_canon]
        rw [trail_reuse q' hw hwk, List.nodup_cons] at hnd
        obtain ⟨m, fr⟩ := set_frame_V g (s' :: q') (by simp) hv.tail n h w wf hwo (by omega)
        exact SlotsKept.of_same (fr (addrOf v) hr.lt hnd.1)
      · have c := created wf hr s'.isKey
        simp only [hst]
        have hr1 := c.recv s' (wantKind_isKey s')
        have hlt := hr.lt
        obtain ⟨m, fr⟩ := set_frame_V g (s' :: q') (by simp) hv.tail n _ (mkRef s'.isKey h.length)
          c.wf hr1.1 (by omega)
        have e' := fr (addrOf v) (by rw [c.len]; omega)
          (by rw [trail_of_none q' (c.fresh s'), addrOf_mkRef]; simp; omega)
        exact (leafHeap_slots (mkRef s'.isKey h.length) (hr.append (mkCell s'.isKey))).congr
          (getElem?_append_old h _ hlt).symm e'

/-- the same for every existing cell the path goes through -/
theorem set_slot_path (g : GoVal) (hg : g.isScalar = true) (s : Seg) (post : List Seg) :
    ∀ (pre : List Seg), ValidPath (pre ++ s :: post) → ∀ (fuel : Nat) (h : Heap) (v c : Val),
    HeapWF h → v.okIn h → navigate h v pre = some c → c.kind = s.kind →
    (trail h v (pre ++ s :: post)).Nodup → (render (pre ++ s :: post)).length < fuel →
    SlotsKept h (setV fuel h v (render (pre ++ s :: post)) g).1 c s := by
  intro pre
  induction pre with
  | nil =>
    intro hv fuel h v c wf hok hn hk hnd hf
    simp only [navigate, Option.some.injEq] at hn
    subst hn
    exact set_slot_root g hg s post hv fuel h v wf ⟨hok, hk⟩ hnd hf
  | cons s0 pre' ih =>
    intro hv fuel h v c wf hok hn hk hnd hf
    obtain ⟨w, hw, hn'⟩ := navigate_cons_some hn
    have hvk : v.kind = s0.kind := navStep_kind hw
    cases fuel with
    | zero => omega
    | succ n =>
      simp only [List.cons_append] at hv hnd hf ⊢
      have hl := render_length_cons s0 (pre' ++ s :: post) hv.head
      rw [setV_cons n h v s0 _ g hv.head]
      cases hq : pre' ++ s :: post with
      | nil => simp at hq
      | cons s1 q1 =>
        have hwk : w.kind = s1.kind := by
          cases pre' with
          | nil =>
            simp only [navigate, Option.some.injEq] at hn'
            simp only [List.nil_append, List.cons.injEq] at hq
            rw [hn', hk, hq.1]
          | cons s1' pre'' =>
            simp only [List.cons_append, List.cons.injEq] at hq
            rw [← hq.1]
            exact navigate_kind hn'
        rw [hq] at hnd
        rcases stepV_cases wf ⟨hok, hvk⟩ s1.isKey with ⟨w2, hw2, hwk2, hwo, hst⟩ | ⟨hno, hst⟩
        · rw [hw] at hw2
          cases hw2
          simp only [hst]
          rw [mkRef_of_kind hwk2, setV_canon]
          rw [trail_reuse q1 hw hwk, List.nodup_cons] at hnd
          rw [← hq] at hnd ⊢
          exact ih hv.tail n h w c wf hwo hn' hk hnd.2 (by omega)
        · exact absurd (by rw [wantKind_isKey]; exact hwk) (hno w hw)


/-! ## fuel independence (arbitrary texts) -/

theorem set_fuel (g : GoVal) : ∀ (n m : Nat) (h : Heap) (a : Nat) (tf : Str), tf.length < n → tf.length < m →
    TF.setL n h a tf g = TF.setL m h a tf g ∧ TF.setO n h a tf g = TF.setO m h a tf g := by
  intro n
  induction n with
  | zero => intro m h a tf hn; omega
  | succ n ih =>
    intro m h a tf hn hm
    cases m with
    | zero => omega
    | succ m =>
      constructor
      · simp only [TF.setL]
        cases hs : TF.strip '#' tf with
        | none => rfl
        | some t =>
          obtain ⟨rfl, ht⟩ := strip_some hs
          simp only [List.length_cons] at hn hm
          cases hsp : TF.split t with
          | dot seg rest =>
            have hl := split_dot_length hsp
            have e : ∀ h1 b, TF.setO n h1 b rest g = TF.setO m h1 b rest g :=
              fun h1 b => (ih m h1 b rest (by omega) (by omega)).2
            simp only [hsp, e]
          | hash seg rest =>
            have hl := split_hash_length hsp
            have e : ∀ h1 b, TF.setL n h1 b rest g = TF.setL m h1 b rest g :=
              fun h1 b => (ih m h1 b rest (by omega) (by omega)).1
            simp only [hsp, e]
          | leaf seg => simp only [hsp]
      · simp only [TF.setO]
        cases hs : TF.strip '.' tf with
        | none => rfl
        | some t =>
          obtain ⟨rfl, ht⟩ := strip_some hs
          simp only [List.length_cons] at hn hm
          cases hsp : TF.split t with
          | dot seg rest =>
            have hl := split_dot_length hsp
            have e : ∀ h1 b, TF.setO n h1 b rest g = TF.setO m h1 b rest g :=
              fun h1 b => (ih m h1 b rest (by omega) (by omega)).2
            simp only [hsp, e]
          | hash seg rest =>
            have hl := split_hash_length hsp
            have e : ∀ h1 b, TF.setL n h1 b rest g = TF.setL m h1 b rest g :=
              fun h1 b => (ih m h1 b rest (by omega) (by omega)).1
            simp only [hsp, e]
          | leaf seg => simp only [hsp]

end TFP
end Anytype
