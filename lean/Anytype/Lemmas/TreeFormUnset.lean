/-
UnsetTF: the one-step equation on rendered paths, the resolved case (exactly the addressed
field / element is removed) and the unresolved case (heap unchanged), fuel independence.
-/
import Anytype.Lemmas.TreeFormGet
namespace Anytype
namespace TFP
open Heap

/-! ## small heap / association-list facts -/

theorem setFields_fields_self (h : Heap) (a : Nat) : h.setFields a (h.fields a) = h := by
  cases hl : h.isObj a
  · rw [setFields_of_not_isObj _ hl]
  · obtain ⟨zs, e, he⟩ := isObj_iff.1 hl
    have hlt := (List.getElem?_eq_some_iff.1 he).1
    simp only [setFields, fields, he]
    apply List.ext_getElem?
    intro i
    by_cases hi : i = a
    · subst hi; rw [he]; simp [hlt]
    · rw [List.getElem?_set_ne (by omega)]

theorem setFields_setFields (h : Heap) (a : Nat) (xs ys : List (Str × Val)) :
    (h.setFields a xs).setFields a ys = h.setFields a ys := by
  cases hl : h.isObj a
  · rw [setFields_of_not_isObj _ hl, setFields_of_not_isObj _ hl]
  · obtain ⟨zs, e, he⟩ := isObj_iff.1 hl
    have hlt := (List.getElem?_eq_some_iff.1 he).1
    simp only [setFields, he]
    simp [hlt]

theorem delKV_of_lookup_none {α} (kvs : List (Str × α)) (k : Str) (hl : lookup kvs k = none) :
    delKV kvs k = kvs := by
  induction kvs with
  | nil => rfl
  | cons kv rest ih =>
    obtain ⟨k', v'⟩ := kv
    simp only [lookup] at hl
    split at hl
    · cases hl
    · next hk => simp only [delKV, hk, Bool.false_eq_true, if_false, ih hl]

theorem O_unset_single (h : Heap) (a : Nat) (k : Str) :
    (O.unset h a [k]).1 = h.setFields a (delKV (h.fields a) k) := by
  simp [O.unset]

/-! ## one step of UnsetTF on a rendered path -/

/-- what UnsetTF does at the last segment -/
def unsetLeaf (h : Heap) (v : Val) : Seg → Heap × Out Unit
  | .key k => match v with
    | .obj r => (h.setFields r.addr (delKV (h.fields r.addr) k), .ok ())
    | _ => (h, .panic .badTF)
  | .idx i => match v with
    | .list r => (match L.delete h r.addr [(i : Int)] with
      | (h1, .ok _) => (h1, .ok ())
      | (h1, .panic p) => (h1, .panic p))
    | _ => (h, .panic .badTF)

theorem unsetV_cons (n : Nat) (h : Heap) (v : Val) (s : Seg) (q : List Seg) (hs : s.Valid) :
    unsetV (n + 1) h v (render (s :: q)) =
      match q with
      | [] => unsetLeaf h v s
      | s' :: _ =>
        match getStep h v s with
        | .panic p => (h, .panic p)
        | .ok w => if w.kind = s'.kind then unsetV n h w (render q) else (h, .panic .notKind) := by
  cases v with
  | list r =>
    cases s with
    | key k =>
      have : TF.strip '#' (render (Seg.key k :: q)) = none := by
        rw [strip_render _ _ _ hs]; simp [Seg.sigil]
      cases q <;> simp [unsetV, TF.unsetL, this, getStep, unsetLeaf]
    | idx i =>
      have hst : TF.strip '#' (render (Seg.idx i :: q)) = some ((Seg.idx i).text ++ render q) := by
        rw [strip_render _ _ _ hs]; simp [Seg.sigil]
      have hsp := split_render (.idx i) q hs
      have hp : TF.parseIdx (Seg.idx i).text = some (i : Int) := parseIdx_toDigits i hs
      match q with
      | [] =>
        simp only [unsetV, TF.unsetL, hst, hsp, hp, unsetLeaf]
        cases L.delete h r.addr [(i : Int)] with
        | mk h1 o => cases o <;> rfl
      | .key k' :: q' =>
        simp only [unsetV, TF.unsetL, hst, hsp, hp, getStep, L.getK, Seg.kind]
        cases hg : L.get h r.addr (i : Int) with
        | panic p => rfl
        | ok w => cases w <;> simp [Val.kind]
      | .idx i' :: q' =>
        simp only [unsetV, TF.unsetL, hst, hsp, hp, getStep, L.getK, Seg.kind]
        cases hg : L.get h r.addr (i : Int) with
        | panic p => rfl
        | ok w => cases w <;> simp [Val.kind]
  | obj r =>
    cases s with
    | idx i =>
      have : TF.strip '.' (render (Seg.idx i :: q)) = none := by
        rw [strip_render _ _ _ hs]; simp [Seg.sigil]
      cases q <;> simp [unsetV, TF.unsetO, this, getStep, unsetLeaf]
    | key k =>
      have hst : TF.strip '.' (render (Seg.key k :: q)) = some ((Seg.key k).text ++ render q) := by
        rw [strip_render _ _ _ hs]; simp [Seg.sigil]
      have hsp := split_render (.key k) q hs
      simp only [Seg.text] at hst hsp
      match q with
      | [] => simp only [unsetV, TF.unsetO, hst, hsp, unsetLeaf, O_unset_single]
      | .key k' :: q' =>
        simp only [unsetV, TF.unsetO, hst, hsp, getStep, O.getK, Seg.kind]
        cases hg : O.get h r.addr k with
        | panic p => rfl
        | ok w => cases w <;> simp [Val.kind]
      | .idx i' :: q' =>
        simp only [unsetV, TF.unsetO, hst, hsp, getStep, O.getK, Seg.kind]
        cases hg : O.get h r.addr k with
        | panic p => rfl
        | ok w => cases w <;> simp [Val.kind]
  | nil => cases s <;> cases q <;> simp [unsetV, getStep, unsetLeaf]
  | bool b => cases s <;> cases q <;> simp [unsetV, getStep, unsetLeaf]
  | int b => cases s <;> cases q <;> simp [unsetV, getStep, unsetLeaf]
  | float b => cases s <;> cases q <;> simp [unsetV, getStep, unsetLeaf]
  | str b => cases s <;> cases q <;> simp [unsetV, getStep, unsetLeaf]


/-! ## resolved: exactly the addressed field / element goes -/

/-- the heap after removing what `last` addresses in the container `c` -/
def unsetSpec (h : Heap) (c : Val) : Seg → Heap
  | .key k => match c with
    | .obj r => h.setFields r.addr (delKV (h.fields r.addr) k)
    | _ => h
  | .idx i => match c with
    | .list r => h.setItems r.addr ((h.items r.addr).eraseIdx i)
    | _ => h

theorem getStep_of_navStep {h : Heap} {v w : Val} {s : Seg} (hn : navStep h v s = some w) :
    getStep h v s = .ok w := by
  rw [navStep_eq_getStep] at hn
  cases hg : getStep h v s with
  | panic p => simp [hg] at hn
  | ok w' => simp only [hg, Option.some.injEq] at hn; rw [hn]

theorem getStep_of_navStep_none {h : Heap} {v : Val} {s : Seg} (hn : navStep h v s = none) :
    ∃ p, getStep h v s = .panic p := by
  rw [navStep_eq_getStep] at hn
  cases hg : getStep h v s with
  | panic p => exact ⟨p, rfl⟩
  | ok w' => simp [hg] at hn

theorem unsetLeaf_resolved {h : Heap} {c x : Val} {last : Seg} (hn : navStep h c last = some x) :
    unsetLeaf h c last = (unsetSpec h c last, .ok ()) := by
  cases last with
  | key k => cases c <;> simp [navStep] at hn <;> rfl
  | idx i =>
    cases c with
    | list r =>
      rw [navStep_idx_list] at hn
      have hi : i < (h.items r.addr).length := by
        cases Nat.lt_or_ge i (h.items r.addr).length with
        | inl hlt => exact hlt
        | inr hc => rw [List.getElem?_eq_none hc] at hn; simp at hn
      simp only [unsetLeaf, unsetSpec]
      rw [L.delete_single h r.addr (i : Int) (by omega) (by omega)]
      simp
    | _ => simp [navStep] at hn

theorem navigate_append (h : Heap) (v : Val) (p q : List Seg) :
    navigate h v (p ++ q) = match navigate h v p with | none => none | some w => navigate h w q := by
  induction p generalizing v with
  | nil => rfl
  | cons s p ih =>
    simp only [List.cons_append, navigate]
    cases navStep h v s with
    | none => rfl
    | some w => exact ih w

theorem unset_ok_V (h : Heap) (last : Seg) (hl : last.Valid) : ∀ (q : List Seg), ValidPath q →
    ∀ (fuel : Nat) (v c x : Val), (render (q ++ [last])).length < fuel →
    navigate h v q = some c → navStep h c last = some x →
    unsetV fuel h v (render (q ++ [last])) = (unsetSpec h c last, .ok ()) := by
  intro q
  induction q with
  | nil =>
    intro _ fuel v c x hf hq hx
    simp only [navigate, Option.some.injEq] at hq
    subst hq
    cases fuel with
    | zero => omega
    | succ n =>
      rw [List.nil_append, unsetV_cons n h v last [] hl]
      exact unsetLeaf_resolved hx
  | cons s q' ih =>
    intro hv fuel v c x hf hq hx
    obtain ⟨w, hw, hq'⟩ := navigate_cons_some hq
    cases fuel with
    | zero => omega
    | succ n =>
      have hnav : navigate h w (q' ++ [last]) = some x := by
        rw [navigate_append, hq']; simp only [navigate, hx]
      have hlen := render_length_cons s (q' ++ [last]) hv.head
      rw [List.cons_append, unsetV_cons n h v s (q' ++ [last]) hv.head, getStep_of_navStep hw]
      cases hq'' : q' ++ [last] with
      | nil => simp at hq''
      | cons s' q'' =>
        rw [hq''] at hnav
        simp only [navigate_kind hnav, if_true]
        rw [← hq'']
        exact ih hv.tail n w c x (by simp only [List.cons_append] at hf; omega) hq' hx

/-! ## unresolved: the heap is left as it is -/

theorem unsetLeaf_unresolved {h : Heap} {v : Val} {s : Seg} (hn : navStep h v s = none) :
    (unsetLeaf h v s).1 = h := by
  cases s with
  | key k =>
    cases v with
    | obj r =>
      rw [navStep_key_obj] at hn
      have hl : lookup (h.fields r.addr) k = none := by
        cases hx : lookup (h.fields r.addr) k with
        | none => rfl
        | some x => simp [hx] at hn
      simp only [unsetLeaf, delKV_of_lookup_none _ _ hl, setFields_fields_self]
    | _ => rfl
  | idx i =>
    cases v with
    | list r =>
      rw [navStep_idx_list] at hn
      have hi : ¬ i < (h.items r.addr).length := by
        intro hc
        rw [List.getElem?_eq_getElem hc] at hn
        simp at hn
      simp only [unsetLeaf]
      rw [L.delete_single_out h r.addr (i : Int) (by omega)]
    | _ => rfl

theorem unset_no_V (h : Heap) : ∀ (p : List Seg), p ≠ [] → ValidPath p → ∀ (fuel : Nat) (v : Val),
    (render p).length < fuel → navigate h v p = none → (unsetV fuel h v (render p)).1 = h := by
  intro p
  induction p with
  | nil => intro hne; exact absurd rfl hne
  | cons s q ih =>
    intro _ hv fuel v hf hn
    cases fuel with
    | zero => omega
    | succ n =>
      rw [unsetV_cons n h v s q hv.head]
      cases q with
      | nil =>
        simp only [navigate] at hn
        cases hw : navStep h v s with
        | none => exact unsetLeaf_unresolved hw
        | some w => simp [hw] at hn
      | cons s' q' =>
        have hl := render_length_cons s (s' :: q') hv.head
        cases hw : navStep h v s with
        | none =>
          obtain ⟨pk, hp⟩ := getStep_of_navStep_none hw
          simp only [hp]
        | some w =>
          rw [navigate_cons_of_step _ hw] at hn
          simp only [getStep_of_navStep hw]
          by_cases hk : w.kind = s'.kind
          · simp only [hk, if_true]
            exact ih (by simp) hv.tail n w (by omega) hn
          · simp only [hk, if_false]


/-! ## fuel independence (arbitrary texts) -/

theorem unset_fuel : ∀ (n m : Nat) (h : Heap) (a : Nat) (tf : Str), tf.length < n → tf.length < m →
    TF.unsetL n h a tf = TF.unsetL m h a tf ∧ TF.unsetO n h a tf = TF.unsetO m h a tf := by
  intro n
  induction n with
  | zero => intro m h a tf hn; omega
  | succ n ih =>
    intro m h a tf hn hm
    cases m with
    | zero => omega
    | succ m =>
      constructor
      · simp only [TF.unsetL]
        cases hs : TF.strip '#' tf with
        | none => rfl
        | some t =>
          obtain ⟨rfl, ht⟩ := strip_some hs
          simp only [List.length_cons] at hn hm
          cases hsp : TF.split t with
          | dot seg rest =>
            have hl := split_dot_length hsp
            have e : ∀ b, TF.unsetO n h b rest = TF.unsetO m h b rest :=
              fun b => (ih m h b rest (by omega) (by omega)).2
            simp only [hsp, e]
          | hash seg rest =>
            have hl := split_hash_length hsp
            have e : ∀ b, TF.unsetL n h b rest = TF.unsetL m h b rest :=
              fun b => (ih m h b rest (by omega) (by omega)).1
            simp only [hsp, e]
          | leaf seg => simp only [hsp]
      · simp only [TF.unsetO]
        cases hs : TF.strip '.' tf with
        | none => rfl
        | some t =>
          obtain ⟨rfl, ht⟩ := strip_some hs
          simp only [List.length_cons] at hn hm
          cases hsp : TF.split t with
          | dot seg rest =>
            have hl := split_dot_length hsp
            have e : ∀ b, TF.unsetO n h b rest = TF.unsetO m h b rest :=
              fun b => (ih m h b rest (by omega) (by omega)).2
            simp only [hsp, e]
          | hash seg rest =>
            have hl := split_hash_length hsp
            have e : ∀ b, TF.unsetL n h b rest = TF.unsetL m h b rest :=
              fun b => (ih m h b rest (by omega) (by omega)).1
            simp only [hsp, e]
          | leaf seg => simp only [hsp]

end TFP
end Anytype
