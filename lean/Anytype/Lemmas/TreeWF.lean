/-
Well-formedness of value trees (the domain of C01/C02), the float-formatting contract,
and kind trees.
-/
import Anytype.Model.Parser
import Anytype.Spec.Json
namespace Anytype

/-! ### the domain: ints in range, floats finite, keys of every object pairwise distinct -/

mutual
def JVal.WF : JVal → Prop
  | .null => True
  | .bool _ => True
  | .int i => InRange i
  | .float f => f.isFinite = true
  | .str _ => True
  | .list xs => WFList xs
  | .obj kvs => (kvs.map Prod.fst).Nodup ∧ WFFields kvs
def WFList : List JVal → Prop
  | [] => True
  | x :: xs => x.WF ∧ WFList xs
def WFFields : List (Str × JVal) → Prop
  | [] => True
  | kv :: kvs => kv.2.WF ∧ WFFields kvs
end

theorem WFList_iff (xs : List JVal) : WFList xs ↔ ∀ x ∈ xs, x.WF := by
  induction xs with
  | nil => simp [WFList]
  | cons x xs ih => simp [WFList, ih]

theorem WFFields_iff (kvs : List (Str × JVal)) : WFFields kvs ↔ ∀ kv ∈ kvs, kv.2.WF := by
  induction kvs with
  | nil => simp [WFFields]
  | cons x xs ih => simp [WFFields, ih]

/-! ### kind trees -/

inductive KTree
  | leaf (k : Kind)
  | list (ts : List KTree)
  | obj (ts : List (Str × KTree))

mutual
def kindTree : JVal → KTree
  | .null => .leaf .nil
  | .bool _ => .leaf .bool
  | .int _ => .leaf .int
  | .float _ => .leaf .float
  | .str _ => .leaf .string
  | .list xs => .list (kindTreeList xs)
  | .obj kvs => .obj (kindTreeFields kvs)
def kindTreeList : List JVal → List KTree
  | [] => []
  | x :: xs => kindTree x :: kindTreeList xs
def kindTreeFields : List (Str × JVal) → List (Str × KTree)
  | [] => []
  | kv :: kvs => (kv.1, kindTree kv.2) :: kindTreeFields kvs
end

/-! ### the float-formatting contract

The only unproved assumption: it stands for the behaviour of Go's shortest float formatting
(`strconv.FormatFloat(x, 'e'|'f', -1, 64)`), modelled by the executable `serF`.  Every field is
a plain statement about `serF` on finite inputs. -/

/-- the RFC 8259 number alphabet -/
def isNumChar (c : Char) : Bool :=
  F64.isDigit c || c == '+' || c == '-' || c == '.' || c == 'e' || c == 'E'

structure FmtContract : Prop where
  /-- `strconv.ParseFloat` reads the shortest representation back to the identical float64 -/
  parse_back : ∀ x : F64, x.isFinite = true → F64.parseFloat (serF x) = some x
  /-- the text is, as a whole, an RFC 8259 number which a strict reader takes for a float, namely
  the identical float64 (in particular it has a fraction or an exponent, or exceeds the int range) -/
  strict : ∀ x : F64, x.isFinite = true → Strict.number (serF x) = some (some (.float x), [])

/-! ### a concrete nested value in the domain (non-vacuity witness) -/

/-- fields: a key and a string with `"`, `\`, control characters, a non-ASCII character, U+FFFD and an
astral character; the empty key; extreme ints, negative zero, an empty object and an empty list -/
def sampleFields : List (Str × JVal) :=
  [ (['k', '"', '\\', '\x01', 'é'], .str ['a', '"', '\\', '\n', '\x1f', 'é', Char.ofNat 0xFFFD, Char.ofNat 0x1F600]),
    ([], .list [.int (-9223372036854775808), .int 9223372036854775807, .float F64.negZero, .obj [], .list []]),
    (['b'], .obj [(['x'], .null), (['y'], .bool true), (['z'], .bool false), ([' '], .float F64.one)]) ]

def sampleList : List JVal := [.obj sampleFields, .str [], .int 0, .list [.list []]]

theorem sampleFields_WF : (JVal.obj sampleFields).WF := by
  simp [sampleFields, JVal.WF, WFList, WFFields, InRange]
  decide

theorem sampleList_WF : (JVal.list sampleList).WF := by
  simp [sampleList, sampleFields, JVal.WF, WFList, WFFields, InRange]
  decide

end Anytype
