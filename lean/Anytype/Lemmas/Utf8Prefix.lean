/-
`decodeAll` of a byte prefix versus `decodeAll` of the whole byte string: the complete characters
of the prefix are a prefix of the items of the whole, and if the cut falls in the middle of a
multi-byte character the next item of the prefix is ill-formed (`none`).
-/
import Anytype.Model.Strconv
namespace Anytype

theorem decodeAll_nil : decodeAll [] = [] := by simp only [decodeAll]

theorem decodeAll_cons (b0 : UInt8) (r0 : List UInt8) :
    decodeAll (b0 :: r0) = (decodeOne b0 r0).1 :: decodeAll (r0.drop (decodeOne b0 r0).2) := by
  rw [decodeAll]

theorem decodeAll_ne_nil {b : List UInt8} (hb : b ≠ []) : decodeAll b ≠ [] := by
  match b, hb with
  | b0 :: r0, _ => rw [decodeAll_cons]; exact List.cons_ne_nil _ _

/-- extending the lookahead does not change a decoded character, unless the shorter lookahead
made it ill-formed -/
theorem decodeOne_append (b0 : UInt8) (r0 b : List UInt8) :
    (decodeOne b0 (r0 ++ b) = decodeOne b0 r0 ∧ (decodeOne b0 r0).2 ≤ r0.length) ∨
      decodeOne b0 r0 = (none, 0) := by
  rcases r0 with _ | ⟨b1, _ | ⟨b2, _ | ⟨b3, r⟩⟩⟩
  all_goals simp only [decodeOne, List.nil_append, List.cons_append]
  all_goals repeat' split
  all_goals simp

/-- `decodeAll` of a proper byte prefix `a` of `a ++ b`: complete characters `p'` shared with the
whole, after which the whole goes on (`q ≠ []`) while the prefix either ends or shows an
ill-formed item (the cut fell inside a multi-byte character) -/
theorem decodeAll_append : ∀ (n : Nat) (a b : List UInt8), a.length ≤ n → b ≠ [] →
    ∃ p' tail q, decodeAll a = p' ++ tail ∧ decodeAll (a ++ b) = p' ++ q ∧ q ≠ [] ∧
      (tail = [] ∨ tail.head? = some none) := by
  intro n
  induction n with
  | zero =>
    intro a b ha hb
    have : a = [] := List.length_eq_zero_iff.1 (by omega)
    subst this
    exact ⟨[], [], decodeAll b, by simp [decodeAll_nil], by simp, decodeAll_ne_nil hb, .inl rfl⟩
  | succ n ih =>
    intro a b ha hb
    match a with
    | [] => exact ⟨[], [], decodeAll b, by simp [decodeAll_nil], by simp, decodeAll_ne_nil hb, .inl rfl⟩
    | b0 :: r0 =>
      rcases decodeOne_append b0 r0 b with ⟨h1, h2⟩ | h
      · simp only [List.length_cons] at ha
        have hdrop : (r0 ++ b).drop (decodeOne b0 r0).2 = r0.drop (decodeOne b0 r0).2 ++ b := by
          rw [List.drop_append_of_le_length h2]
        obtain ⟨p', tail, q, e1, e2, hq, ht⟩ :=
          ih (r0.drop (decodeOne b0 r0).2) b (by simp only [List.length_drop]; omega) hb
        refine ⟨(decodeOne b0 r0).1 :: p', tail, q, ?_, ?_, hq, ht⟩
        · rw [decodeAll_cons, e1, List.cons_append]
        · rw [List.cons_append, decodeAll_cons, h1, hdrop, e2, List.cons_append]
      · refine ⟨[], decodeAll (b0 :: r0), decodeAll (b0 :: r0 ++ b), by simp, by simp,
          decodeAll_ne_nil (by simp), .inr ?_⟩
        rw [decodeAll_cons, h]; rfl

/-! ### well-formed characters: locality of `decodeOne`, newline bytes -/

/-- a well-formed character only depends on the bytes it occupies -/
theorem decodeOne_some_take {b0 : UInt8} {r0 : List UInt8} {x : Char} {w : Nat}
    (h : decodeOne b0 r0 = (some x, w)) :
    w ≤ r0.length ∧ decodeOne b0 (r0.take w) = (some x, w) := by
  rcases r0 with _ | ⟨b1, _ | ⟨b2, _ | ⟨b3, r⟩⟩⟩
  all_goals simp only [decodeOne] at h
  all_goals repeat' split at h
  all_goals first
    | (simp only [Prod.mk.injEq, reduceCtorEq, false_and] at h; done)
    | (simp only [Prod.mk.injEq] at h
       obtain ⟨hx, rfl⟩ := h
       simp_all [decodeOne]
       try grind)

theorem decodeOne_some_local {b0 : UInt8} {r0 : List UInt8} {x : Char} {w : Nat}
    (h : decodeOne b0 r0 = (some x, w)) (t : List UInt8) :
    decodeOne b0 (r0.take w ++ t) = (some x, w) := by
  have h' := (decodeOne_some_take h).2
  rcases decodeOne_append b0 (r0.take w) t with ⟨h1, _⟩ | h2
  · rw [h1, h']
  · rw [h'] at h2; cases h2

theorem toNat_ofNat_of_valid {n : Nat} (h : n.isValidChar) : (Char.ofNat n).toNat = n := by
  simp [Char.ofNat, h, Char.ofNatAux, Char.toNat]

theorem mkChar_some {n : Nat} {x : Char} (h : mkChar n = some x) : x.toNat = n := by
  unfold mkChar at h
  split at h
  · injection h with h; subst h; exact toNat_ofNat_of_valid ‹_›
  · cases h

theorem nl_iff_toNat (x : Char) : x = '\n' ↔ x.toNat = 10 := by
  constructor
  · intro h; subst h; rfl
  · intro h; rw [← Char.ofNat_toNat x, h]

/-- a well-formed character is a newline iff its first byte is 0x0A, and its other bytes are not -/
theorem decodeOne_nl {b0 : UInt8} {r0 : List UInt8} {x : Char} {w : Nat}
    (h : decodeOne b0 r0 = (some x, w)) :
    (x = '\n' ↔ b0 = 0x0A) ∧ (0x0A : UInt8) ∉ r0.take w := by
  rw [nl_iff_toNat]
  rcases r0 with _ | ⟨b1, _ | ⟨b2, _ | ⟨b3, r⟩⟩⟩
  all_goals simp only [decodeOne] at h
  all_goals repeat' split at h
  all_goals first
    | (simp only [Prod.mk.injEq, reduceCtorEq, false_and] at h; done)
    | (simp only [Prod.mk.injEq] at h
       obtain ⟨hx, rfl⟩ := h
       have hx := mkChar_some hx
       simp_all [isCont, UInt8.le_iff_toNat_le, UInt8.lt_iff_toNat_lt, ← UInt8.toNat_inj]
       try omega)

/-- a well-formed item prefix `c` of `decodeAll post` is the decoding of a byte prefix `cb` of
`post` that ends at a character boundary, and has as many newline characters as `cb` has 0x0A
bytes -/
theorem decodeAll_split : ∀ (c : List Item) (post : List UInt8) (rest : List Item),
    (∀ it ∈ c, it ≠ none) → decodeAll post = c ++ rest →
    ∃ cb restb, post = cb ++ restb ∧ decodeAll cb = c ∧ decodeAll restb = rest ∧
      cb.count 0x0A = c.count (some '\n') := by
  intro c
  induction c with
  | nil => intro post rest _ h; exact ⟨[], post, rfl, decodeAll_nil, h, rfl⟩
  | cons it c' ih =>
    intro post rest hc h
    match post with
    | [] => rw [decodeAll_nil] at h; cases h
    | b0 :: r0 =>
      rw [decodeAll_cons, List.cons_append] at h
      injection h with h1 h2
      obtain ⟨x, rfl⟩ : ∃ x, it = some x := by
        cases it with
        | none => exact absurd rfl (hc none List.mem_cons_self)
        | some x => exact ⟨x, rfl⟩
      have hd : decodeOne b0 r0 = (some x, (decodeOne b0 r0).2) := by rw [← h1]
      generalize (decodeOne b0 r0).2 = w at hd h2
      obtain ⟨cb', restb, e1, e2, e3, e4⟩ :=
        ih (r0.drop w) rest (fun it hit => hc it (List.mem_cons_of_mem _ hit)) h2
      have hw := (decodeOne_some_take hd).1
      have hlen : (r0.take w).length = w := by rw [List.length_take]; omega
      have hloc := decodeOne_some_local hd cb'
      obtain ⟨hnl, hnm⟩ := decodeOne_nl hd
      refine ⟨b0 :: (r0.take w ++ cb'), restb, ?_, ?_, e3, ?_⟩
      · rw [List.cons_append, List.append_assoc, ← e1, List.take_append_drop]
      · rw [decodeAll_cons, hloc]
        show some x :: decodeAll ((r0.take w ++ cb').drop w) = some x :: c'
        rw [List.drop_left' hlen, e2]
      · rw [List.count_cons, List.count_cons, List.count_append, List.count_eq_zero.2 hnm, e4]
        by_cases hx : x = '\n'
        · have hb := hnl.1 hx
          subst hx hb
          simp
        · have hb : ¬ b0 = 0x0A := fun hb => hx (hnl.2 hb)
          simp [hx, hb]

end Anytype
