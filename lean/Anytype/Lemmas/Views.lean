/-
Lemmas for C14: every loop of the typed / untyped views (`XSlice`, `ForEach*`, `Map*`,
`Filter*`, `Reduce*`, `All*`) of lists and objects equals a simple reference fold.
-/
import Anytype.Model.ObjectOps
namespace Anytype

/-! ### `getVal`, `sel` -/

@[simp] theorem Heap.getVal_kind (h : Heap) (v : Val) : (h.getVal v).kind = v.kind := by
  cases v <;> rfl

/-- `getVal` only looks at the `ego` table -/
theorem Heap.getVal_congr {h h' : Heap} (he : ∀ b, h'.ego b = h.ego b) (v : Val) :
    h'.getVal v = h.getVal v := by
  cases v <;> simp [Heap.getVal, he]

namespace L

theorem sel_congr {h h' : Heap} (he : ∀ b, h'.ego b = h.ego b) (b : Bool) (k : Kind) (v : Val) :
    sel h' b k v = sel h b k v := by
  simp only [sel, Heap.getVal_congr he]

/-- what a typed variant hands to its callback / appends for a selected element -/
def pick (h : Heap) (viaGetVal : Bool) (v : Val) : Val := if viaGetVal then h.getVal v else v

theorem sel_eq_some_iff {h : Heap} {b : Bool} {k : Kind} {v w : Val} :
    sel h b k v = some w ↔ v.kind = k ∧ w = pick h b v := by
  unfold sel pick
  by_cases hk : v.kind = k
  · simp [hk, eq_comm]
  · simp [hk]

theorem sel_eq_none_iff {h : Heap} {b : Bool} {k : Kind} {v : Val} :
    sel h b k v = none ↔ v.kind ≠ k := by
  unfold sel
  by_cases hk : v.kind = k <;> simp [hk]

theorem sel_isSome {h : Heap} {b : Bool} {k : Kind} {v : Val} :
    (sel h b k v).isSome = (v.kind == k) := by
  unfold sel
  by_cases hk : v.kind = k <;> simp [hk]

@[simp] theorem pick_kind (h : Heap) (b : Bool) (v : Val) : (pick h b v).kind = v.kind := by
  unfold pick; cases b <;> simp

/-- the elements a typed variant selects are the elements of that kind, in order, each once -/
theorem filterMap_sel (h : Heap) (b : Bool) (k : Kind) (xs : List Val) :
    xs.filterMap (sel h b k) = (xs.filter (fun v => v.kind == k)).map (pick h b) := by
  induction xs with
  | nil => rfl
  | cons x xs ih =>
    by_cases hk : x.kind = k
    · simp [sel, pick, hk, ih]
    · simp [sel, hk, ih]

/-! ### `TypeOf`, `Get` and selection by index -/

theorem typeOf_of_lt (h : Heap) (a : Nat) (i : Nat) (hi : i < (h.items a).length) :
    typeOf h a i = ((h.items a)[i]).kind := by
  simp [typeOf, count, hi]

theorem get_of_lt (h : Heap) (a : Nat) (i : Nat) (hi : i < (h.items a).length) :
    get h a i = .ok (h.getVal ((h.items a)[i])) := by
  have h1 : ¬ ((h.items a).length : Int) ≤ (i : Int) := by omega
  simp [get, count, hi, h1]

theorem filterMap_sel_typeOf (h : Heap) (a : Nat) (k : Kind) (b : Bool) :
    (h.items a).filterMap (sel h b k)
      = (((h.items a).zipIdx).filter (fun p => typeOf h a (p.2 : Int) == k)).map
          (fun p => pick h b p.1) := by
  rw [filterMap_sel]
  have hf : ((h.items a).zipIdx).filter (fun p => typeOf h a (p.2 : Int) == k)
      = ((h.items a).zipIdx).filter (fun p => p.1.kind == k) := by
    apply List.filter_congr
    intro p hp
    obtain ⟨v, i⟩ := p
    have hget : (h.items a)[i]? = some v := by simpa using List.mem_zipIdx_iff_getElem?.mp hp
    obtain ⟨hi, hv⟩ := List.getElem?_eq_some_iff.mp hget
    simp only [typeOf_of_lt h a i hi, hv]
  rw [hf]
  have hx : (h.items a).filter (fun v => v.kind == k)
      = (((h.items a).zipIdx).filter (fun p => p.1.kind == k)).map (·.1) := by
    conv => lhs; rw [← List.zipIdx_map_fst 0 (h.items a)]
    rw [List.filter_map]; rfl
  rw [hx, List.map_map]; rfl

/-! ### the loops -/

theorem sliceKLoop_eq (h : Heap) (k : Kind) (xs acc : List Val) :
    sliceKLoop h k xs acc = acc ++ xs.filterMap (sel h (viaGetValL k) k) := by
  induction xs generalizing acc with
  | nil => simp [sliceKLoop]
  | cons x xs ih =>
    simp only [sliceKLoop, List.filterMap_cons]
    cases sel h (viaGetValL k) k x <;> simp [ih]

theorem forEachKLoop_eq (h : Heap) (k : Kind) (xs log : List Val) :
    forEachKLoop h k xs log = log ++ xs.filterMap (sel h (viaGetValL k) k) := by
  induction xs generalizing log with
  | nil => simp [forEachKLoop]
  | cons x xs ih =>
    simp only [forEachKLoop, List.filterMap_cons]
    cases sel h (viaGetValL k) k x <;> simp [ih]

theorem forEachLoop_eq (h : Heap) (xs : List Val) (n : Nat) (log : List (Int × Val)) :
    forEachLoop h xs (n : Int) log
      = log ++ (xs.zipIdx n).map (fun p => ((p.2 : Int), h.getVal p.1)) := by
  induction xs generalizing n log with
  | nil => simp [forEachLoop]
  | cons x xs ih =>
    simp only [forEachLoop, List.zipIdx_cons, List.map_cons]
    have : (n : Int) + 1 = ((n + 1 : Nat) : Int) := by omega
    rw [this, ih]
    simp

theorem filterLoop_eq (h : Heap) (p : Val → Bool) (xs acc : List Val) :
    filterLoop h p xs acc = acc ++ (xs.map h.getVal).filter p := by
  induction xs generalizing acc with
  | nil => simp [filterLoop]
  | cons x xs ih =>
    simp only [filterLoop, List.map_cons, List.filter_cons]
    cases p (h.getVal x) <;> simp [ih]

theorem filterKLoop_eq (h : Heap) (k : Kind) (p : Val → Bool) (xs acc : List Val) :
    filterKLoop h k p xs acc = acc ++ (xs.filterMap (sel h (viaGetValL k) k)).filter p := by
  induction xs generalizing acc with
  | nil => simp [filterKLoop]
  | cons x xs ih =>
    simp only [filterKLoop, List.filterMap_cons]
    cases hs : sel h (viaGetValL k) k x with
    | none => simp [ih]
    | some v =>
      simp only [List.filter_cons]
      cases p v <;> simp [ih]

theorem reduceLoop_eq {α} (h : Heap) (f : α → Val → α) (xs : List Val) (acc : α) :
    reduceLoop h f xs acc = (xs.map h.getVal).foldl f acc := by
  induction xs generalizing acc with
  | nil => rfl
  | cons x xs ih => simp [reduceLoop, ih]

theorem reduceKLoop_eq {α} (h : Heap) (k : Kind) (f : α → Val → α) (xs : List Val) (acc : α) :
    reduceKLoop h k f xs acc = (xs.filterMap (sel h true k)).foldl f acc := by
  induction xs generalizing acc with
  | nil => rfl
  | cons x xs ih =>
    simp only [reduceKLoop, List.filterMap_cons]
    cases sel h true k x <;> simp [ih]

theorem allKLoop_eq (k : Kind) (xs : List Val) :
    allKLoop k xs = xs.all (fun v => v.kind == k) := by
  induction xs with
  | nil => rfl
  | cons x xs ih =>
    simp only [allKLoop, List.all_cons, ih]
    by_cases hk : x.kind = k <;> simp [hk]

theorem allNumericLoop_eq (xs : List Val) :
    allNumericLoop xs = xs.all (fun v => v.kind == .int || v.kind == .float) := by
  induction xs with
  | nil => rfl
  | cons x xs ih =>
    simp only [allNumericLoop, List.all_cons, ih]
    cases x <;> simp [Val.kind]

end L

/-! ### scalar callback results and `parseVal` -/

/-- the callback result needs no fresh cell: anything but a Go slice / map / foreign type -/
def GoVal.isScalar : GoVal → Bool
  | .slice _ _ => false
  | .map _ _ => false
  | .unsupported => false
  | _ => true

/-- what `parseVal` stores for a scalar result -/
def scalarVal : GoVal → Val
  | .nil => .nil
  | .bool b => .bool b
  | .intw _ v => .int (wrap64 v)
  | .f64 f => .float f
  | .f32 b => .float (f32to64 b)
  | .str s => .str s
  | .list r => .list r
  | .obj r => .obj r
  | _ => .nil

theorem parseVal_scalar (h : Heap) {g : GoVal} (hg : g.isScalar = true) :
    parseVal h g = (h, .ok (scalarVal g)) := by
  cases g <;> first | (simp [GoVal.isScalar] at hg; done) | (simp only [parseVal, scalarVal])

/-- a `getVal()` result handed back unchanged is a scalar result -/
theorem Val.toGo_isScalar (v : Val) : v.toGo.isScalar = true := by cases v <;> rfl

/-! ### heap facts: `ego` is untouched by `set` of a same-ego cell and by allocation of an ego-0 cell -/

theorem Heap.ego_set_list {h : Heap} {a : Nat} {ys zs : List Val} {e : Nat}
    (ha : h[a]? = some (.list ys e)) (b : Nat) : Heap.ego (h.set a (.list zs e)) b = h.ego b := by
  unfold Heap.ego
  by_cases hb : a = b
  · subst hb
    obtain ⟨hlt, hget⟩ := List.getElem?_eq_some_iff.mp ha
    simp [hlt, hget]
  · simp [List.getElem?_set_ne hb]

theorem Heap.ego_set_obj {h : Heap} {a : Nat} {ys zs : List (Str × Val)} {e : Nat}
    (ha : h[a]? = some (.obj ys e)) (b : Nat) : Heap.ego (h.set a (.obj zs e)) b = h.ego b := by
  unfold Heap.ego
  by_cases hb : a = b
  · subst hb
    obtain ⟨hlt, hget⟩ := List.getElem?_eq_some_iff.mp ha
    simp [hlt, hget]
  · simp [List.getElem?_set_ne hb]

theorem Heap.ego_append_list0 (h : Heap) (xs : List Val) (b : Nat) :
    Heap.ego (h ++ [.list xs 0]) b = h.ego b := by
  unfold Heap.ego
  rcases Nat.lt_trichotomy b h.length with hb | hb | hb
  · simp [List.getElem?_append_left hb]
  · subst hb; simp
  · have h1 : (h ++ [Cell.list xs 0])[b]? = none := by
      apply List.getElem?_eq_none_iff.mpr; simp; omega
    have h2 : h[b]? = none := List.getElem?_eq_none_iff.mpr (by omega)
    simp [h1, h2]

theorem Heap.ego_append_obj0 (h : Heap) (xs : List (Str × Val)) (b : Nat) :
    Heap.ego (h ++ [.obj xs 0]) b = h.ego b := by
  unfold Heap.ego
  rcases Nat.lt_trichotomy b h.length with hb | hb | hb
  · simp [List.getElem?_append_left hb]
  · subst hb; simp
  · have h1 : (h ++ [Cell.obj xs 0])[b]? = none := by
      apply List.getElem?_eq_none_iff.mpr; simp; omega
    have h2 : h[b]? = none := List.getElem?_eq_none_iff.mpr (by omega)
    simp [h1, h2]

theorem Heap.setItems_of_list {h : Heap} {a : Nat} {ys : List Val} {e : Nat}
    (ha : h[a]? = some (.list ys e)) (zs : List Val) :
    h.setItems a zs = h.set a (.list zs e) := by
  simp [Heap.setItems, ha]

theorem Heap.items_of_list {h : Heap} {a : Nat} {ys : List Val} {e : Nat}
    (ha : h[a]? = some (.list ys e)) : h.items a = ys := by
  simp [Heap.items, ha]

theorem Heap.setFields_of_obj {h : Heap} {a : Nat} {ys : List (Str × Val)} {e : Nat}
    (ha : h[a]? = some (.obj ys e)) (zs : List (Str × Val)) :
    h.setFields a zs = h.set a (.obj zs e) := by
  simp [Heap.setFields, ha]

theorem Heap.fields_of_obj {h : Heap} {a : Nat} {ys : List (Str × Val)} {e : Nat}
    (ha : h[a]? = some (.obj ys e)) : h.fields a = ys := by
  simp [Heap.fields, ha]

theorem set_self_of_some {α} {l : List α} {a : Nat} {x : α} (ha : l[a]? = some x) :
    l.set a x = l := by
  obtain ⟨hlt, hget⟩ := List.getElem?_eq_some_iff.mp ha
  rw [← hget]; exact List.set_getElem_self hlt

theorem getElem?_set_self_of_some {α} {l : List α} {a : Nat} {x y : α} (ha : l[a]? = some x) :
    (l.set a y)[a]? = some y := by
  have hlt : a < l.length := by
    rcases Nat.lt_or_ge a l.length with hl | hl
    · exact hl
    · rw [List.getElem?_eq_none_iff.mpr hl] at ha; cases ha
  simp [hlt]

theorem set_append_singleton_length {α} (h : List α) (c d : α) :
    (h ++ [c]).set h.length d = h ++ [d] := by
  induction h with
  | nil => rfl
  | cons x xs ih => simp [ih]

/-- `result.Add(g)` for a scalar `g` on a list cell -/
theorem addEach_scalar {h : Heap} {res : Nat} {ys : List Val} {e : Nat}
    (hres : h[res]? = some (.list ys e)) {g : GoVal} (hg : g.isScalar = true) :
    addEach h res [g] = (h.set res (.list (ys ++ [scalarVal g]) e), .ok ()) := by
  simp only [addEach, parseVal_scalar h hg, Heap.items_of_list hres, Heap.setItems_of_list hres]

/-! ### `Map` loops of lists (scalar callback results) -/

namespace L

theorem mapKLoop_scalar (h0 : Heap) (res : Nat) (k : Kind) (f : Val → GoVal) (e : Nat)
    (xs : List Val) :
    ∀ (h : Heap) (ys : List Val), h[res]? = some (.list ys e) → (∀ b, h.ego b = h0.ego b) →
      (∀ v ∈ xs.filterMap (sel h0 (viaGetValL k) k), (f v).isScalar = true) →
      mapKLoop res k f h xs
        = (h.set res (.list (ys ++ (xs.filterMap (sel h0 (viaGetValL k) k)).map
              (fun v => scalarVal (f v))) e), .ok ()) := by
  induction xs with
  | nil =>
    intro h ys hres _ _
    simp only [mapKLoop, List.filterMap_nil, List.map_nil, List.append_nil]
    rw [set_self_of_some hres]
  | cons x xs ih =>
    intro h ys hres hego hf
    simp only [mapKLoop, sel_congr hego]
    cases hs : sel h0 (viaGetValL k) k x with
    | none =>
      simp only [List.filterMap_cons, hs] at hf ⊢
      exact ih h ys hres hego hf
    | some v =>
      simp only [List.filterMap_cons, hs] at hf ⊢
      have hv : (f v).isScalar = true := hf v (by simp)
      rw [addEach_scalar hres hv]
      simp only []
      rw [ih _ (ys ++ [scalarVal (f v)]) (getElem?_set_self_of_some hres)
        (fun b => by rw [Heap.ego_set_list hres, hego])
        (fun w hw => hf w (by simp [hw]))]
      simp [List.set_set]

theorem mapLoop_scalar (h0 : Heap) (res : Nat) (f : Int → Val → GoVal) (e : Nat)
    (xs : List Val) :
    ∀ (h : Heap) (ys : List Val) (n : Nat), h[res]? = some (.list ys e) →
      (∀ b, h.ego b = h0.ego b) →
      (∀ p ∈ xs.zipIdx n, (f (p.2 : Int) (h0.getVal p.1)).isScalar = true) →
      mapLoop res f h xs (n : Int)
        = (h.set res (.list (ys ++ (xs.zipIdx n).map
              (fun p => scalarVal (f (p.2 : Int) (h0.getVal p.1)))) e), .ok ()) := by
  induction xs with
  | nil =>
    intro h ys n hres _ _
    simp only [mapLoop, List.zipIdx_nil, List.map_nil, List.append_nil]
    rw [set_self_of_some hres]
  | cons x xs ih =>
    intro h ys n hres hego hf
    simp only [mapLoop, Heap.getVal_congr hego, List.zipIdx_cons, List.map_cons]
    have hv : (f (n : Int) (h0.getVal x)).isScalar = true := hf (x, n) (by simp)
    rw [addEach_scalar hres hv]
    simp only []
    have hn : (n : Int) + 1 = ((n + 1 : Nat) : Int) := by omega
    rw [hn, ih _ (ys ++ [scalarVal (f (n : Int) (h0.getVal x))]) (n + 1)
      (getElem?_set_self_of_some hres)
      (fun b => by rw [Heap.ego_set_list hres, hego])
      (fun p hp => hf p (by simp [hp]))]
    simp [List.set_set]

end L

/-! ### association lists -/

theorem lookup_append_of_none {α} (xs ys : List (Str × α)) (k : Str) (hx : lookup xs k = none) :
    lookup (xs ++ ys) k = lookup ys k := by
  induction xs with
  | nil => rfl
  | cons p xs ih =>
    obtain ⟨k', v⟩ := p
    simp only [lookup] at hx
    simp only [List.cons_append, lookup]
    split at hx
    · cases hx
    · rename_i hne; simp only [hne]; exact ih hx

theorem lookup_eq_none_of_not_mem {α} (xs : List (Str × α)) (k : Str)
    (hk : k ∉ xs.map (·.1)) : lookup xs k = none := by
  induction xs with
  | nil => rfl
  | cons p xs ih =>
    obtain ⟨k', v⟩ := p
    simp only [List.map_cons, List.mem_cons, not_or] at hk
    simp only [lookup]
    have : (k' == k) = false := by simp; exact fun h => hk.1 h.symm
    simp only [this]
    exact ih hk.2

/-- `m[k] = v` for a key not yet present appends (in the association-list order) -/
theorem setKV_of_not_mem {α} (xs : List (Str × α)) (k : Str) (v : α)
    (hk : k ∉ xs.map (·.1)) : setKV xs k v = xs ++ [(k, v)] := by
  induction xs with
  | nil => rfl
  | cons p xs ih =>
    obtain ⟨k', v'⟩ := p
    simp only [List.map_cons, List.mem_cons, not_or] at hk
    have : (k' == k) = false := by simp; exact fun h => hk.1 h.symm
    simp only [setKV, this, List.cons_append]
    rw [ih hk.2]; rfl

/-- lookup in a `filterMap` that keeps keys, for distinct keys -/
theorem lookup_filterMap_nodup {α β} (g : α → Option β) (fs : List (Str × α))
    (hnd : (fs.map (·.1)).Nodup) (k : Str) :
    lookup (fs.filterMap (fun kv => (g kv.2).map (fun x => (kv.1, x)))) k
      = (lookup fs k).bind g := by
  induction fs with
  | nil => rfl
  | cons p fs ih =>
    obtain ⟨k', v⟩ := p
    simp only [List.map_cons, List.nodup_cons] at hnd
    simp only [List.filterMap_cons, lookup]
    by_cases hk : k' = k
    · subst hk
      cases hg : g v with
      | none =>
        simp only [Option.map_none, beq_self_eq_true, if_true, Option.bind_some, hg]
        apply lookup_eq_none_of_not_mem
        intro hmem
        apply hnd.1
        simp only [List.mem_map, List.mem_filterMap] at hmem ⊢
        obtain ⟨q, ⟨r, hr, hq⟩, hqk⟩ := hmem
        cases hgr : g r.2 with
        | none => simp [hgr] at hq
        | some y =>
          simp [hgr] at hq
          subst hq
          exact ⟨r, hr, hqk⟩
      | some y => simp [lookup, hg]
    · have : (k' == k) = false := by simp [hk]
      cases hg : g v with
      | none => simp only [Option.map_none, this]; exact ih hnd.2
      | some y => simp only [Option.map_some, lookup, this]; exact ih hnd.2


theorem lookup_of_mem_nodup {α} (fs : List (Str × α)) (hnd : (fs.map (·.1)).Nodup)
    (kv : Str × α) (hkv : kv ∈ fs) : lookup fs kv.1 = some kv.2 := by
  induction fs with
  | nil => cases hkv
  | cons q fs ih =>
    obtain ⟨k', v'⟩ := q
    simp only [List.map_cons, List.nodup_cons] at hnd
    simp only [lookup]
    rcases List.mem_cons.mp hkv with heq | hmem
    · subst heq; simp
    · have hne : (k' == kv.1) = false := by
        simp only [beq_eq_false_iff_ne, ne_eq]
        intro heq; subst heq
        exact hnd.1 (List.mem_map.mpr ⟨kv, hmem, rfl⟩)
      simp only [hne]; exact ih hnd.2 hmem

/-- lookup in a key-preserving `map` -/
theorem lookup_map_val {α β} (g : Str → α → β) (fs : List (Str × α)) (k : Str) :
    lookup (fs.map (fun kv => (kv.1, g kv.1 kv.2))) k = (lookup fs k).map (g k) := by
  induction fs with
  | nil => rfl
  | cons p fs ih =>
    obtain ⟨k', v⟩ := p
    simp only [List.map_cons, lookup]
    by_cases hk : k' = k
    · subst hk; simp
    · have : (k' == k) = false := by simp [hk]
      simp only [this]; exact ih

theorem Heap.fields_append_self (h : Heap) (fs : List (Str × Val)) (e : Nat) :
    Heap.fields (h ++ [.obj fs e]) h.length = fs := by simp [Heap.fields]

theorem Heap.items_append_self (h : Heap) (xs : List Val) (e : Nat) :
    Heap.items (h ++ [.list xs e]) h.length = xs := by simp [Heap.items]

/-- storing a permutation of the fields in the receiver cell: same fields up to order, same
`ego` table (also when `a` is no object cell: then both lists are empty / nothing changes) -/
theorem Heap.setFields_perm (h : Heap) (a : Nat) (fs' : List (Str × Val))
    (hp : fs'.Perm (h.fields a)) :
    ((h.setFields a fs').fields a).Perm (h.fields a) ∧ ∀ b, (h.setFields a fs').ego b = h.ego b := by
  cases hc : h[a]? with
  | none =>
    have : h.setFields a fs' = h := by simp [Heap.setFields, hc]
    rw [this]; exact ⟨List.Perm.refl _, fun _ => rfl⟩
  | some c =>
    cases c with
    | list xs e =>
      have : h.setFields a fs' = h := by simp [Heap.setFields, hc]
      rw [this]; exact ⟨List.Perm.refl _, fun _ => rfl⟩
    | obj gs e =>
      have hf : (h.setFields a fs').fields a = fs' := by
        rw [Heap.setFields_of_obj hc]
        exact Heap.fields_of_obj (getElem?_set_self_of_some hc)
      refine ⟨by rw [hf]; exact hp, ?_⟩
      intro b; rw [Heap.setFields_of_obj hc]; exact Heap.ego_set_obj hc b

/-! ### objects -/

namespace O

theorem forEachKLoop_eq (h : Heap) (k : Kind) (fs : List (Str × Val)) (log : List Val) :
    forEachKLoop h k fs log = log ++ (fs.map (·.2)).filterMap (L.sel h true k) := by
  induction fs generalizing log with
  | nil => simp [forEachKLoop]
  | cons p fs ih =>
    obtain ⟨key, x⟩ := p
    simp only [forEachKLoop, List.map_cons, List.filterMap_cons]
    cases L.sel h true k x <;> simp [ih]

/-- what `MapX` stores for a field: the converted callback result under the same key,
nothing if the field is not of the kind -/
def mapKEntry (h : Heap) (kd : Kind) (f : Val → GoVal) (kv : Str × Val) : Option (Str × Val) :=
  (L.sel h (L.viaGetValL kd) kd kv.2).map (fun x => (kv.1, scalarVal (f x)))

theorem mapKEntry_key {h : Heap} {kd : Kind} {f : Val → GoVal} {kv q : Str × Val}
    (hq : mapKEntry h kd f kv = some q) : q.1 = kv.1 := by
  unfold mapKEntry at hq
  cases hs : L.sel h (L.viaGetValL kd) kd kv.2 with
  | none => simp [hs] at hq
  | some x => simp [hs] at hq; rw [← hq]

theorem lookup_mapKEntry (h : Heap) (kd : Kind) (f : Val → GoVal) (fs : List (Str × Val))
    (hnd : (fs.map (·.1)).Nodup) (k : Str) :
    lookup (fs.filterMap (mapKEntry h kd f)) k
      = ((lookup fs k).bind (L.sel h (L.viaGetValL kd) kd)).map (fun x => scalarVal (f x)) := by
  have := lookup_filterMap_nodup
    (fun v => (L.sel h (L.viaGetValL kd) kd v).map (fun x => scalarVal (f x))) fs hnd k
  have he : (fun kv : Str × Val =>
      ((L.sel h (L.viaGetValL kd) kd kv.2).map (fun x => scalarVal (f x))).map (fun x => (kv.1, x)))
      = mapKEntry h kd f := by
    funext kv; simp [mapKEntry, Option.map_map, Function.comp_def]
  rw [he] at this
  rw [this]
  cases lookup fs k <;> simp

theorem mapKLoop_scalar (h0 : Heap) (res : Nat) (kd : Kind) (f : Val → GoVal) (e : Nat)
    (fs : List (Str × Val)) :
    ∀ (h : Heap) (gs : List (Str × Val)), h[res]? = some (.obj gs e) →
      (∀ b, h.ego b = h0.ego b) →
      (∀ v ∈ (fs.map (·.2)).filterMap (L.sel h0 (L.viaGetValL kd) kd), (f v).isScalar = true) →
      (fs.map (·.1)).Nodup → (∀ k ∈ fs.map (·.1), k ∉ gs.map (·.1)) →
      mapKLoop res kd f h fs
        = (h.set res (.obj (gs ++ fs.filterMap (mapKEntry h0 kd f)) e), .ok ()) := by
  induction fs with
  | nil =>
    intro h gs hres _ _ _ _
    simp only [mapKLoop, List.filterMap_nil, List.append_nil]
    rw [set_self_of_some hres]
  | cons p fs ih =>
    obtain ⟨key, x⟩ := p
    intro h gs hres hego hf hnd hdisj
    simp only [List.map_cons, List.nodup_cons] at hnd
    simp only [mapKLoop, L.sel_congr hego]
    cases hs : L.sel h0 (L.viaGetValL kd) kd x with
    | none =>
      simp only [List.map_cons, List.filterMap_cons, hs, mapKEntry, Option.map_none] at hf ⊢
      exact ih h gs hres hego hf hnd.2 (fun k hk => hdisj k (by simp [hk]))
    | some v =>
      simp only [List.map_cons, List.filterMap_cons, hs, mapKEntry, Option.map_some] at hf ⊢
      have hv : (f v).isScalar = true := hf v (by simp)
      have hkey : key ∉ gs.map (·.1) := hdisj key (by simp)
      simp only [parseVal_scalar h hv, Heap.fields_of_obj hres, Heap.setFields_of_obj hres,
        setKV_of_not_mem gs key _ hkey]
      rw [ih _ (gs ++ [(key, scalarVal (f v))]) (getElem?_set_self_of_some hres)
        (fun b => by rw [Heap.ego_set_obj hres, hego])
        (fun w hw => hf w (List.mem_cons_of_mem _ hw)) hnd.2]
      · simp [List.set_set]
      · intro k hk hmem
        simp only [List.map_append, List.map_cons, List.map_nil, List.mem_append,
          List.mem_singleton] at hmem
        rcases hmem with hmem | hmem
        · exact hdisj k (by simp [hk]) hmem
        · subst hmem; exact hnd.1 hk

theorem mapLoop_scalar (h0 : Heap) (res : Nat) (f : Str → Val → GoVal) (e : Nat)
    (fs : List (Str × Val)) :
    ∀ (h : Heap) (gs : List (Str × Val)), h[res]? = some (.obj gs e) →
      (∀ b, h.ego b = h0.ego b) →
      (∀ kv ∈ fs, (f kv.1 (h0.getVal kv.2)).isScalar = true) →
      (fs.map (·.1)).Nodup → (∀ k ∈ fs.map (·.1), k ∉ gs.map (·.1)) →
      mapLoop res f h fs
        = (h.set res (.obj (gs ++ fs.map
              (fun kv => (kv.1, scalarVal (f kv.1 (h0.getVal kv.2))))) e), .ok ()) := by
  induction fs with
  | nil =>
    intro h gs hres _ _ _ _
    simp only [mapLoop, List.map_nil, List.append_nil]
    rw [set_self_of_some hres]
  | cons p fs ih =>
    obtain ⟨key, x⟩ := p
    intro h gs hres hego hf hnd hdisj
    simp only [List.map_cons, List.nodup_cons] at hnd
    have hv : (f key (h0.getVal x)).isScalar = true := hf (key, x) (by simp)
    have hkey : key ∉ gs.map (·.1) := hdisj key (by simp)
    simp only [mapLoop, Heap.getVal_congr hego, parseVal_scalar h hv, Heap.fields_of_obj hres,
      Heap.setFields_of_obj hres, setKV_of_not_mem gs key _ hkey, List.map_cons]
    rw [ih _ (gs ++ [(key, scalarVal (f key (h0.getVal x)))]) (getElem?_set_self_of_some hres)
      (fun b => by rw [Heap.ego_set_obj hres, hego])
      (fun kv hkv => hf kv (by simp [hkv])) hnd.2]
    · simp [List.set_set]
    · intro k hk hmem
      simp only [List.map_append, List.map_cons, List.map_nil, List.mem_append,
        List.mem_singleton] at hmem
      rcases hmem with hmem | hmem
      · exact hdisj k (by simp [hk]) hmem
      · subst hmem; exact hnd.1 hk

end O
end Anytype
