/-
Model of the numeric methods of list_impl.go, generic over the float arithmetic
(`FloatArith`), instantiated with native binary64 for execution.
-/
import Anytype.Model.TreeForm
namespace Anytype

/-- the float operations the aggregates use; theorems about the aggregates are generic over
this class (they are about which elements are selected and in which order they are folded) -/
class FloatArith (F : Type) where
  add : F → F → F
  mul : F → F → F
  div : F → F → F
  lt : F → F → Bool
  ofInt : Int → F
  zero : F
  one : F
  maxFinite : F
  negMaxFinite : F

instance : FloatArith F64 where
  add := F64.add
  mul := F64.mul
  div := F64.div
  lt := F64.ltGo
  ofInt := F64.ofInt
  zero := F64.posZero
  one := F64.one
  maxFinite := F64.maxFinite
  negMaxFinite := F64.negMaxFinite

/-- list elements with the float type abstracted (what the aggregates look at) -/
inductive Num (F : Type)
  | int (i : Int)
  | float (f : F)
  | other
  deriving Repr

namespace Agg
variable {F : Type} [FloatArith F]
open FloatArith

/-- `IntSum`: `result += value` with 64-bit wrap-around at every step -/
def intSumLoop : List (Num F) → Int → Int
  | [], r => r
  | .int v :: rest, r => intSumLoop rest (wrap64 (r + v))
  | _ :: rest, r => intSumLoop rest r
def intSum (l : List (Num F)) : Int := intSumLoop l 0

def intProdLoop : List (Num F) → Int → Int
  | [], r => r
  | .int v :: rest, r => intProdLoop rest (wrap64 (r * v))
  | _ :: rest, r => intProdLoop rest r
def intProd (l : List (Num F)) : Int := intProdLoop l 1

/-- `Sum`: ints first (`float64(val)`), then floats; other kinds skipped -/
def sumLoop : List (Num F) → F → F
  | [], r => r
  | .int v :: rest, r => sumLoop rest (add r (ofInt v))
  | .float f :: rest, r => sumLoop rest (add r f)
  | .other :: rest, r => sumLoop rest r
def sum (l : List (Num F)) : F := sumLoop l zero

def prodLoop : List (Num F) → F → F
  | [], r => r
  | .int v :: rest, r => prodLoop rest (mul r (ofInt v))
  | .float f :: rest, r => prodLoop rest (mul r f)
  | .other :: rest, r => prodLoop rest r
def prod (l : List (Num F)) : F := prodLoop l one

/-- `Avg`: `Sum() / float64(Count())` -/
def avg (l : List (Num F)) : F := div (sum l) (ofInt l.length)

/-- `IntMin`: `ReduceInts(MaxInt, …)` with the `present` flag -/
def intMinLoop : List (Num F) → Int → Bool → Int × Bool
  | [], m, p => (m, p)
  | .int v :: rest, m, _ => intMinLoop rest (if v < m then v else m) true
  | _ :: rest, m, p => intMinLoop rest m p
def intMin (l : List (Num F)) : Int :=
  let (m, p) := intMinLoop l ((2:Int)^63 - 1) false
  if p then m else 0

def intMaxLoop : List (Num F) → Int → Bool → Int × Bool
  | [], m, p => (m, p)
  | .int v :: rest, m, _ => intMaxLoop rest (if v > m then v else m) true
  | _ :: rest, m, p => intMaxLoop rest m p
def intMax (l : List (Num F)) : Int :=
  let (m, p) := intMaxLoop l (-(2:Int)^63) false
  if p then m else 0

/-- `Min`: `Reduce(MaxFloat64, …)`; a non-numeric element makes `item.(float64)` panic -/
def minLoop : List (Num F) → F → Bool → Option (F × Bool)
  | [], m, p => some (m, p)
  | .int v :: rest, m, _ => minLoop rest (if lt (ofInt v) m then ofInt v else m) true
  | .float f :: rest, m, _ => minLoop rest (if lt f m then f else m) true
  | .other :: _, _, _ => none
/-- `none` = panic -/
def min (l : List (Num F)) : Option F :=
  match minLoop l maxFinite false with
  | none => none
  | some (m, p) => some (if p then m else zero)

def maxLoop : List (Num F) → F → Bool → Option (F × Bool)
  | [], m, p => some (m, p)
  | .int v :: rest, m, _ => maxLoop rest (if lt m (ofInt v) then ofInt v else m) true
  | .float f :: rest, m, _ => maxLoop rest (if lt m f then f else m) true
  | .other :: _, _, _ => none
def max (l : List (Num F)) : Option F :=
  match maxLoop l negMaxFinite false with
  | none => none
  | some (m, p) => some (if p then m else zero)

end Agg

/-- view of stored values for the aggregates -/
def Val.toNum : Val → Num F64
  | .int i => .int i
  | .float f => .float f
  | _ => .other

def numsOf (h : Heap) (a : Nat) : List (Num F64) := (h.items a).map Val.toNum

end Anytype
