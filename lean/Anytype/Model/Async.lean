/-
Model of the synchronisation skeleton of the four `…Async` methods
(`(*list).ForEachAsync`, `(*list).MapAsync`, `(*object).ForEachAsync`, `(*object).MapAsync`).

The Go shape is

    var wg sync.WaitGroup                  [var mutex sync.Mutex; result := New…]
    step := func(group *sync.WaitGroup, i, x) { <body> }
    wg.Add(count)
    for i, item := range ego.val { go step(&wg, i, item.getVal()) }
    wg.Wait()
    return …

`Skel` is a tiny IR of that shape (produced from the Go source by `vextract`), and
`isEnabled` / `step` are an interpreter for it: a labelled transition system whose threads are
`main` and one worker per element.  The interpreter is generic in the skeleton, so mutated
skeletons (Done before the callback, no mutex, Add inside the loop, captured loop variables …)
can be executed and a violating schedule can be exhibited (`firstViolation`).

What is NOT modelled: real memory (Go data races are checked dynamically with the race
detector), the values of the elements (a worker carries the *index* of its element; the
container is not modified while the method runs, so the index determines the value), panics
inside the callback.

Core-only and executable (the driver links against `validTrace`).
-/
namespace Anytype.Async

/-! ### the IR -/

/-- one statement of the `step` closure.
`call` = `function(i, x)`; `callWrite` = `result.Replace/Set(i, function(i, x))` -/
inductive BodyStep
  | lock | unlock | call | callWrite | done | opaque (src : String)
  deriving DecidableEq, Repr, Inhabited

/-- `go step(&wg, i, item.getVal())` (arguments evaluated by main at spawn time) versus a closure
that captures the loop variables -/
inductive ArgPass | byValue | captured
  deriving DecidableEq, Repr, Inhabited

/-- where `wg.Add` stands relative to the `for` -/
inductive AddPos | beforeLoop | insideLoop | missing
  deriving DecidableEq, Repr, Inhabited

structure Skel where
  /-- MapAsync builds `result` before spawning -/
  hasResult : Bool
  /-- where `wg.Add` is … -/
  add : AddPos
  /-- … and whether its argument is the element count (otherwise it is modelled as `1`) -/
  addIsCount : Bool
  args : ArgPass
  body : List BodyStep
  waitBeforeReturn : Bool
  /-- anything the extractor did not recognise (must be empty) -/
  extra : List String
  deriving DecidableEq, Repr, Inhabited

def forEachSkel : Skel := ⟨false, .beforeLoop, true, .byValue, [.call, .done], true, []⟩
def mapSkel : Skel :=
  ⟨true, .beforeLoop, true, .byValue, [.lock, .callWrite, .unlock, .done], true, []⟩

/-- the two accepted skeletons -/
def WellFormed (s : Skel) : Bool := s == forEachSkel || s == mapSkel

/-! ### states, actions, events -/

/-- `callStart i` / `callEnd i`: the callback is entered / returns with index argument `i`;
`write i`: slot `i` of `result` is stored (with `f(i, x_i)`); `ret`: the method returns -/
inductive Event
  | callStart (i : Nat) | callEnd (i : Nat) | write (i : Nat) | ret
  deriving DecidableEq, Repr, Inhabited

/-- main's program counter.  `start`: before `wg.Add`; `spawned k`: `k` goroutines started
(`spawned 0` = "added", `spawned n` = "waiting" in `wg.Wait()`); `returned`. -/
inductive MainPc
  | start | spawned (k : Nat) | returned
  deriving DecidableEq, Repr, Inhabited

/-- a worker goroutine: `live` once spawned, `pc` indexes `Skel.body`, `inCall` = between
`callStart` and `callEnd` of the statement at `pc`, `arg` = the index it passes to the callback -/
structure Worker where
  live : Bool := false
  pc : Nat := 0
  inCall : Bool := false
  arg : Nat := 0
  deriving DecidableEq, Repr, Inhabited

structure State where
  /-- the WaitGroup counter -/
  counter : Int
  /-- the holder of `mutex` -/
  mutex : Option Nat
  main : MainPc
  /-- one per element -/
  workers : List Worker
  /-- `result`: slot `j` holds `some i` when it was last stored with `f(i, x_i)` -/
  result : List (Option Nat)
  log : List Event
  /-- negative WaitGroup counter, or `Unlock` by a goroutine that does not hold the mutex -/
  panicked : Bool
  /-- a `result` store was executed by a goroutine not holding the mutex -/
  unsyncWrite : Bool
  deriving DecidableEq, Repr, Inhabited

/-- `add` = `wg.Add(…)` (a no-op step when the skeleton has no Add before the loop);
`spawn` = one `go` statement (preceded by `wg.Add(…)` when the Add is inside the loop);
`wait` = `wg.Wait()` returns and the method returns; `work i` = worker `i` executes its next
micro-step (a callback statement takes two: enter and return). -/
inductive Action
  | add | spawn | wait | work (i : Nat)
  deriving DecidableEq, Repr, Inhabited

def init (s : Skel) (n : Nat) : State :=
  { counter := 0, mutex := none, main := .start, workers := List.replicate n {},
    result := if s.hasResult then List.replicate n none else [],
    log := [], panicked := false, unsyncWrite := false }

/-- the argument of `wg.Add` -/
def addAmount (s : Skel) (n : Nat) : Int := if s.addIsCount then (n : Int) else 1

/-- go 1.18 `for i, item := range …` has ONE loop variable: what a capturing closure reads -/
def loopVar (n : Nat) (st : State) : Nat :=
  match st.main with
  | .start => 0
  | .spawned k => min k (n - 1)
  | .returned => n - 1

/-- the index a worker passes to the callback when it enters it -/
def readArg (s : Skel) (n : Nat) (st : State) (w : Worker) : Nat :=
  match s.args with
  | .byValue => w.arg
  | .captured => loopVar n st

/-! ### the transition system -/

/-- is action `a` enabled?  A panicked program has crashed: nothing is enabled. -/
def isEnabled (s : Skel) (n : Nat) (st : State) : Action → Bool
  | .add => !st.panicked && (match st.main with | .start => true | _ => false)
  | .spawn => !st.panicked && (match st.main with | .spawned k => decide (k < n) | _ => false)
  | .wait => !st.panicked &&
      (match st.main with
       | .spawned k => decide (n ≤ k) && (!s.waitBeforeReturn || decide (st.counter = 0))
       | _ => false)
  | .work i => !st.panicked && decide (i < n) &&
      (match st.workers[i]? with
       | none => false
       | some w => w.live &&
          (match s.body[w.pc]? with
           | none => false
           | some .lock => decide (st.mutex = none)
           | some _ => true))

/-- one micro-step of worker `i` (whose record is `w`) -/
def stepWorker (s : Skel) (n : Nat) (st : State) (i : Nat) (w : Worker) : State :=
  let next : Worker := { w with pc := w.pc + 1, inCall := false }
  match s.body[w.pc]? with
  | none => st
  | some .lock => { st with mutex := some i, workers := st.workers.set i next }
  | some .unlock =>
    if st.mutex = some i then { st with mutex := none, workers := st.workers.set i next }
    else { st with panicked := true, workers := st.workers.set i next }
  | some .call =>
    if w.inCall then
      { st with log := st.log ++ [.callEnd w.arg], workers := st.workers.set i next }
    else
      { st with log := st.log ++ [.callStart (readArg s n st w)],
                workers := st.workers.set i { w with inCall := true, arg := readArg s n st w } }
  | some .callWrite =>
    if w.inCall then
      { st with log := st.log ++ [.callEnd w.arg, .write w.arg],
                result := st.result.set w.arg (some w.arg),
                unsyncWrite := st.unsyncWrite || decide (st.mutex ≠ some i),
                workers := st.workers.set i next }
    else
      { st with log := st.log ++ [.callStart (readArg s n st w)],
                workers := st.workers.set i { w with inCall := true, arg := readArg s n st w } }
  | some .done =>
    { st with counter := st.counter - 1,
              panicked := st.panicked || decide (st.counter - 1 < 0),
              workers := st.workers.set i next }
  | some (.opaque _) => { st with workers := st.workers.set i next }

def step (s : Skel) (n : Nat) (st : State) : Action → State
  | .add =>
    { st with main := .spawned 0,
              counter := match s.add with
                | .beforeLoop => st.counter + addAmount s n
                | _ => st.counter }
  | .spawn =>
    match st.main with
    | .spawned k =>
      { st with main := .spawned (k + 1),
                counter := match s.add with
                  | .insideLoop => st.counter + addAmount s n
                  | _ => st.counter,
                workers := st.workers.set k { live := true, pc := 0, inCall := false, arg := k } }
    | _ => st
  | .wait => { st with main := .returned, log := st.log ++ [.ret] }
  | .work i =>
    match st.workers[i]? with
    | none => st
    | some w => stepWorker s n st i w

def allActions (n : Nat) : List Action :=
  [.add, .spawn, .wait] ++ (List.range n).map .work

/-- the enabled actions of a state (main's first, then the workers' in index order) -/
def enabled (s : Skel) (n : Nat) (st : State) : List Action :=
  (allActions n).filter (isEnabled s n st)

/-- the states reachable by some schedule -/
inductive Reachable (s : Skel) (n : Nat) : State → Prop
  | init : Reachable s n (init s n)
  | step {st : State} {a : Action} :
      Reachable s n st → isEnabled s n st a = true → Reachable s n (step s n st a)

/-- a measure that strictly decreases with every step (proved in `Lemmas/Async`) -/
def workerMeasure (s : Skel) (w : Worker) : Nat :=
  2 * (s.body.length - w.pc) - (if w.inCall then 1 else 0)

def mainMeasure (n : Nat) : MainPc → Nat
  | .start => n + 2
  | .spawned k => (n - k) + 1
  | .returned => 0

def measure (s : Skel) (n : Nat) (st : State) : Nat :=
  mainMeasure n st.main + (st.workers.map (workerMeasure s)).sum

/-! ### observable traces and their monitor -/

/-- what a test harness can observe: the callback's entries and exits and the return -/
def Event.observable : Event → Bool
  | .write _ => false
  | _ => true

def observe (log : List Event) : List Event := log.filter Event.observable

inductive Phase | idle | running | finished
  deriving DecidableEq, Repr, Inhabited

/-- monitor state: the phase of the callback invocation of every index, and "`ret` seen" -/
structure Mon where
  phases : List Phase
  ret : Bool
  deriving DecidableEq, Repr, Inhabited

/-- the monitor: `callStart i` needs `i < n`, `i` idle, no `ret` yet and (for Map) no other
invocation running; `callEnd i` needs `i` running; `ret` needs every invocation finished;
nothing may follow `ret`; `write` is not an observable event. -/
def monStep (isMap : Bool) (m : Mon) : Event → Option Mon
  | .callStart i =>
    if m.ret = false ∧ m.phases[i]? = some .idle ∧
        (isMap = true → ∀ p ∈ m.phases, p ≠ Phase.running) then
      some { m with phases := m.phases.set i .running }
    else none
  | .callEnd i =>
    if m.ret = false ∧ m.phases[i]? = some .running then
      some { m with phases := m.phases.set i .finished }
    else none
  | .ret =>
    if m.ret = false ∧ ∀ p ∈ m.phases, p = Phase.finished then some { m with ret := true }
    else none
  | .write _ => none

def monInit (n : Nat) : Mon := ⟨List.replicate n .idle, false⟩

def runMon (isMap : Bool) (n : Nat) (tr : List Event) : Option Mon :=
  tr.foldl (fun o e => o.bind (fun m => monStep isMap m e)) (some (monInit n))

/-- `validTrace isMap n tr`: every `i < n` has exactly one `callStart i` and one `callEnd i`, the
start before the end; there is no event for an `i ≥ n`; `ret` occurs exactly once and is the last
event; and for `isMap` the intervals `[callStart i, callEnd i]` are pairwise disjoint.
(Characterised declaratively in `Lemmas/AsyncTrace`.) -/
def validTrace (isMap : Bool) (n : Nat) (tr : List Event) : Bool :=
  match runMon isMap n tr with
  | some m => m.ret
  | none => false

/-! ### the safety statement, as a checker -/

def Worker.finished (s : Skel) (w : Worker) : Bool := decide (w.pc = s.body.length)

def Event.index? : Event → Option Nat
  | .callStart i | .callEnd i | .write i => some i
  | .ret => none

def BodyStep.isOpaque : BodyStep → Bool
  | .opaque _ => true
  | _ => false

/-- the extractor met something it does not understand -/
def Skel.unrecognised (s : Skel) : Bool := !s.extra.isEmpty || s.body.any BodyStep.isOpaque

def Event.outOfRange (n : Nat) (e : Event) : Bool :=
  match e.index? with
  | some i => decide (n ≤ i)
  | none => false

/-- `none` when the state satisfies every conjunct of the safety statement, otherwise the
conjunct that fails -/
def violation? (s : Skel) (n : Nat) (st : State) : Option String :=
  if st.panicked then
    some "panic: negative WaitGroup counter or Unlock of a mutex not held"
  else if st.unsyncWrite then
    some "result written without holding the mutex"
  else if s.unrecognised then
    some "skeleton contains unrecognised statements"
  else if st.log.any (Event.outOfRange n) then
    some "event for an index out of range"
  else if (List.range n).any (fun i => decide (1 < st.log.count (.callStart i))) then
    some "callback called twice for the same index"
  else if (List.range n).any (fun i => decide (1 < st.log.count (.write i))) then
    some "result slot written twice"
  else if st.workers.zipIdx.any (fun p => p.1.live && decide (p.1.arg ≠ p.2)) then
    some "a worker called the callback with the index of another element"
  else if s.hasResult && decide (1 < st.workers.countP (·.inCall)) then
    some "two callbacks overlap although they must run under the mutex"
  else match st.main with
    | .returned =>
      if !st.workers.all (Worker.finished s) then
        some "returned before every worker finished"
      else if !validTrace s.hasResult n (observe st.log) then
        some "observable trace rejected by validTrace"
      else if s.hasResult && decide (st.result ≠ (List.range n).map some) then
        some "result differs from the sequential Map"
      else none
    | _ => none

/-- nothing enabled although the method has not returned (and has not crashed) -/
def deadlocked (s : Skel) (n : Nat) (st : State) : Bool :=
  (enabled s n st).isEmpty && !st.panicked &&
    (match st.main with | .returned => false | _ => true)

/-! ### exhaustive exploration -/

structure Execution where
  n : Nat
  schedule : List Action
  final : State
  /-- `none` = no conjunct violated along the execution -/
  verdict : Option String
  deriving Repr, Inhabited

/-- an upper bound of the length of any execution (cf. `measure`) -/
def fuelFor (s : Skel) (n : Nat) : Nat := n + 3 + n * (2 * s.body.length)

/-- all maximal executions (depth-first; the schedule is accumulated in reverse) -/
def exploreFrom (s : Skel) (n : Nat) : Nat → State → List Action → List Execution
  | 0, st, acc => [⟨n, acc.reverse, st, some "out of fuel"⟩]
  | fuel + 1, st, acc =>
    match violation? s n st with
    | some v => [⟨n, acc.reverse, st, some v⟩]
    | none =>
      match enabled s n st with
      | [] => [⟨n, acc.reverse, st, if deadlocked s n st then some "deadlock" else none⟩]
      | as => as.flatMap (fun a => exploreFrom s n fuel (step s n st a) (a :: acc))

/-- every schedule for `n` elements (exponential: small `n` only); an execution is cut at the
first state that violates the safety statement -/
def exploreAll (s : Skel) (n : Nat) : List Execution :=
  exploreFrom s n (fuelFor s n + 1) (init s n) []

def findViolation (s : Skel) (n : Nat) : Nat → State → List Action → Option Execution
  | 0, _, _ => none
  | fuel + 1, st, acc =>
    match violation? s n st with
    | some v => some ⟨n, acc.reverse, st, some v⟩
    | none =>
      match enabled s n st with
      | [] => if deadlocked s n st then some ⟨n, acc.reverse, st, some "deadlock"⟩ else none
      | as => as.findSome? (fun a => findViolation s n fuel (step s n st a) (a :: acc))

/-- the first (in depth-first order) execution that violates a conjunct of the safety statement -/
def firstViolation (s : Skel) (n : Nat) : Option Execution :=
  findViolation s n (fuelFor s n + 1) (init s n) []

/-! ### printing -/

def Action.pretty : Action → String
  | .add => "main: wg.Add"
  | .spawn => "main: go step(…)"
  | .wait => "main: wg.Wait() returns; return"
  | .work i => s!"worker {i}"

def Event.pretty : Event → String
  | .callStart i => s!"callStart {i}"
  | .callEnd i => s!"callEnd {i}"
  | .write i => s!"write {i}"
  | .ret => "ret"

def BodyStep.pretty : BodyStep → String
  | .lock => "mutex.Lock()"
  | .unlock => "mutex.Unlock()"
  | .call => "function(i, x)"
  | .callWrite => "result.Replace/Set(i, function(i, x))"
  | .done => "group.Done()"
  | .opaque src => s!"<{src}>"

/-- replay a schedule, naming what each worker step does -/
def describeSchedule (s : Skel) (n : Nat) : State → List Action → List String
  | _, [] => []
  | st, a :: rest =>
    let line := match a with
      | .work i =>
        match st.workers[i]? with
        | some w =>
          match s.body[w.pc]? with
          | some b =>
            let what := match b with
              | .call | .callWrite => if w.inCall then b.pretty ++ " returns" else "enters " ++ b.pretty
              | _ => b.pretty
            s!"worker {i}: {what}"
          | none => a.pretty
        | none => a.pretty
      | .add =>
        match s.add with
        | .beforeLoop => if s.addIsCount then "main: wg.Add(count)" else "main: wg.Add(1)"
        | _ => "main: (no wg.Add before the loop)"
      | .spawn =>
        match s.add with
        | .insideLoop =>
          (if s.addIsCount then "main: wg.Add(count); " else "main: wg.Add(1); ") ++ "go …"
        | _ => a.pretty
      | .wait => if s.waitBeforeReturn then a.pretty else "main: return (no wg.Wait())"
    line :: describeSchedule s n (step s n st a) rest

def Execution.pretty (s : Skel) (e : Execution) : String :=
  let steps := describeSchedule s e.n (init s e.n) e.schedule
  let numbered := steps.zipIdx.map (fun p => s!"  {p.2 + 1}. {p.1}")
  String.intercalate "\n"
    ([s!"execution for n = {e.n} ({e.schedule.length} steps)"] ++ numbered ++
     [s!"  log: [{String.intercalate ", " (e.final.log.map Event.pretty)}]",
      s!"  counter = {e.final.counter}, panicked = {e.final.panicked}, result = {repr e.final.result}",
      match e.verdict with
      | none => "  verdict: ok"
      | some v => s!"  verdict: VIOLATION — {v}"])

end Anytype.Async
