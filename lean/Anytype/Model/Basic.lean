/-
Basic value types of the anytype model.

`Str` models a Go string that is valid UTF-8 (a list of Unicode scalar values).
`F64` models a Go float64 by its IEEE-754 bit pattern.
`JVal` is a pure value tree (what a serialiser prints / a parser returns).
-/
namespace Anytype

abbrev Str := List Char

structure F64 where
  bits : UInt64
  deriving DecidableEq, Repr, Inhabited

/-- The library's `Type` enum, values 0..7 in this order. -/
inductive Kind
  | undefined | nil | object | list | string | bool | int | float
  deriving DecidableEq, Repr, Inhabited

def Kind.toNat : Kind → Nat
  | .undefined => 0 | .nil => 1 | .object => 2 | .list => 3
  | .string => 4 | .bool => 5 | .int => 6 | .float => 7

/-- Pure value trees. An object is an association list; its list order stands for one
iteration order of the Go map. -/
inductive JVal
  | null
  | bool (b : Bool)
  | int (i : Int)
  | float (f : F64)
  | str (s : Str)
  | list (xs : List JVal)
  | obj (kvs : List (Str × JVal))
  deriving Repr, Inhabited

def JVal.kind : JVal → Kind
  | .null => .nil | .bool _ => .bool | .int _ => .int | .float _ => .float
  | .str _ => .string | .list _ => .list | .obj _ => .object

def JVal.isContainer : JVal → Bool
  | .list _ => true | .obj _ => true | _ => false

/-- Go `int` on a 64-bit platform. -/
def InRange (i : Int) : Prop := -(2:Int)^63 ≤ i ∧ i < (2:Int)^63

instance (i : Int) : Decidable (InRange i) := by unfold InRange; infer_instance

/-- two's complement wrap-around to 64 bits (Go `int` arithmetic, `int(uint64)`). -/
def wrap64 (i : Int) : Int :=
  let m := i % (2:Int)^64
  if m < (2:Int)^63 then m else m - (2:Int)^64

end Anytype
