/-
IEEE-754 binary64 on bit patterns with exact (big-number) text conversion.

Everything here is transparent to the kernel except the three arithmetic
operations `add/mul/div`, which use the native `Float` (same hardware
operations Go uses) and about which no theorem says anything beyond
"both sides perform the same operations in the same order".
-/
import Anytype.Model.Basic
namespace Anytype
namespace F64

def signBit (x : F64) : Bool := (x.bits >>> 63) == 1
def expBits (x : F64) : Nat := ((x.bits >>> 52) &&& 0x7ff).toNat
def frac (x : F64) : Nat := (x.bits &&& 0xfffffffffffff).toNat

def isNaN (x : F64) : Bool := x.expBits == 2047 && x.frac != 0
def isInf (x : F64) : Bool := x.expBits == 2047 && x.frac == 0
def isFinite (x : F64) : Bool := x.expBits != 2047
def isZero (x : F64) : Bool := x.expBits == 0 && x.frac == 0

/-- finite value = (-1)^sign * mant * 2^exp2 -/
def mant (x : F64) : Nat := if x.expBits == 0 then x.frac else x.frac + 2^52
def exp2 (x : F64) : Int := if x.expBits == 0 then -1074 else (x.expBits : Int) - 1075

def posZero : F64 := ⟨0⟩
def negZero : F64 := ⟨0x8000000000000000⟩
def posInf : F64 := ⟨0x7ff0000000000000⟩
def negInf : F64 := ⟨0xfff0000000000000⟩
def nan : F64 := ⟨0x7ff8000000000001⟩   -- Go's math.NaN()
def maxFinite : F64 := ⟨0x7fefffffffffffff⟩
def negMaxFinite : F64 := ⟨0xffefffffffffffff⟩
def one : F64 := ⟨0x3ff0000000000000⟩

def neg (x : F64) : F64 := ⟨x.bits ^^^ 0x8000000000000000⟩
def abs (x : F64) : F64 := ⟨x.bits &&& 0x7fffffffffffffff⟩
def withSign (s : Bool) (x : F64) : F64 := if s then ⟨x.bits ||| 0x8000000000000000⟩ else x

/-- number of binary digits of n (0 for 0) -/
def bitLen (n : Nat) : Nat := if n = 0 then 0 else Nat.log2 n + 1

/-- floor (n * 2^(-e) / d) together with the numerator and denominator of that division -/
def scaled (n d : Nat) (e : Int) : Nat × Nat :=
  if e ≥ 0 then (n, d * 2 ^ e.toNat) else (n * 2 ^ (-e).toNat, d)

/-- Round the positive rational `n / d` (d > 0) to the nearest binary64, ties to even.
Returns the unsigned bit pattern, or `none` on overflow (≥ MaxFloat64 + ½ulp). -/
def roundPos (n d : Nat) : Option UInt64 :=
  if n = 0 then some 0 else
  -- first guess for e with 2^52 ≤ n / (d 2^e) < 2^53
  let e0 : Int := (bitLen n : Int) - (bitLen d : Int) - 53
  let q0 := let (a, b) := scaled n d e0; a / b
  let e1 : Int := if q0 < 2^52 then e0 - 1 else if q0 ≥ 2^53 then e0 + 1 else e0
  let q1 := let (a, b) := scaled n d e1; a / b
  let e2 : Int := if q1 < 2^52 then e1 - 1 else if q1 ≥ 2^53 then e1 + 1 else e1
  let e : Int := if e2 < -1074 then -1074 else e2
  let (a, b) := scaled n d e
  let q := a / b
  let r := a % b
  let q' := if 2 * r > b then q + 1 else if 2 * r < b then q else (if q % 2 = 1 then q + 1 else q)
  let (q'', e') := if q' = 2^53 then (2^52, e + 1) else (q', e)
  if e' > 971 then none
  else if q'' < 2^52 then some (UInt64.ofNat q'')
  else some (UInt64.ofNat (((e' + 1075).toNat <<< 52) + (q'' - 2^52)))

/-- signed version; `none` = out of range -/
def roundRat (neg : Bool) (n d : Nat) : Option F64 :=
  (roundPos n d).map fun b => withSign neg ⟨b⟩

/-- Go `float64(i)` for an `int` -/
def ofInt (i : Int) : F64 :=
  match roundRat (i < 0) i.natAbs 1 with
  | some x => x
  | none => posInf   -- unreachable for 64-bit ints

/-! ### comparison (Go `==`, `<`) on exact values -/

/-- compare two finite non-NaN values: mantissa/exponent comparison of magnitudes -/
def magLt (x y : F64) : Bool :=
  -- x.mant * 2^x.exp2 < y.mant * 2^y.exp2
  let ex := x.exp2; let ey := y.exp2
  if ex ≤ ey then x.mant < y.mant * 2 ^ (ey - ex).toNat
  else x.mant * 2 ^ (ex - ey).toNat < y.mant

def eqGo (x y : F64) : Bool :=
  if x.isNaN || y.isNaN then false
  else if x.isZero && y.isZero then true
  else x.bits == y.bits

def ltGo (x y : F64) : Bool :=
  if x.isNaN || y.isNaN then false
  else if x.isZero && y.isZero then false
  else match x.signBit, y.signBit with
    | true, false => true
    | false, true => false
    | false, false => (x.abs.bits < y.abs.bits)   -- IEEE ordering of non-negative patterns
    | true, true => (y.abs.bits < x.abs.bits)

def leGo (x y : F64) : Bool := ltGo x y || eqGo x y

/-! ### native arithmetic -/
def toFloat (x : F64) : Float := Float.ofBits x.bits
def ofFloat (f : Float) : F64 := ⟨f.toBits⟩
/-- canonicalise NaN payloads for comparison of computed results -/
def canonNaN (x : F64) : F64 := if x.isNaN then nan else x
def add (x y : F64) : F64 := ofFloat (x.toFloat + y.toFloat)
def mul (x y : F64) : F64 := ofFloat (x.toFloat * y.toFloat)
def div (x y : F64) : F64 := ofFloat (x.toFloat / y.toFloat)

/-! ### magnitude tests used by the serialiser -/

/-- `|x| ≥ 10^k` for finite x, k ≥ 0 -/
def absGePow10 (x : F64) (k : Nat) : Bool :=
  let e := x.exp2
  if e ≥ 0 then x.mant * 2 ^ e.toNat ≥ 10 ^ k else x.mant ≥ 10 ^ k * 2 ^ (-e).toNat

/-- `|x| ≤ 10^(-k)` for finite x -/
def absLeNegPow10 (x : F64) (k : Nat) : Bool :=
  let e := x.exp2
  if e ≥ 0 then x.mant * 2 ^ e.toNat * 10 ^ k ≤ 1 else x.mant * 10 ^ k ≤ 2 ^ (-e).toNat

/-- x is finite and integer-valued (Go: `x == math.Trunc(x)` on finite x) -/
def isWhole (x : F64) : Bool :=
  x.isFinite &&
  (let e := x.exp2
   if e ≥ 0 then true else x.mant % 2 ^ (-e).toNat == 0)

/-! ### shortest decimal digits (strconv.FormatFloat(x, fmt, -1, 64)) -/

def natDigits (n : Nat) : List Nat := (Nat.toDigits 10 n).map (fun c => c.toNat - '0'.toNat)

/-- number of decimal digits of n ≥ 1 -/
def decLen (n : Nat) : Nat := (Nat.toDigits 10 n).length

/-- For finite non-zero x: exact |x| as a rational num/den -/
def absRat (x : F64) : Nat × Nat :=
  let e := x.exp2
  if e ≥ 0 then (x.mant * 2 ^ e.toNat, 1) else (x.mant, 2 ^ (-e).toNat)

/-- decimal exponent E with 10^E ≤ n/d < 10^(E+1), for n > 0 -/
def decExp (n d : Nat) : Int :=
  if n ≥ d then
    -- integer part has k digits → E = k - 1
    (decLen (n / d) : Int) - 1
  else
    -- n/d < 1: find smallest j ≥ 1 with n * 10^j ≥ d ; E = -j
    let guess := decLen (d / n)   -- d/n ≥ 1; 10^(g-1) ≤ d/n < 10^g
    let j : Nat := (if n * 10 ^ (guess - 1) ≥ d then guess - 1 else if n * 10 ^ guess ≥ d then guess else guess + 1)
    Int.neg (j : Int)

/-- try precision p: returns the chosen p-digit integer candidate (as Nat, may be 10^p) -/
def tryPrec (target : UInt64) (n d : Nat) (E : Int) (p : Nat) : Option Nat :=
  -- scale so that value = c * 10^k with k = E - (p-1)
  let k : Int := E - ((p : Int) - 1)
  let (a, b) := if k ≥ 0 then (n, d * 10 ^ k.toNat) else (n * 10 ^ (-k).toNat, d)
  let lo := a / b
  let r := a % b
  let back (c : Nat) : Bool :=
    let (cn, cd) := if k ≥ 0 then (c * 10 ^ k.toNat, 1) else (c, 10 ^ (-k).toNat)
    roundPos cn cd == some target
  if r = 0 then (if back lo then some lo else none)
  else
    let hi := lo + 1
    let okLo := back lo
    let okHi := back hi
    if okLo && okHi then
      (if 2 * r < b then some lo else if 2 * r > b then some hi else (if lo % 2 = 0 then some lo else some hi))
    else if okLo then some lo
    else if okHi then some hi
    else none

def shortestLoop (target : UInt64) (n d : Nat) (E : Int) : Nat → Nat → Option (Nat × Nat)
  | 0, _ => none
  | fuel + 1, p =>
    match tryPrec target n d E p with
    | some c => some (c, p)
    | none => shortestLoop target n d E fuel (p + 1)

/-- shortest digits of finite non-zero x: (digits without trailing zeros, decimal exponent of first digit) -/
def shortest (x : F64) : List Nat × Int :=
  let (n, d) := absRat x
  let E := decExp n d
  match shortestLoop x.abs.bits n d E 17 1 with
  | none => ([], 0)     -- unreachable if FmtContract holds
  | some (c, p) =>
    -- c has p digits, or p+1 digits when c = 10^p
    let ds := natDigits c
    let E' := if ds.length > p then E + 1 else E
    let ds' := (ds.reverse.dropWhile (· == 0)).reverse
    (ds', E')

def digitChar (d : Nat) : Char := Char.ofNat (d + 48)

def natToStr (n : Nat) : Str := Nat.toDigits 10 n

/-- `strconv.FormatFloat(x, 'e', -1, 64)` -/
def fmtE (x : F64) : Str :=
  if x.isNaN then "NaN".toList
  else if x.isInf then (if x.signBit then "-Inf".toList else "+Inf".toList)
  else
    let sgn : Str := if x.signBit then ['-'] else []
    if x.isZero then sgn ++ "0e+00".toList
    else
      let (ds, E) := shortest x
      let head := match ds with | [] => ['0'] | d :: _ => [digitChar d]
      let tail := ds.drop 1
      let fracPart : Str := if tail.isEmpty then [] else '.' :: tail.map digitChar
      let es : Str := if E < 0 then ['-'] else ['+']
      let en := natToStr E.natAbs
      let en := if en.length < 2 then '0' :: en else en
      sgn ++ head ++ fracPart ++ ['e'] ++ es ++ en

/-- `strconv.FormatFloat(x, 'f', -1, 64)` -/
def fmtF (x : F64) : Str :=
  if x.isNaN then "NaN".toList
  else if x.isInf then (if x.signBit then "-Inf".toList else "+Inf".toList)
  else
    let sgn : Str := if x.signBit then ['-'] else []
    if x.isZero then sgn ++ ['0']
    else
      let (ds, E) := shortest x
      if E ≥ 0 then
        let ip := E.toNat + 1
        let intDigits := (ds.take ip) ++ List.replicate (ip - ds.length) 0
        let rest := ds.drop ip
        sgn ++ intDigits.map digitChar ++ (if rest.isEmpty then [] else '.' :: rest.map digitChar)
      else
        let zeros := ((-E).toNat - 1)
        sgn ++ ['0', '.'] ++ List.replicate zeros '0' ++ ds.map digitChar

/-! ### strconv.ParseFloat(s, 64) -/

def lower (c : Char) : Char := if 'A' ≤ c ∧ c ≤ 'Z' then Char.ofNat (c.toNat + 32) else c

def isDigit (c : Char) : Bool := '0' ≤ c && c ≤ '9'
def isHexLetter (c : Char) : Bool := let l := lower c; 'a' ≤ l && l ≤ 'f'
def hexVal (c : Char) : Nat := if isDigit c then c.toNat - 48 else (lower c).toNat - 97 + 10

/-- `underscoreOK` of strconv (shared by ParseInt base 0 and ParseFloat) -/
def underscoreOK (s : Str) : Bool :=
  let s := match s with | '-' :: t => t | '+' :: t => t | _ => s
  let (hex, body, saw0) :=
    match s with
    | '0' :: c :: t =>
      let l := lower c
      if l == 'b' || l == 'o' || l == 'x' then (l == 'x', t, '0') else (false, s, '^')
    | _ => (false, s, '^')
  let rec go (hex : Bool) : Str → Char → Bool
    | [], saw => saw != '_'
    | c :: t, saw =>
      if isDigit c || (hex && isHexLetter c) then go hex t '0'
      else if c == '_' then (if saw != '0' then false else go hex t '_')
      else if saw == '_' then false
      else go hex t '!'
  go hex body saw0

def eqFold (s : Str) (lit : String) : Bool := s.map lower == lit.toList

/-- special values: exactly (sign)inf, (sign)infinity, nan (no sign), case-insensitive -/
def parseSpecial (s : Str) : Option F64 :=
  match s with
  | '+' :: t => if eqFold t "inf" || eqFold t "infinity" then some posInf else none
  | '-' :: t => if eqFold t "inf" || eqFold t "infinity" then some negInf else none
  | _ => if eqFold s "inf" || eqFold s "infinity" then some posInf
         else if eqFold s "nan" then some nan else none

/-- read mantissa digits: returns (mantissa value, number of digits after the dot, sawDigits, sawDot, rest) -/
def readMant (base : Nat) : Str → Nat → Nat → Bool → Bool → Nat × Nat × Bool × Bool × Str
  | [], m, fd, sd, dot => (m, fd, sd, dot, [])
  | c :: t, m, fd, sd, dot =>
    if c == '_' then readMant base t m fd sd dot
    else if c == '.' then (if dot then (m, fd, sd, dot, c :: t) else readMant base t m fd sd true)
    else if isDigit c then readMant base t (m * base + (c.toNat - 48)) (if dot then fd + 1 else fd) true dot
    else if base == 16 && isHexLetter c then readMant base t (m * 16 + hexVal c) (if dot then fd + 1 else fd) true dot
    else (m, fd, sd, dot, c :: t)

/-- read exponent digits (with underscores); returns (value capped, rest) -/
def readExpDigits : Str → Nat → Nat × Str
  | [], e => (e, [])
  | c :: t, e =>
    if c == '_' then readExpDigits t e
    else if isDigit c then readExpDigits t (if e < 10000 then e * 10 + (c.toNat - 48) else e)
    else (e, c :: t)

/-- outcome of parsing: `none` = syntax error; `some none` = range error; `some (some x)` = value -/
def parseFloatCore (s : Str) : Option (Option F64) :=
  let (neg, s1) : Bool × Str := match s with | '+' :: t => (false, t) | '-' :: t => (true, t) | _ => (false, s)
  let (hex, s2) : Bool × Str :=
    match s1 with
    | '0' :: c :: d :: t => if lower c == 'x' then (true, d :: t) else (false, s1)
    | _ => (false, s1)
  let base := if hex then 16 else 10
  let (m, fd, sawDigits, _, rest) := readMant base s2 0 0 false false
  if !sawDigits then none else
  let expChar := if hex then 'p' else 'e'
  -- exponent
  let expRes : Option (Int × Str) :=
    match rest with
    | c :: t =>
      if lower c == expChar then
        match t with
        | [] => none
        | _ =>
          let (esign, t') : Int × Str := match t with | '+' :: u => (1, u) | '-' :: u => (-1, u) | _ => (1, t)
          match t' with
          | d :: _ =>
            if isDigit d then
              let (e, r) := readExpDigits t' 0
              some (esign * (e : Int), r)
            else none
          | [] => none
      else if hex then none else some (0, rest)
    | [] => if hex then none else some (0, [])
  match expRes with
  | none => none
  | some (e, rest') =>
    if !rest'.isEmpty then none
    else if s.contains '_' && !underscoreOK s then none
    else
      if m = 0 then some (some (withSign neg posZero)) else
      if hex then
        -- value = m * 16^(-fd) * 2^e
        let e2 : Int := e - 4 * (fd : Int)
        if e2 > 2000 then some none
        else if e2 < -3000 - 4 * (bitLen m : Int) then some (some (withSign neg posZero))
        else
          let (n, d) := if e2 ≥ 0 then (m * 2 ^ e2.toNat, 1) else (m, 2 ^ (-e2).toNat)
          some (roundRat neg n d)
      else
        -- value = m * 10^(e - fd)
        let e10 : Int := e - (fd : Int)
        let nd : Int := decLen m
        if e10 + nd > 400 then some none
        else if e10 + nd < -400 then some (some (withSign neg posZero))
        else
          let (n, d) := if e10 ≥ 0 then (m * 10 ^ e10.toNat, 1) else (m, 10 ^ (-e10).toNat)
          some (roundRat neg n d)

/-- `strconv.ParseFloat(s, 64)` with `err == nil`; `none` for syntax and range errors alike
(the library only tests `err == nil`). -/
def parseFloat (s : Str) : Option F64 :=
  match parseSpecial s with
  | some x => some x
  | none => match parseFloatCore s with
    | some (some x) => some x
    | _ => none

end F64
end Anytype
