/-
Heap model: containers have identity (an address), scalars are held by value.

A Go `[]field` is a `List Val`, a Go `map[string]field` an association list with distinct
keys (its order stands for one iteration order). Capacity / backing-array sharing is not
modelled (sound when every list cell exclusively owns its backing array; DESIGN §3.1).
-/
import Anytype.Model.Parser
namespace Anytype

/-- identity of an interface value of type List / Object: the container's address and the
embedding level of the value (`0` = the library's own `*list`/`*object`, `k > 0` = the k-th
user type wrapped around it, see C19). -/
structure Ref where
  addr : Nat
  lvl : Nat := 0
  deriving DecidableEq, Repr, Inhabited

inductive Val
  | nil
  | bool (b : Bool)
  | int (i : Int)
  | float (f : F64)
  | str (s : Str)
  | list (r : Ref)
  | obj (r : Ref)
  deriving DecidableEq, Repr, Inhabited

def Val.kind : Val → Kind
  | .nil => .nil | .bool _ => .bool | .int _ => .int | .float _ => .float
  | .str _ => .string | .list _ => .list | .obj _ => .object

/-- a container cell; `ego` is the embedding level registered with `Init` -/
inductive Cell
  | list (items : List Val) (ego : Nat)
  | obj (fields : List (Str × Val)) (ego : Nat)
  deriving DecidableEq, Repr, Inhabited

/-- address = index; allocation appends; addresses are never reused -/
abbrev Heap := List Cell

inductive PanicKind
  | indexRange | notKind | missingKey | oddPairs | keyNotString | badTF | badInt
  | unsupported | badIndent | subListEnd | subListOrder | subListStart | sortKind
  | noValue | runtime
  deriving DecidableEq, Repr, Inhabited

inductive Out (α : Type)
  | ok (a : α)
  | panic (k : PanicKind)
  deriving Repr, Inhabited

def Out.isPanic {α} : Out α → Bool | .panic _ => true | .ok _ => false

namespace Heap

def items (h : Heap) (a : Nat) : List Val :=
  match h[a]? with | some (.list xs _) => xs | _ => []

def fields (h : Heap) (a : Nat) : List (Str × Val) :=
  match h[a]? with | some (.obj kvs _) => kvs | _ => []

def ego (h : Heap) (a : Nat) : Nat :=
  match h[a]? with | some (.list _ e) => e | some (.obj _ e) => e | none => 0

def isList (h : Heap) (a : Nat) : Bool := match h[a]? with | some (.list _ _) => true | _ => false
def isObj (h : Heap) (a : Nat) : Bool := match h[a]? with | some (.obj _ _) => true | _ => false

def setItems (h : Heap) (a : Nat) (xs : List Val) : Heap :=
  match h[a]? with | some (.list _ e) => h.set a (.list xs e) | _ => h

def setFields (h : Heap) (a : Nat) (kvs : List (Str × Val)) : Heap :=
  match h[a]? with | some (.obj _ e) => h.set a (.obj kvs e) | _ => h

/-- `Init(ptr)` -/
def setEgo (h : Heap) (a : Nat) (e : Nat) : Heap :=
  match h[a]? with
  | some (.list xs _) => h.set a (.list xs e)
  | some (.obj kvs _) => h.set a (.obj kvs e)
  | none => h

def alloc (h : Heap) (c : Cell) : Heap × Nat := (h ++ [c], h.length)

/-- `getVal()` of a stored field: scalars by value, containers as `Ego()` of the cell -/
def getVal (h : Heap) : Val → Val
  | .list r => .list ⟨r.addr, h.ego r.addr⟩
  | .obj r => .obj ⟨r.addr, h.ego r.addr⟩
  | v => v

/-- what a fluent method returns: `ego.Ego()` -/
def egoRef (h : Heap) (a : Nat) : Ref := ⟨a, h.ego a⟩

end Heap

/-! ### association-list helpers (the Go map) -/

def lookup (kvs : List (Str × α)) (k : Str) : Option α :=
  match kvs with
  | [] => none
  | (k', v) :: rest => if k' == k then some v else lookup rest k

/-- `m[k] = v` -/
def setKV (kvs : List (Str × α)) (k : Str) (v : α) : List (Str × α) :=
  match kvs with
  | [] => [(k, v)]
  | (k', v') :: rest => if k' == k then (k, v) :: rest else (k', v') :: setKV rest k v

/-- `delete(m, k)` -/
def delKV (kvs : List (Str × α)) (k : Str) : List (Str × α) :=
  match kvs with
  | [] => []
  | (k', v') :: rest => if k' == k then rest else (k', v') :: delKV rest k

/-! ### reification: the pure tree a value denotes -/

mutual
def reify : Nat → Heap → Val → Option JVal
  | _, _, .nil => some .null
  | _, _, .bool b => some (.bool b)
  | _, _, .int i => some (.int i)
  | _, _, .float f => some (.float f)
  | _, _, .str s => some (.str s)
  | 0, _, .list _ => none
  | 0, _, .obj _ => none
  | n + 1, h, .list r =>
    match h[r.addr]? with
    | some (.list xs _) => (reifyList n h xs).map .list
    | _ => none
  | n + 1, h, .obj r =>
    match h[r.addr]? with
    | some (.obj kvs _) => (reifyFields n h kvs).map .obj
    | _ => none
def reifyList : Nat → Heap → List Val → Option (List JVal)
  | _, _, [] => some []
  | n, h, v :: vs =>
    match reify n h v, reifyList n h vs with
    | some x, some xs => some (x :: xs)
    | _, _ => none
def reifyFields : Nat → Heap → List (Str × Val) → Option (List (Str × JVal))
  | _, _, [] => some []
  | n, h, (k, v) :: kvs =>
    match reify n h v, reifyFields n h kvs with
    | some x, some xs => some ((k, x) :: xs)
    | _, _ => none
end

/-- the value is acyclic (and not dangling): some amount of fuel reifies it -/
def Acyclic (h : Heap) (v : Val) : Prop := ∃ n, (reify n h v).isSome

/-- executable reification with enough fuel for any acyclic value -/
def reifyF (h : Heap) (v : Val) : Option JVal := reify (h.length + 1) h v

/-! ### building a pure tree on the heap (fresh cells) -/

mutual
def build : Heap → JVal → Heap × Val
  | h, .null => (h, .nil)
  | h, .bool b => (h, .bool b)
  | h, .int i => (h, .int i)
  | h, .float f => (h, .float f)
  | h, .str s => (h, .str s)
  | h, .list xs =>
    let (h1, vs) := buildList h xs
    (h1 ++ [.list vs 0], .list ⟨h1.length, 0⟩)
  | h, .obj kvs =>
    let (h1, fs) := buildFields h kvs
    (h1 ++ [.obj fs 0], .obj ⟨h1.length, 0⟩)
def buildList : Heap → List JVal → Heap × List Val
  | h, [] => (h, [])
  | h, x :: xs =>
    let (h1, v) := build h x
    let (h2, vs) := buildList h1 xs
    (h2, v :: vs)
def buildFields : Heap → List (Str × JVal) → Heap × List (Str × Val)
  | h, [] => (h, [])
  | h, (k, x) :: kvs =>
    let (h1, v) := build h x
    let (h2, fs) := buildFields h1 kvs
    (h2, (k, v) :: fs)
end

/-! ### reachability -/

mutual
def reach : Nat → Heap → Val → List Nat
  | 0, _, _ => []
  | n + 1, h, .list r =>
    r.addr :: reachList n h (h.items r.addr)
  | n + 1, h, .obj r =>
    r.addr :: reachList n h ((h.fields r.addr).map (·.2))
  | _ + 1, _, _ => []
def reachList : Nat → Heap → List Val → List Nat
  | _, _, [] => []
  | n, h, v :: vs => reach n h v ++ reachList n h vs
end

def reachF (h : Heap) (v : Val) : List Nat := reach (h.length + 1) h v

end Anytype
