/-
Model of `FormatString`: `json.Indent(buf, String(), "", strings.Repeat(" ", indent))`
with the error discarded. `indentGo` is encoding/json's `appendIndent` restricted to what it
does on a compact, valid JSON text (it tracks only in-string / escape / depth / delayed indent);
on invalid JSON the real function fails and FormatString returns "".
-/
import Anytype.Model.Aggregates
namespace Anytype

def newline (ind depth : Nat) : Str := '\n' :: List.replicate (ind * depth) ' '

/-- `appendIndent` over the characters of a compact JSON text -/
def indentGo (ind : Nat) : Str → (inStr esc needIndent : Bool) → (depth : Nat) → Str
  | [], _, _, _, _ => []
  | c :: rest, inStr, esc, needIndent, depth =>
    if inStr then
      -- inside a string literal every byte is copied; track the closing quote
      if esc then c :: indentGo ind rest true false needIndent depth
      else if c == '\\' then c :: indentGo ind rest true true needIndent depth
      else if c == '"' then c :: indentGo ind rest false false needIndent depth
      else c :: indentGo ind rest true false needIndent depth
    else
      let closing := c == '}' || c == ']'
      -- delayed indent after an opening bracket, unless the container is empty
      let (pre, depth1, need1) : Str × Nat × Bool :=
        if needIndent && !closing then (newline ind (depth + 1), depth + 1, false) else ([], depth, needIndent)
      if c == '{' || c == '[' then pre ++ c :: indentGo ind rest false false true depth1
      else if c == ',' then pre ++ c :: newline ind depth1 ++ indentGo ind rest false false need1 depth1
      else if c == ':' then pre ++ c :: ' ' :: indentGo ind rest false false need1 depth1
      else if closing then
        if need1 then pre ++ c :: indentGo ind rest false false false depth1
        else pre ++ newline ind (depth1 - 1) ++ c :: indentGo ind rest false false false (depth1 - 1)
      else if c == '"' then pre ++ c :: indentGo ind rest true false need1 depth1
      else pre ++ c :: indentGo ind rest false false need1 depth1

mutual
def hasNonFinite : JVal → Bool
  | .float f => !f.isFinite
  | .list xs => hasNonFiniteList xs
  | .obj kvs => hasNonFiniteFields kvs
  | _ => false
def hasNonFiniteList : List JVal → Bool
  | [] => false | x :: xs => hasNonFinite x || hasNonFiniteList xs
def hasNonFiniteFields : List (Str × JVal) → Bool
  | [] => false | (_, x) :: kvs => hasNonFinite x || hasNonFiniteFields kvs
end

/-- `FormatString(indent)`: `none` = panic "invalid indentation" -/
def formatString (indent : Int) (v : JVal) : Option Str :=
  if indent < 0 || indent > 10 then none
  else if hasNonFinite v then some []       -- NaN / ±Inf are not JSON: json.Indent fails, "" is returned
  else some (indentGo indent.toNat (ser v) false false false 0)

/-! ### the canonical layout, defined on the tree (specification side of C16) -/
mutual
def pretty (ind depth : Nat) : JVal → Str
  | .list [] => ['[', ']']
  | .list (x :: xs) => '[' :: newline ind (depth + 1) ++ prettyList ind (depth + 1) (x :: xs) ++ newline ind depth ++ [']']
  | .obj [] => ['{', '}']
  | .obj (kv :: kvs) => '{' :: newline ind (depth + 1) ++ prettyFields ind (depth + 1) (kv :: kvs) ++ newline ind depth ++ ['}']
  | v => ser v
def prettyList (ind depth : Nat) : List JVal → Str
  | [] => []
  | x :: xs => match xs with
    | [] => pretty ind depth x
    | _ :: _ => pretty ind depth x ++ ',' :: newline ind depth ++ prettyList ind depth xs
def prettyFields (ind depth : Nat) : List (Str × JVal) → Str
  | [] => []
  | (k, x) :: kvs => match kvs with
    | [] => quoteJSON k ++ ':' :: ' ' :: pretty ind depth x
    | _ :: _ => quoteJSON k ++ ':' :: ' ' :: pretty ind depth x ++ ',' :: newline ind depth ++ prettyFields ind depth kvs
end

end Anytype
