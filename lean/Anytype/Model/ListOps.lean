/-
Model of list_impl.go, one definition per method, written the way the Go code is.
Receivers are addresses of list cells. Every function returns the new heap and
either a result or the panic kind; on a panic the heap is the heap at the panic point.
-/
import Anytype.Model.Normalize
namespace Anytype
namespace L

/-- `NewList(values...)` -/
def new (h : Heap) (gs : List GoVal) : Heap × Out Ref :=
  let a := h.length
  match addEach (h ++ [.list [] 0]) a gs with
  | (h1, .ok _) => (h1, .ok ⟨a, 0⟩)
  | (h1, .panic k) => (h1, .panic k)

/-- `NewListOf(value, count)`: one wrapped element stored `count` times -/
def newOf (h : Heap) (g : GoVal) (count : Int) : Heap × Out Ref :=
  if count < 0 then (h, .panic .runtime)      -- make([]field, 0, count) with a negative cap
  else
    let a := h.length
    match parseVal (h ++ [.list [] 0]) g with
    | (h1, .panic k) => (h1, .panic k)
    | (h1, .ok v) => (h1.setItems a (List.replicate count.toNat v), .ok ⟨a, 0⟩)

/-- `NewListFrom(slice)` is `parseVal` of a slice value -/
def newFrom (h : Heap) (g : GoVal) : Heap × Out Ref :=
  match g with
  | .slice _ _ =>
    match parseVal h g with
    | (h1, .ok (.list r)) => (h1, .ok r)
    | (h1, .panic k) => (h1, .panic k)
    | (h1, _) => (h1, .panic .runtime)
  | _ => (h, .panic .unsupported)

def count (h : Heap) (a : Nat) : Int := (h.items a).length

/-- `Add(values...)` -/
def add (h : Heap) (a : Nat) (gs : List GoVal) : Heap × Out Ref :=
  match addEach h a gs with
  | (h1, .ok _) => (h1, .ok (h1.egoRef a))
  | (h1, .panic k) => (h1, .panic k)

/-- `Insert(index, value)` -/
def insert (h : Heap) (a : Nat) (index : Int) (g : GoVal) : Heap × Out Ref :=
  if index < 0 || index > count h a then (h, .panic .indexRange)
  else if index == count h a then add h a [g]
  else
    match parseVal h g with
    | (h1, .panic k) => (h1, .panic k)
    | (h1, .ok elem) =>
      let xs := h1.items a
      let i := index.toNat
      -- ego.val = append(ego.val[:index+1], ego.val[index:]...); ego.val[index] = elem
      let shifted := xs.take (i + 1) ++ xs.drop i
      (h1.setItems a (shifted.set i elem), .ok (h1.egoRef a))

/-- `Replace(index, value)` -/
def replace (h : Heap) (a : Nat) (index : Int) (g : GoVal) : Heap × Out Ref :=
  if index < 0 || index >= count h a then (h, .panic .indexRange)
  else
    match parseVal h g with
    | (h1, .panic k) => (h1, .panic k)
    | (h1, .ok elem) => (h1.setItems a ((h1.items a).set index.toNat elem), .ok (h1.egoRef a))

/-- the loop of `Delete`: indexes (sorted ascending) processed from the largest -/
def deleteLoop (h : Heap) (a : Nat) : List Int → Heap × Out Unit
  | [] => (h, .ok ())
  | index :: rest =>
    if index < 0 || index >= count h a then (h, .panic .indexRange)
    else
      let xs := h.items a
      let i := index.toNat
      deleteLoop (h.setItems a (xs.take i ++ xs.drop (i + 1))) a rest

/-- `Delete(indexes...)` -/
def delete (h : Heap) (a : Nat) (indexes : List Int) : Heap × Out Ref :=
  let sorted := indexes.mergeSort (fun x y => decide (x ≤ y))
  match deleteLoop h a sorted.reverse with
  | (h1, .ok _) => (h1, .ok (h1.egoRef a))
  | (h1, .panic k) => (h1, .panic k)

/-- `Pop()` -/
def pop (h : Heap) (a : Nat) : Heap × Out Ref := delete h a [count h a - 1]

/-- `Clear()` -/
def clear (h : Heap) (a : Nat) : Heap × Out Ref := (h.setItems a [], .ok (h.egoRef a))

/-- `Get(index)` -/
def get (h : Heap) (a : Nat) (index : Int) : Out Val :=
  if count h a <= index || index < 0 then .panic .indexRange
  else match (h.items a)[index.toNat]? with
    | some v => .ok (h.getVal v)
    | none => .panic .runtime

/-- the six typed getters: `Get` followed by a type assertion -/
def getK (h : Heap) (a : Nat) (k : Kind) (index : Int) : Out Val :=
  match get h a index with
  | .panic p => .panic p
  | .ok v => if v.kind == k then .ok v else .panic .notKind

/-- `TypeOf(index)` -/
def typeOf (h : Heap) (a : Nat) (index : Int) : Kind :=
  if index >= 0 && index < count h a then
    match (h.items a)[index.toNat]? with
    | some v => v.kind
    | none => .undefined
  else .undefined

def empty (h : Heap) (a : Nat) : Bool := count h a == 0

/-- `Slice()`: what `Get` returns per index -/
def slice (h : Heap) (a : Nat) : List Val := (h.items a).map h.getVal

/-- selection used by the typed variants: the element if it has kind `k`;
`viaGetVal` says whether the code asserts on `item.getVal()` or on the stored `item` -/
def sel (h : Heap) (viaGetVal : Bool) (k : Kind) (v : Val) : Option Val :=
  if v.kind == k then some (if viaGetVal then h.getVal v else v) else none

/-- does the typed variant for kind `k` look at `item.getVal()` (scalars) or at `item` (containers)? -/
def viaGetValL (k : Kind) : Bool := !(k == .object || k == .list)

/-- the typed slices, as the loop: append the elements whose assertion succeeds -/
def sliceKLoop (h : Heap) (k : Kind) : List Val → List Val → List Val
  | [], acc => acc
  | item :: rest, acc =>
    match sel h (viaGetValL k) k item with
    | some v => sliceKLoop h k rest (acc ++ [v])
    | none => sliceKLoop h k rest acc

def sliceK (h : Heap) (a : Nat) (k : Kind) : List Val := sliceKLoop h k (h.items a) []

/-- `Contains(elem)`: Go `==` on interface values (scalars by kind and value, containers by identity) -/
def goEq (x y : Val) : Bool :=
  match x, y with
  | .float f, .float g => F64.eqGo f g
  | _, _ => x == y

def contains (h : Heap) (a : Nat) (elem : Val) : Bool := (h.items a).any (fun item => goEq (h.getVal item) elem)

def indexOfLoop (h : Heap) (elem : Val) : List Val → Int → Int
  | [], _ => -1
  | item :: rest, i => if goEq (h.getVal item) elem then i else indexOfLoop h elem rest (i + 1)

/-- `IndexOf(elem)` -/
def indexOf (h : Heap) (a : Nat) (elem : Val) : Int := indexOfLoop h elem (h.items a) 0

/-- `Concat(another)`: a new list cell holding the receiver's then the argument's elements -/
def concat (h : Heap) (a : Nat) (another : Ref) : Heap × Out Ref :=
  -- another.base(): the embedded implementation, whatever the embedding level of the argument
  if !h.isList another.addr then (h, .panic .runtime)
  else
    let n := h.length
    (h ++ [.list (h.items a ++ h.items another.addr) 0], .ok ⟨n, 0⟩)

/-- `SubList(start, end)` -/
def subList (h : Heap) (a : Nat) (start : Int) (end_ : Int) : Heap × Out Ref :=
  let c := count h a
  if end_ > c || end_ < -c then (h, .panic .subListEnd)
  else
    let end' := if end_ <= 0 then c + end_ else end_
    if start > end' then (h, .panic .subListOrder)
    else if start < 0 then (h, .panic .subListStart)
    else
      let n := h.length
      (h ++ [.list (((h.items a).drop start.toNat).take (end' - start).toNat) 0], .ok ⟨n, 0⟩)

/-- `Reverse()`: the swap loop `for i := n/2 - 1; i >= 0; i--` -/
def reverseLoop (xs : List Val) (n : Nat) : Nat → List Val
  | 0 => xs
  | i + 1 =>
    -- iteration with loop variable i (counting down from n/2 - 1 to 0)
    let opp := n - 1 - i
    match xs[i]?, xs[opp]? with
    | some x, some y => reverseLoop ((xs.set i y).set opp x) n i
    | _, _ => reverseLoop xs n i

def reverse (h : Heap) (a : Nat) : Heap × Out Ref :=
  let xs := h.items a
  (h.setItems a (reverseLoop xs xs.length (xs.length / 2)), .ok (h.egoRef a))

/-! ### Sort -/

/-- bytewise order of UTF-8 strings = lexicographic order of code points -/
def strLt : Str → Str → Bool
  | [], [] => false
  | [], _ :: _ => true
  | _ :: _, [] => false
  | c :: s, d :: t => if c.toNat < d.toNat then true else if d.toNat < c.toNat then false else strLt s t

def strLe (s t : Str) : Bool := !strLt t s

/-- the `less` of `sort.Float64s` -/
def floatLess (x y : F64) : Bool := F64.ltGo x y || (x.isNaN && !y.isNaN)
def floatLe (x y : F64) : Bool := !floatLess y x

def asStr : Val → Option Str | .str s => some s | _ => none
def asInt : Val → Option Int | .int i => some i | _ => none
def asFloat : Val → Option F64 | .float f => some f | _ => none

/-- `Sort()`: dispatch on the first element, extract the typed slice, sort it, rebuild -/
def sort (h : Heap) (a : Nat) : Heap × Out Ref :=
  let xs := h.items a
  match xs with
  | [] => (h, .panic .runtime)
  | .str _ :: _ =>
    let s := (xs.filterMap asStr).mergeSort strLe
    (h.setItems a (s.map .str), .ok (h.egoRef a))
  | .int _ :: _ =>
    let s := (xs.filterMap asInt).mergeSort (fun x y => decide (x ≤ y))
    (h.setItems a (s.map .int), .ok (h.egoRef a))
  | .float _ :: _ =>
    let s := (xs.filterMap asFloat).mergeSort floatLe
    (h.setItems a (s.map .float), .ok (h.egoRef a))
  | _ :: _ => (h, .panic .sortKind)

/-! ### All* -/

def allKLoop (k : Kind) : List Val → Bool
  | [] => true
  | item :: rest => if item.kind == k then allKLoop k rest else false

def allK (h : Heap) (a : Nat) (k : Kind) : Bool := allKLoop k (h.items a)

def allNumericLoop : List Val → Bool
  | [] => true
  | item :: rest => if item.kind == .int then allNumericLoop rest
                    else if item.kind == .float then allNumericLoop rest else false

def allNumeric (h : Heap) (a : Nat) : Bool := allNumericLoop (h.items a)

/-! ### iteration (callbacks are pure Lean functions; the log is the sequence of invocations) -/

/-- `ForEach(f)`: invocations `(i, item.getVal())` in index order -/
def forEachLoop (h : Heap) : List Val → Int → List (Int × Val) → List (Int × Val)
  | [], _, log => log
  | item :: rest, i, log => forEachLoop h rest (i + 1) (log ++ [(i, h.getVal item)])

def forEach (h : Heap) (a : Nat) : List (Int × Val) := forEachLoop h (h.items a) 0 []

/-- `ForEachValue(f)` -/
def forEachValue (h : Heap) (a : Nat) : List Val := (forEach h a).map (·.2)

/-- the typed `ForEachX(f)`: invocations with the selected elements -/
def forEachKLoop (h : Heap) (k : Kind) : List Val → List Val → List Val
  | [], log => log
  | item :: rest, log =>
    match sel h (viaGetValL k) k item with
    | some v => forEachKLoop h k rest (log ++ [v])
    | none => forEachKLoop h k rest log

def forEachK (h : Heap) (a : Nat) (k : Kind) : List Val := forEachKLoop h k (h.items a) []

/-- `Map(f)`: `result := NewList()`, then `result.Add(f(i, item.getVal()))` per element -/
def mapLoop (res : Nat) (f : Int → Val → GoVal) : Heap → List Val → Int → Heap × Out Unit
  | h, [], _ => (h, .ok ())
  | h, item :: rest, i =>
    match addEach h res [f i (h.getVal item)] with
    | (h1, .panic k) => (h1, .panic k)
    | (h1, .ok _) => mapLoop res f h1 rest (i + 1)

def map (h : Heap) (a : Nat) (f : Int → Val → GoVal) : Heap × Out Ref :=
  let res := h.length
  match mapLoop res f (h ++ [.list [] 0]) (h.items a) 0 with
  | (h1, .ok _) => (h1, .ok ⟨res, 0⟩)
  | (h1, .panic k) => (h1, .panic k)

/-- `MapValues(f)` -/
def mapValues (h : Heap) (a : Nat) (f : Val → GoVal) : Heap × Out Ref := map h a (fun _ v => f v)

/-- the typed `MapX(f)` -/
def mapKLoop (res : Nat) (k : Kind) (f : Val → GoVal) : Heap → List Val → Heap × Out Unit
  | h, [] => (h, .ok ())
  | h, item :: rest =>
    match sel h (viaGetValL k) k item with
    | some v =>
      match addEach h res [f v] with
      | (h1, .panic p) => (h1, .panic p)
      | (h1, .ok _) => mapKLoop res k f h1 rest
    | none => mapKLoop res k f h rest

def mapK (h : Heap) (a : Nat) (k : Kind) (f : Val → GoVal) : Heap × Out Ref :=
  let res := h.length
  match mapKLoop res k f (h ++ [.list [] 0]) (h.items a) with
  | (h1, .ok _) => (h1, .ok ⟨res, 0⟩)
  | (h1, .panic p) => (h1, .panic p)

/-- `Reduce(initial, f)` -/
def reduceLoop {α} (h : Heap) (f : α → Val → α) : List Val → α → α
  | [], acc => acc
  | item :: rest, acc => reduceLoop h f rest (f acc (h.getVal item))

def reduce {α} (h : Heap) (a : Nat) (init : α) (f : α → Val → α) : α := reduceLoop h f (h.items a) init

/-- `ReduceStrings / ReduceInts / ReduceFloats` -/
def reduceKLoop {α} (h : Heap) (k : Kind) (f : α → Val → α) : List Val → α → α
  | [], acc => acc
  | item :: rest, acc =>
    match sel h true k item with
    | some v => reduceKLoop h k f rest (f acc v)
    | none => reduceKLoop h k f rest acc

def reduceK {α} (h : Heap) (a : Nat) (k : Kind) (init : α) (f : α → Val → α) : α :=
  reduceKLoop h k f (h.items a) init

/-- `Filter(p)`: `result.Add(item.getVal())` for the elements satisfying `p` -/
def filterLoop (h : Heap) (p : Val → Bool) : List Val → List Val → List Val
  | [], acc => acc
  | item :: rest, acc =>
    if p (h.getVal item) then filterLoop h p rest (acc ++ [h.getVal item]) else filterLoop h p rest acc

def filter (h : Heap) (a : Nat) (p : Val → Bool) : Heap × Ref :=
  let res := h.length
  (h ++ [.list (filterLoop h p (h.items a) []) 0], ⟨res, 0⟩)

/-- the typed `FilterX(p)` -/
def filterKLoop (h : Heap) (k : Kind) (p : Val → Bool) : List Val → List Val → List Val
  | [], acc => acc
  | item :: rest, acc =>
    match sel h (viaGetValL k) k item with
    | some v => if p v then filterKLoop h k p rest (acc ++ [v]) else filterKLoop h k p rest acc
    | none => filterKLoop h k p rest acc

def filterK (h : Heap) (a : Nat) (k : Kind) (p : Val → Bool) : Heap × Ref :=
  let res := h.length
  (h ++ [.list (filterKLoop h k p (h.items a) []) 0], ⟨res, 0⟩)

end L
end Anytype
