/-
Model of `parseVal` (anytype.go), `NewListFrom`, `NewObjectFrom` and `native`:
how an arbitrary Go value is normalised into one of the seven stored kinds.
-/
import Anytype.Model.Heap
namespace Anytype

/-- the integer types `parseVal` accepts -/
inductive IntW | int | i8 | i16 | i32 | i64 | uint | u8 | u16 | u32 | u64
  deriving DecidableEq, Repr, Inhabited

/-- range of each integer type -/
def IntW.inRange : IntW → Int → Bool
  | .int, v | .i64, v => -(2:Int)^63 ≤ v && v < (2:Int)^63
  | .i8, v => -128 ≤ v && v < 128
  | .i16, v => -32768 ≤ v && v < 32768
  | .i32, v => -(2:Int)^31 ≤ v && v < (2:Int)^31
  | .uint, v | .u64, v => 0 ≤ v && v < (2:Int)^64
  | .u8, v => 0 ≤ v && v < 256
  | .u16, v => 0 ≤ v && v < 65536
  | .u32, v => 0 ≤ v && v < (2:Int)^32

/-- element type of the seven supported slice / map flavours -/
inductive Flavour | any | object | list | string | bool | int | float64
  deriving DecidableEq, Repr, Inhabited

/-- a Go value as handed to a constructor or mutator -/
inductive GoVal
  | nil
  | bool (b : Bool)
  | intw (w : IntW) (v : Int)
  | f64 (f : F64)
  | f32 (bits : UInt32)
  | str (s : Str)
  | list (r : Ref)                       -- an existing List value
  | obj (r : Ref)                        -- an existing Object value
  | slice (fl : Flavour) (xs : List GoVal)
  | map (fl : Flavour) (kvs : List (Str × GoVal))   -- keys distinct (a Go map)
  | unsupported                          -- any other dynamic type
  deriving Repr, Inhabited

/-- exact widening `float64(float32)` on bit patterns -/
def f32to64 (b : UInt32) : F64 :=
  let sign : Bool := (b >>> 31) == 1
  let e : Nat := ((b >>> 23) &&& 0xff).toNat
  let fr : Nat := (b &&& 0x7fffff).toNat
  let mag : UInt64 :=
    if e == 255 then UInt64.ofNat ((2047 <<< 52) + (fr <<< 29))
    else if e == 0 then
      -- zero or subnormal: fr * 2^-149, exactly representable in binary64
      (F64.roundPos fr (2 ^ 149)).getD 0
    else UInt64.ofNat (((e + 896) <<< 52) + (fr <<< 29))
  F64.withSign sign ⟨mag⟩

/-- a scalar `Val` seen as a `GoVal` (what `getVal()` hands to a callback) -/
def Val.toGo : Val → GoVal
  | .nil => .nil | .bool b => .bool b | .int i => .intw .int i | .float f => .f64 f
  | .str s => .str s | .list r => .list r | .obj r => .obj r

mutual
/-- `parseVal`; maps and slices go through `NewObjectFrom` / `NewListFrom` (fresh cells).
On a panic the heap returned may contain new, unreachable cells; no existing cell differs. -/
def parseVal : Heap → GoVal → Heap × Out Val
  | h, .nil => (h, .ok .nil)
  | h, .bool b => (h, .ok (.bool b))
  | h, .intw _ v => (h, .ok (.int (wrap64 v)))
  | h, .f64 f => (h, .ok (.float f))
  | h, .f32 b => (h, .ok (.float (f32to64 b)))
  | h, .str s => (h, .ok (.str s))
  | h, .list r => (h, .ok (.list r))
  | h, .obj r => (h, .ok (.obj r))
  | h, .slice _ xs =>
    let a := h.length
    match addEach (h ++ [.list [] 0]) a xs with
    | (h1, .ok _) => (h1, .ok (.list ⟨a, 0⟩))
    | (h1, .panic k) => (h1, .panic k)
  | h, .map _ kvs =>
    let a := h.length
    match setEach (h ++ [.obj [] 0]) a kvs with
    | (h1, .ok _) => (h1, .ok (.obj ⟨a, 0⟩))
    | (h1, .panic k) => (h1, .panic k)
  | h, .unsupported => (h, .panic .unsupported)
/-- the loop of `Add(values...)`: convert, then append, one value after the other -/
def addEach : Heap → Nat → List GoVal → Heap × Out Unit
  | h, _, [] => (h, .ok ())
  | h, a, g :: gs =>
    match parseVal h g with
    | (h1, .panic k) => (h1, .panic k)
    | (h1, .ok v) => addEach (h1.setItems a (h1.items a ++ [v])) a gs
/-- `Set(key, value)` for each pair of a map -/
def setEach : Heap → Nat → List (Str × GoVal) → Heap × Out Unit
  | h, _, [] => (h, .ok ())
  | h, a, (k, g) :: kvs =>
    match parseVal h g with
    | (h1, .panic p) => (h1, .panic p)
    | (h1, .ok v) => setEach (h1.setFields a (setKV (h1.fields a) k v)) a kvs
end

/-! ### native values (`native`, `NativeSlice`, `NativeDict`) -/

/-- plain Go data: `map[string]any`, `[]any` and scalars — no container at any depth -/
inductive NVal
  | nil | bool (b : Bool) | int (i : Int) | float (f : F64) | str (s : Str)
  | slice (xs : List NVal) | dict (kvs : List (Str × NVal))
  deriving Repr, Inhabited

mutual
def toNative : JVal → NVal
  | .null => .nil | .bool b => .bool b | .int i => .int i | .float f => .float f | .str s => .str s
  | .list xs => .slice (toNativeList xs)
  | .obj kvs => .dict (toNativeFields kvs)
def toNativeList : List JVal → List NVal
  | [] => [] | x :: xs => toNative x :: toNativeList xs
def toNativeFields : List (Str × JVal) → List (Str × NVal)
  | [] => [] | (k, x) :: kvs => (k, toNative x) :: toNativeFields kvs
end

mutual
/-- a native tree as a constructor argument (`map[string]any` / `[]any` flavour) -/
def NVal.toGo : NVal → GoVal
  | .nil => .nil | .bool b => .bool b | .int i => .intw .int i | .float f => .f64 f | .str s => .str s
  | .slice xs => .slice .any (nvalsToGo xs)
  | .dict kvs => .map .any (nfieldsToGo kvs)
def nvalsToGo : List NVal → List GoVal
  | [] => [] | x :: xs => x.toGo :: nvalsToGo xs
def nfieldsToGo : List (Str × NVal) → List (Str × GoVal)
  | [] => [] | (k, x) :: kvs => (k, x.toGo) :: nfieldsToGo kvs
end

/-- `native(value)` of a container value: `none` only on a cyclic / dangling heap -/
def nativeM (h : Heap) (v : Val) : Option NVal := (reifyF h v).map toNative

end Anytype
