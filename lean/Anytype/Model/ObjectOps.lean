/-
Model of object_impl.go. The Go map is an association list with distinct keys; its
order stands for one possible iteration order, so every order-dependent result
(`Keys`, `Values`, `ForEach*` logs, `KeyOf` with several matches) is one admissible outcome
and the theorems / the driver treat them up to permutation.
-/
import Anytype.Model.ListOps
namespace Anytype
namespace O

/-- an argument list of `Set` / `NewObject`: alternating keys and values; a key that is not a
string is `none` -/
abbrev Pairs := List (Option Str × GoVal)

/-- the loop of `Set` over complete pairs -/
def setLoop : Heap → Nat → Pairs → Heap × Out Unit
  | h, _, [] => (h, .ok ())
  | h, _, (none, _) :: _ => (h, .panic .keyNotString)
  | h, a, (some k, g) :: rest =>
    match parseVal h g with
    | (h1, .panic p) => (h1, .panic p)
    | (h1, .ok v) => setLoop (h1.setFields a (setKV (h1.fields a) k v)) a rest

/-- `Set(values...)`; `odd` = the argument count is odd (panics before any change) -/
def set (h : Heap) (a : Nat) (pairs : Pairs) (odd : Bool) : Heap × Out Ref :=
  if odd then (h, .panic .oddPairs)
  else match setLoop h a pairs with
    | (h1, .ok _) => (h1, .ok (h1.egoRef a))
    | (h1, .panic p) => (h1, .panic p)

/-- `NewObject(values...)` -/
def new (h : Heap) (pairs : Pairs) (odd : Bool) : Heap × Out Ref :=
  let a := h.length
  match set (h ++ [.obj [] 0]) a pairs odd with
  | (h1, .ok _) => (h1, .ok ⟨a, 0⟩)
  | (h1, .panic p) => (h1, .panic p)

/-- `NewObjectFrom(dict)` -/
def newFrom (h : Heap) (g : GoVal) : Heap × Out Ref :=
  match g with
  | .map _ _ =>
    match parseVal h g with
    | (h1, .ok (.obj r)) => (h1, .ok r)
    | (h1, .panic k) => (h1, .panic k)
    | (h1, _) => (h1, .panic .runtime)
  | _ => (h, .panic .unsupported)

def count (h : Heap) (a : Nat) : Int := (h.fields a).length
def empty (h : Heap) (a : Nat) : Bool := count h a == 0

/-- `Unset(keys...)` -/
def unset (h : Heap) (a : Nat) (keys : List Str) : Heap × Out Ref :=
  let h1 := h.setFields a (keys.foldl delKV (h.fields a))
  (h1, .ok (h1.egoRef a))

/-- `Clear()` -/
def clear (h : Heap) (a : Nat) : Heap × Out Ref := (h.setFields a [], .ok (h.egoRef a))

/-- `Get(key)` -/
def get (h : Heap) (a : Nat) (key : Str) : Out Val :=
  match lookup (h.fields a) key with
  | none => .panic .missingKey
  | some v => .ok (h.getVal v)

def getK (h : Heap) (a : Nat) (k : Kind) (key : Str) : Out Val :=
  match get h a key with
  | .panic p => .panic p
  | .ok v => if v.kind == k then .ok v else .panic .notKind

/-- `TypeOf(key)` -/
def typeOf (h : Heap) (a : Nat) (key : Str) : Kind :=
  match lookup (h.fields a) key with
  | none => .undefined
  | some v => v.kind

def keyExists (h : Heap) (a : Nat) (key : Str) : Bool := (lookup (h.fields a) key).isSome

/-- `Dict()` -/
def dict (h : Heap) (a : Nat) : List (Str × Val) := (h.fields a).map (fun kv => (kv.1, h.getVal kv.2))

/-- `Keys()`: a new list of the keys, in iteration order -/
def keys (h : Heap) (a : Nat) : Heap × Ref :=
  let n := h.length
  (h ++ [.list ((h.fields a).map (fun kv => .str kv.1)) 0], ⟨n, 0⟩)

/-- `Values()` -/
def values (h : Heap) (a : Nat) : Heap × Ref :=
  let n := h.length
  (h ++ [.list ((h.fields a).map (fun kv => h.getVal kv.2)) 0], ⟨n, 0⟩)

/-- `Contains(value)` -/
def contains (h : Heap) (a : Nat) (value : Val) : Bool :=
  (h.fields a).any (fun kv => L.goEq (h.getVal kv.2) value)

/-- `KeyOf(value)`: the first match in this iteration order -/
def keyOf (h : Heap) (a : Nat) (value : Val) : Out Str :=
  match (h.fields a).find? (fun kv => L.goEq (h.getVal kv.2) value) with
  | some kv => .ok kv.1
  | none => .panic .noValue

/-- `Pluck(keys...)`: `result.Set(key, ego.Get(key))` per key -/
def pluckLoop (h : Heap) (a res : Nat) : List Str → Heap × Out Unit
  | [] => (h, .ok ())
  | key :: rest =>
    match get h a key with
    | .panic p => (h, .panic p)
    | .ok v => pluckLoop (h.setFields res (setKV (h.fields res) key v)) a res rest

def pluck (h : Heap) (a : Nat) (keys : List Str) : Heap × Out Ref :=
  let res := h.length
  match pluckLoop (h ++ [.obj [] 0]) a res keys with
  | (h1, .ok _) => (h1, .ok ⟨res, 0⟩)
  | (h1, .panic p) => (h1, .panic p)

/-- `Clone()`: a deep copy built from fresh cells; `none` only on a cyclic heap -/
def clone (h : Heap) (v : Val) : Option (Heap × Val) :=
  (reifyF h v).map (build h)

/-- `Merge(another)`: clone of the receiver, then `Set(key, val)` for every field of the argument -/
def merge (h : Heap) (a : Nat) (another : Nat) : Option (Heap × Ref) :=
  match clone h (.obj ⟨a, 0⟩) with
  | some (h1, .obj r) =>
    let fs := (h1.fields another).foldl (fun acc kv => setKV acc kv.1 (h1.getVal kv.2)) (h1.fields r.addr)
    some (h1.setFields r.addr fs, r)
  | _ => none

/-! ### iteration -/

/-- `ForEach(f)`: invocations `(key, item.getVal())` in iteration order -/
def forEach (h : Heap) (a : Nat) : List (Str × Val) := (h.fields a).map (fun kv => (kv.1, h.getVal kv.2))

def forEachValue (h : Heap) (a : Nat) : List Val := (forEach h a).map (·.2)

/-- the typed `ForEachX`: all six assert on `item.getVal()` -/
def forEachKLoop (h : Heap) (k : Kind) : List (Str × Val) → List Val → List Val
  | [], log => log
  | (_, item) :: rest, log =>
    match L.sel h true k item with
    | some v => forEachKLoop h k rest (log ++ [v])
    | none => forEachKLoop h k rest log

def forEachK (h : Heap) (a : Nat) (k : Kind) : List Val := forEachKLoop h k (h.fields a) []

/-- `Map(f)`: `result.Set(key, f(key, item.getVal()))` per field -/
def mapLoop (res : Nat) (f : Str → Val → GoVal) : Heap → List (Str × Val) → Heap × Out Unit
  | h, [] => (h, .ok ())
  | h, (k, item) :: rest =>
    match parseVal h (f k (h.getVal item)) with
    | (h1, .panic p) => (h1, .panic p)
    | (h1, .ok v) => mapLoop res f (h1.setFields res (setKV (h1.fields res) k v)) rest

def map (h : Heap) (a : Nat) (f : Str → Val → GoVal) : Heap × Out Ref :=
  let res := h.length
  match mapLoop res f (h ++ [.obj [] 0]) (h.fields a) with
  | (h1, .ok _) => (h1, .ok ⟨res, 0⟩)
  | (h1, .panic p) => (h1, .panic p)

def mapValues (h : Heap) (a : Nat) (f : Val → GoVal) : Heap × Out Ref := map h a (fun _ v => f v)

/-- the typed `MapX`: objects and lists assert on the stored item, scalars on `getVal()` -/
def mapKLoop (res : Nat) (kd : Kind) (f : Val → GoVal) : Heap → List (Str × Val) → Heap × Out Unit
  | h, [] => (h, .ok ())
  | h, (k, item) :: rest =>
    match L.sel h (L.viaGetValL kd) kd item with
    | some x =>
      match parseVal h (f x) with
      | (h1, .panic p) => (h1, .panic p)
      | (h1, .ok v) => mapKLoop res kd f (h1.setFields res (setKV (h1.fields res) k v)) rest
    | none => mapKLoop res kd f h rest

def mapK (h : Heap) (a : Nat) (kd : Kind) (f : Val → GoVal) : Heap × Out Ref :=
  let res := h.length
  match mapKLoop res kd f (h ++ [.obj [] 0]) (h.fields a) with
  | (h1, .ok _) => (h1, .ok ⟨res, 0⟩)
  | (h1, .panic p) => (h1, .panic p)

end O
end Anytype
