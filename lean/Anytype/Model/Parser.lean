/-
Model of parser.go: the two state machines `parseList` / `parseObject`, `parseField`,
and the entry points `ParseList`, `ParseObject`, `ParseFile`.

Restructurings with respect to the Go code (the rest is statement by statement):
* the input is the list of decoded items (`decodeAll`), a nested call returns the
  remaining suffix instead of a byte offset (Go: `i += pos`, then `i += size`);
* `stateStart`, which only consumes the opening bracket, is inlined at the two call
  sites (the bracket is never a newline and always well-formed);
* the loop is a recursion on `fuel`; `Lemmas/ParserFuel` proves that
  `items.length + 1` is always enough, i.e. the sentinel `.fuel` is unreachable.
-/
import Anytype.Model.Serialize
namespace Anytype

inductive PErrKind
  | notUtf8            -- "not an UTF-8 encoding"
  | unexpectedEnd      -- "not a valid JSON - unexpected end of input"
  | invalidValue       -- "not a valid JSON - invalid value '%s' on line %d"
  | expectQuote        -- "not a valid JSON - expecting '\"', got '%s' on line %d"
  | expectColon        -- "not a valid JSON - expecting ':', got '%s' on line %d"
  | expectCommaBrace   -- "not a valid JSON - expecting ',' or '}', got '%s' on line %d"
  | missingBracket     -- "not a valid JSON - missing '['" / "'{'"
  | io                 -- os.ReadFile failed
  | fuel               -- model sentinel, proved unreachable
  deriving DecidableEq, Repr, Inhabited

structure PErr where
  kind : PErrKind
  line : Option Nat      -- the line the message cites, if it cites one
  deriving DecidableEq, Repr, Inhabited

/-- result of a machine: the container, the items after its closing bracket, the line counter -/
inductive PRes
  | ok (v : JVal) (rest : List Item) (line : Nat)
  | err (e : PErr)
  deriving Repr, Inhabited

/-- `parseField` -/
def parseField (field : Str) (line : Nat) : Except PErr JVal :=
  if field == ['n', 'u', 'l', 'l'] then .ok .null
  else match parseIntBase0 field with
    | some i => .ok (.int i)
    | none => match F64.parseFloat field with
      | some f => .ok (.float f)
      | none => match parseBool field with
        | some b => .ok (.bool b)
        | none => .error ⟨.invalidValue, some line⟩

/-- `object.Set(key, v)` on an association list: overwrite in place or append -/
def setField (kvs : List (Str × JVal)) (k : Str) (v : JVal) : List (Str × JVal) :=
  match kvs with
  | [] => [(k, v)]
  | (k', v') :: rest => if k' == k then (k, v) :: rest else (k', v') :: setField rest k v

inductive LSt | val | str | esc | afterStr
  deriving DecidableEq, Repr
inductive OSt | keyStart | key | keyEsc | afterKey | val | afterVal | str | esc | afterStr
  deriving DecidableEq, Repr

def bumpLine (c : Char) (line : Nat) : Nat := if c == '\n' then line + 1 else line

mutual
/-- the loop of `parseList` after the opening bracket -/
def pList : Nat → List Item → LSt → List JVal → Str → Bool → Nat → PRes
  | 0, _, _, _, _, _, _ => .err ⟨.fuel, none⟩
  | _ + 1, [], _, _, _, _, _ => .err ⟨.unexpectedEnd, none⟩
  | _ + 1, none :: _, _, _, _, _, _ => .err ⟨.notUtf8, none⟩
  | fuel + 1, some c :: rest, st, acc, val, inVal, line0 =>
    let line := bumpLine c line0
    match st with
    | .val =>
      if isSpace c then pList fuel rest .val acc val inVal line
      else if !inVal && c == '"' then pList fuel rest .str acc val inVal line
      else if !inVal && c == '{' then
        match pObject fuel rest .keyStart [] [] [] false line with
        | .err e => .err e
        | .ok o rest' line' => pList fuel rest' .val (acc ++ [o]) val inVal line'
      else if !inVal && c == '[' then
        match pList fuel rest .val [] [] false line with
        | .err e => .err e
        | .ok l rest' line' => pList fuel rest' .val (acc ++ [l]) val inVal line'
      else if c == ',' || c == ']' then
        if !val.isEmpty then
          match parseField val line with
          | .error e => .err e
          | .ok f =>
            if c == ']' then .ok (.list (acc ++ [f])) rest line
            else pList fuel rest .val (acc ++ [f]) [] false line
        else
          if c == ']' then .ok (.list acc) rest line
          else pList fuel rest .val acc val inVal line
      else pList fuel rest .val acc (val ++ [c]) true line
    | .str =>
      if c == '\\' then pList fuel rest .esc acc val inVal line
      else if c == '"' then pList fuel rest .afterStr (acc ++ [.str (unquoteJSON val)]) [] inVal line
      else pList fuel rest .str acc (val ++ [c]) inVal line
    | .esc => pList fuel rest .str acc (val ++ ['\\', c]) inVal line
    | .afterStr =>
      if c == ',' then pList fuel rest .val acc val inVal line
      else if c == ']' then .ok (.list acc) rest line
      else pList fuel rest .afterStr acc val inVal line

/-- the loop of `parseObject` after the opening bracket -/
def pObject : Nat → List Item → OSt → List (Str × JVal) → Str → Str → Bool → Nat → PRes
  | 0, _, _, _, _, _, _, _ => .err ⟨.fuel, none⟩
  | _ + 1, [], _, _, _, _, _, _ => .err ⟨.unexpectedEnd, none⟩
  | _ + 1, none :: _, _, _, _, _, _, _ => .err ⟨.notUtf8, none⟩
  | fuel + 1, some c :: rest, st, acc, key, val, inVal, line0 =>
    let line := bumpLine c line0
    match st with
    | .keyStart =>
      if isSpace c then pObject fuel rest .keyStart acc key val inVal line
      else if c == '}' then .ok (.obj acc) rest line
      else if c == '"' then pObject fuel rest .key acc [] val inVal line
      else .err ⟨.expectQuote, some line⟩
    | .key =>
      if c == '"' then pObject fuel rest .afterKey acc key val inVal line
      else if c == '\\' then pObject fuel rest .keyEsc acc key val inVal line
      else pObject fuel rest .key acc (key ++ [c]) val inVal line
    | .keyEsc => pObject fuel rest .key acc (key ++ ['\\', c]) val inVal line
    | .afterKey =>
      if isSpace c then pObject fuel rest .afterKey acc key val inVal line
      else if c != ':' then .err ⟨.expectColon, some line⟩
      else pObject fuel rest .val acc (unquoteJSON key) [] false line
    | .val =>
      if isSpace c then pObject fuel rest .val acc key val inVal line
      else if !inVal && c == '"' then pObject fuel rest .str acc key val inVal line
      else if !inVal && c == '{' then
        match pObject fuel rest .keyStart [] [] [] false line with
        | .err e => .err e
        | .ok o rest' line' => pObject fuel rest' .afterVal (setField acc key o) key val inVal line'
      else if !inVal && c == '[' then
        match pList fuel rest .val [] [] false line with
        | .err e => .err e
        | .ok l rest' line' => pObject fuel rest' .afterVal (setField acc key l) key val inVal line'
      else if c == ',' || c == '}' then
        if !val.isEmpty then
          match parseField val line with
          | .error e => .err e
          | .ok f =>
            if c == ',' then pObject fuel rest .keyStart (setField acc key f) key val inVal line
            else .ok (.obj (setField acc key f)) rest line
        else
          if c == ',' then pObject fuel rest .keyStart acc key val inVal line
          else .ok (.obj acc) rest line
      else pObject fuel rest .val acc key (val ++ [c]) true line
    | .afterVal =>
      if isSpace c then pObject fuel rest .afterVal acc key val inVal line
      else if c == ',' then pObject fuel rest .keyStart acc key val inVal line
      else if c == '}' then .ok (.obj acc) rest line
      else if c == '"' then pObject fuel rest .key acc [] val inVal line
      else .err ⟨.expectCommaBrace, some line⟩
    | .str =>
      if c == '\\' then pObject fuel rest .esc acc key val inVal line
      else if c == '"' then pObject fuel rest .afterStr (setField acc key (.str (unquoteJSON val))) key val inVal line
      else pObject fuel rest .str acc key (val ++ [c]) inVal line
    | .esc => pObject fuel rest .str acc key (val ++ ['\\', c]) inVal line
    | .afterStr =>
      if c == ',' then pObject fuel rest .keyStart acc key val inVal line
      else if c == '}' then .ok (.obj acc) rest line
      else pObject fuel rest .afterStr acc key val inVal line
end

/-- bytes before the first occurrence of `b`, and the bytes after it (`strings.Index`) -/
def splitAtByte (b : UInt8) : List UInt8 → Option (List UInt8 × List UInt8)
  | [] => none
  | x :: xs => if x == b then some ([], xs) else
    match splitAtByte b xs with
    | none => none
    | some (pre, post) => some (x :: pre, post)

def countNL (bs : List UInt8) : Nat := bs.count 0x0A

/-- `parseList(json[start:], &startLine)` — the machine run on the bytes after the root bracket -/
def runList (post : List UInt8) (startLine : Nat) : PRes :=
  let items := decodeAll post
  pList (items.length + 1) items .val [] [] false startLine

def runObject (post : List UInt8) (startLine : Nat) : PRes :=
  let items := decodeAll post
  pObject (items.length + 1) items .keyStart [] [] [] false startLine

/-- `ParseList` -/
def parseListBytes (bs : List UInt8) : Except PErr JVal :=
  match splitAtByte 0x5B bs with
  | none => .error ⟨.missingBracket, none⟩
  | some (pre, post) =>
    match runList post (countNL pre + 1) with
    | .ok v _ _ => .ok v
    | .err e => .error e

/-- `ParseObject` -/
def parseObjectBytes (bs : List UInt8) : Except PErr JVal :=
  match splitAtByte 0x7B bs with
  | none => .error ⟨.missingBracket, none⟩
  | some (pre, post) =>
    match runObject post (countNL pre + 1) with
    | .ok v _ _ => .ok v
    | .err e => .error e

/-- `ParseFile` over an abstract file system -/
def parseFile (fs : String → Option (List UInt8)) (path : String) : Except PErr JVal :=
  match fs path with
  | none => .error ⟨.io, none⟩
  | some bs => parseObjectBytes bs

end Anytype
