/-
Model of the seven `serialize()` methods (anytype.go, list_impl.go, object_impl.go).
-/
import Anytype.Model.Strconv
namespace Anytype

/-- `atFloat.serialize`: 'e' format when |x| ≥ 1e6 or 0 < |x| ≤ 1e-6, otherwise 'f' format with
".0" appended to whole values. -/
def serF (x : F64) : Str :=
  if x.isNaN then F64.fmtF x
  else if x.isInf then F64.fmtE x
  else if F64.absGePow10 x 6 || (!x.isZero && F64.absLeNegPow10 x 6) then F64.fmtE x
  else
    let s := F64.fmtF x
    if x.isWhole then s ++ ['.', '0'] else s

mutual
def ser : JVal → Str
  | .null => ['n', 'u', 'l', 'l']
  | .bool true => ['t', 'r', 'u', 'e']
  | .bool false => ['f', 'a', 'l', 's', 'e']
  | .int i => itoa i
  | .float f => serF f
  | .str s => quoteJSON s
  | .list xs => '[' :: serList xs ++ [']']
  | .obj kvs => '{' :: serFields kvs ++ ['}']
def serList : List JVal → Str
  | [] => []
  | x :: xs => match xs with
    | [] => ser x
    | _ :: _ => ser x ++ ',' :: serList xs
def serFields : List (Str × JVal) → Str
  | [] => []
  | (k, v) :: kvs => match kvs with
    | [] => quoteJSON k ++ ':' :: ser v
    | _ :: _ => quoteJSON k ++ ':' :: ser v ++ ',' :: serFields kvs
end

end Anytype
