/-
Slice-level model of the storage of a list (`list.val []field`): backing arrays, lengths,
capacities, `append`, `copy`, `make` and re-slicing as Go defines them.

Everywhere else the model reads a `[]field` as a `List Val` "without capacity" (translator rule
"a slice is a list").  That reading is sound exactly when every list cell exclusively owns its
backing array, so that an `append` into spare capacity or an in-place write through one cell can
never be seen through another.  Here that is not assumed: this file models the arrays, and
`Lemmas/Slices.lean` proves that
  * every operation of `list_impl.go` that touches `ego.val`, executed on arrays, refines the
    corresponding operation on plain lists (`step_refines`), for every growth policy of `append`,
  * exclusive ownership (`SHeap.WF`: the arrays of distinct cells are distinct, lengths within
    capacities) is an invariant of all of them (`step_wf`),
  * and that it is NOT an invariant of the `Concat` of the pinned source
    (`append(ego.val, other.val...)`, defect F5): `concatOld_breaks` exhibits the aliasing.

The statements of the Go source mirrored here (list_impl.go):

    NewList        ego := &list{val: []field{}} ; ego.Add(values...)
    NewListOf      &list{val: make([]field, 0, count)} ; count × append(ego.val, elem)
    NewListFrom    &list{val: make([]field, 0, len(s))} ; ego.Add(item) for each
    Add            ego.val = append(ego.val, parseVal(val))            -- once per value
    Insert         i == Count ⇒ Add ; else
                   ego.val = append(ego.val[:i+1], ego.val[i:]...) ; ego.val[i] = elem
    Replace        ego.val[i] = elem
    Delete         sort ; from the largest: ego.val = append(ego.val[:i], ego.val[i+1:]...)
    Pop            Delete(Count-1)
    Clear          ego.val = []field{}
    Concat         val := make([]field, 0, n+m) ; &list{val: append(append(val, ego.val...), other...)}
    SubList        &list{val: make([]field, end-start)} ; copy(list.val, ego.val[start:end])
    Reverse        for i := n/2-1; i >= 0; i-- { ego.val[i], ego.val[n-1-i] = ego.val[n-1-i], ego.val[i] }
    Sort           ego.val = NewListFrom(sorted slice).val
    copy()/Clone   &list{val: make([]field, n)} ; list.val[i] = … for each i

Elements are an arbitrary type `α` (scalars in the correspondence run); nested containers and the
conversion `parseVal` are the business of `Model/Heap` and `Model/Normalize`.  A cell's slice always
starts at element 0 of its array (the source never stores a slice with a non-zero low bound), so a
slice header is (array, length) and its capacity is the size of the array.

Arguments are the *normalised* ones (the normalisation is `Model/ListOps`' business and is proved there): indexes are naturals
(a negative index panics before storage is touched, except inside a multi-index `Delete`, which the heap model covers);
`subList c start stop` is `SubList(start, end)` after `end <= 0` has been turned into `Count + end` (the driver does that
normalisation for the records of the stratum, which sends every sign of both arguments); `sort` assumes a list all of whose elements have the kind of element 0 (Go panics on a nil / bool / container first
element and drops the elements of other kinds: `L.sort` models that, and the stratum does not sort lists that hold padding);
`add` has no partial effect (with scalar elements `parseVal` cannot panic half way). An independent audit of this file against
the Go source (a replay of `step` fuzzed against the library on a widened input domain) found exactly these two restrictions
and no other difference. One thing the observation cannot see directly: the hook reports the address of element 0, so a list
stored as a window `parent[s:e]` with `s > 0` would look like a list over its own array; only the later difference in contents
shows it (as it did for the seeded change that made `SubList` a re-slice).

Core-only and executable (the driver links against `step`).
-/
namespace Anytype.Slices

/-- memory: every array ever allocated; the index is its identity, its length is its capacity;
never freed, never reused -/
abbrev Mem (α : Type) := List (List α)

/-- a Go slice header whose element 0 is element 0 of its backing array -/
structure Slice where
  arr : Nat
  len : Nat
  deriving DecidableEq, Repr, Inhabited

variable {α : Type}

def arrOf (m : Mem α) (a : Nat) : List α := m.getD a []

/-- `cap(s)` -/
def cap (m : Mem α) (s : Slice) : Nat := (arrOf m s.arr).length

/-- the elements of `s` -/
def view (m : Mem α) (s : Slice) : List α := (arrOf m s.arr).take s.len

/-- write the values `ys` into array `a` from position `p` onwards (`memmove`: the values were
read before anything is written, so source and destination may overlap) -/
def writeAt (m : Mem α) (a p : Nat) (ys : List α) : Mem α :=
  m.set a ((arrOf m a).take p ++ ys ++ (arrOf m a).drop (p + ys.length))

/-- `make([]T, len, cap)` -/
def mk (zero : α) (m : Mem α) (len cap : Nat) : Mem α × Slice :=
  (m ++ [List.replicate cap zero], ⟨m.length, len⟩)

/-- the zero value of the element type and the growth policy of `append`
(`grow oldCap needed`, only consulted when `needed > oldCap`; Go's `growslice` is one such policy,
the theorems hold for all of them) -/
structure Cfg (α : Type) where
  zero : α
  grow : Nat → Nat → Nat

/-- `append(s, ys...)`: in place when the capacity suffices, else into a new array -/
def append (cfg : Cfg α) (m : Mem α) (s : Slice) (ys : List α) : Mem α × Slice :=
  let need := s.len + ys.length
  if need ≤ cap m s then (writeAt m s.arr s.len ys, ⟨s.arr, need⟩)
  else
    let c := max need (cfg.grow (cap m s) need)
    (m ++ [view m s ++ ys ++ List.replicate (c - need) cfg.zero], ⟨m.length, need⟩)

/-- the lists that exist: their slice headers, over one memory -/
structure SHeap (α : Type) where
  mem : Mem α
  cells : List Slice

inductive Outcome
  | done
  | made (c : Nat)
  | panic
  deriving DecidableEq, Repr, Inhabited

/-- `ego.val = append(ego.val, v)` -/
def push (cfg : Cfg α) (σ : SHeap α) (c : Nat) (v : α) : SHeap α :=
  match σ.cells[c]? with
  | none => σ
  | some s =>
    let r := append cfg σ.mem s [v]
    ⟨r.1, σ.cells.set c r.2⟩

/-- the loop of `Add` -/
def pushAll (cfg : Cfg α) (σ : SHeap α) (c : Nat) (vs : List α) : SHeap α :=
  vs.foldl (fun σ v => push cfg σ c v) σ

/-- a new cell over a new array `make([]field, len, cap)` -/
def alloc (cfg : Cfg α) (σ : SHeap α) (len cap : Nat) : SHeap α :=
  let r := mk cfg.zero σ.mem len cap
  ⟨r.1, σ.cells ++ [r.2]⟩

/-- one step of the loop of `Delete`: `ego.val = append(ego.val[:i], ego.val[i+1:]...)` -/
def deleteAt (cfg : Cfg α) (σ : SHeap α) (c : Nat) (s : Slice) (i : Nat) : SHeap α :=
  let r := append cfg σ.mem ⟨s.arr, i⟩ ((view σ.mem s).drop (i + 1))
  ⟨r.1, σ.cells.set c r.2⟩

/-- the loop of `Delete` over the indexes sorted ascending and taken from the largest -/
def deleteLoop (cfg : Cfg α) (c : Nat) : SHeap α → List Nat → SHeap α × Outcome
  | σ, [] => (σ, .done)
  | σ, i :: rest =>
    match σ.cells[c]? with
    | none => (σ, .panic)
    | some s =>
      if i < s.len then deleteLoop cfg c (deleteAt cfg σ c s i) rest
      else (σ, .panic)

/-- one swap of the loop of `Reverse` -/
def swap (m : Mem α) (a i j : Nat) : Mem α :=
  match (arrOf m a)[i]?, (arrOf m a)[j]? with
  | some x, some y => m.set a (((arrOf m a).set i y).set j x)
  | _, _ => m

/-- the loop of `Reverse`, the loop variable counting down from `k - 1` to `0` -/
def reverseLoop (a n : Nat) : Mem α → Nat → Mem α
  | m, 0 => m
  | m, i + 1 => reverseLoop a n (swap m a i (n - 1 - i)) i

/-- the operations of the list API that touch `ego.val` -/
inductive Op (α : Type)
  | newList (vs : List α)
  | newListOf (v : α) (n : Nat)
  | newListFrom (vs : List α)
  | add (c : Nat) (vs : List α)
  | insert (c i : Nat) (v : α)
  | replace (c i : Nat) (v : α)
  | delete (c : Nat) (idxs : List Nat)
  | pop (c : Nat)
  | clear (c : Nat)
  | concat (c d : Nat)
  | subList (c start stop : Nat)
  | reverse (c : Nat)
  | sort (c : Nat)
  | clone (c : Nat)
  deriving Repr, Inhabited

/-- the existing list an operation is called on to change it (`none`: the operation only reads and creates) -/
def Op.tgt : Op α → Option Nat
  | .add c _ | .insert c _ _ | .replace c _ _ | .delete c _ | .pop c | .clear c | .reverse c | .sort c => some c
  | _ => none

/-- `sorted` stands for `sort.Ints/Strings/Float64s` -/
def step (cfg : Cfg α) (sorted : List α → List α) (σ : SHeap α) : Op α → SHeap α × Outcome
  | .newList vs =>
    (pushAll cfg (alloc cfg σ 0 0) σ.cells.length vs, .made σ.cells.length)
  | .newListOf v n =>
    (pushAll cfg (alloc cfg σ 0 n) σ.cells.length (List.replicate n v), .made σ.cells.length)
  | .newListFrom vs =>
    (pushAll cfg (alloc cfg σ 0 vs.length) σ.cells.length vs, .made σ.cells.length)
  | .add c vs =>
    match σ.cells[c]? with
    | none => (σ, .panic)
    | some _ => (pushAll cfg σ c vs, .done)
  | .insert c i v =>
    match σ.cells[c]? with
    | none => (σ, .panic)
    | some s =>
      if i > s.len then (σ, .panic)
      else if i = s.len then (push cfg σ c v, .done)
      else
        let r := append cfg σ.mem ⟨s.arr, i + 1⟩ ((view σ.mem s).drop i)
        (⟨writeAt r.1 r.2.arr i [v], σ.cells.set c r.2⟩, .done)
  | .replace c i v =>
    match σ.cells[c]? with
    | none => (σ, .panic)
    | some s =>
      if i < s.len then (⟨writeAt σ.mem s.arr i [v], σ.cells⟩, .done) else (σ, .panic)
  | .delete c idxs =>
    deleteLoop cfg c σ (idxs.mergeSort (fun x y => decide (x ≤ y))).reverse
  | .pop c =>
    match σ.cells[c]? with
    | none => (σ, .panic)
    | some s => if s.len = 0 then (σ, .panic) else (deleteAt cfg σ c s (s.len - 1), .done)
  | .clear c =>
    match σ.cells[c]? with
    | none => (σ, .panic)
    | some _ =>
      let r := mk cfg.zero σ.mem 0 0
      (⟨r.1, σ.cells.set c r.2⟩, .done)
  | .concat c d =>
    match σ.cells[c]?, σ.cells[d]? with
    | some s, some t =>
      let r0 := mk cfg.zero σ.mem 0 (s.len + t.len)
      let r1 := append cfg r0.1 r0.2 (view r0.1 s)
      let r2 := append cfg r1.1 r1.2 (view r1.1 t)
      (⟨r2.1, σ.cells ++ [r2.2]⟩, .made σ.cells.length)
    | _, _ => (σ, .panic)
  | .subList c start stop =>
    match σ.cells[c]? with
    | none => (σ, .panic)
    | some s =>
      if start ≤ stop ∧ stop ≤ s.len then
        let r := mk cfg.zero σ.mem (stop - start) (stop - start)
        (⟨writeAt r.1 r.2.arr 0 (((view r.1 s).take stop).drop start), σ.cells ++ [r.2]⟩, .made σ.cells.length)
      else (σ, .panic)
  | .reverse c =>
    match σ.cells[c]? with
    | none => (σ, .panic)
    | some s => (⟨reverseLoop s.arr s.len σ.mem (s.len / 2), σ.cells⟩, .done)
  | .sort c =>
    match σ.cells[c]? with
    | none => (σ, .panic)
    | some s =>
      if s.len = 0 then (σ, .panic)
      else
        -- the temporary list of NewListFrom is unreachable once its slice is taken: it is not registered
        let vs := sorted (view σ.mem s)
        let tmp := pushAll cfg (alloc cfg ⟨σ.mem, []⟩ 0 vs.length) 0 vs
        match tmp.cells[0]? with
        | some t => (⟨tmp.mem, σ.cells.set c t⟩, .done)
        | none => (σ, .panic)
  | .clone c =>
    match σ.cells[c]? with
    | none => (σ, .panic)
    | some s =>
      let r := mk cfg.zero σ.mem s.len s.len
      (⟨writeAt r.1 r.2.arr 0 (view r.1 s), σ.cells ++ [r.2]⟩, .made σ.cells.length)

/-- a tree-form write at a leaf of a list, `SetTF("#i", v)`, goes through the methods: `Replace(i, v)` inside the list, else
`i - Count` times `Add(nil)` and then `Add(v)`; as one storage operation -/
def leafWrite (nilv : α) (σ : SHeap α) (c i : Nat) (v : α) : Op α :=
  match σ.cells[c]? with
  | some s => if i < s.len then .replace c i v else .add c (List.replicate (i - s.len) nilv ++ [v])
  | none => .replace c i v

/-- `UnsetTF("#i")` at a leaf: `Delete(i)` -/
def leafUnset (c i : Nat) : Op α := .delete c [i]

/-- `Concat` as the pinned source had it (defect F5): `&list{val: append(ego.val, other.val...)}` -/
def concatOld (cfg : Cfg α) (σ : SHeap α) (c d : Nat) : SHeap α × Outcome :=
  match σ.cells[c]?, σ.cells[d]? with
  | some s, some t =>
    let r := append cfg σ.mem s (view σ.mem t)
    (⟨r.1, σ.cells ++ [r.2]⟩, .made σ.cells.length)
  | _, _ => (σ, .panic)

/-! ### the same operations on plain lists (the reading the rest of the model uses) -/

/-- the loop of `Delete` on a plain list -/
def adeleteLoop (c : Nat) : List (List α) → List Nat → List (List α) × Outcome
  | ls, [] => (ls, .done)
  | ls, i :: rest =>
    match ls[c]? with
    | none => (ls, .panic)
    | some xs =>
      if i < xs.length then adeleteLoop c (ls.set c (xs.eraseIdx i)) rest
      else (ls, .panic)

def astep (sorted : List α → List α) (ls : List (List α)) : Op α → List (List α) × Outcome
  | .newList vs => (ls ++ [vs], .made ls.length)
  | .newListOf v n => (ls ++ [List.replicate n v], .made ls.length)
  | .newListFrom vs => (ls ++ [vs], .made ls.length)
  | .add c vs =>
    match ls[c]? with
    | none => (ls, .panic)
    | some xs => (ls.set c (xs ++ vs), .done)
  | .insert c i v =>
    match ls[c]? with
    | none => (ls, .panic)
    | some xs => if i > xs.length then (ls, .panic) else (ls.set c (xs.insertIdx i v), .done)
  | .replace c i v =>
    match ls[c]? with
    | none => (ls, .panic)
    | some xs => if i < xs.length then (ls.set c (xs.set i v), .done) else (ls, .panic)
  | .delete c idxs => adeleteLoop c ls (idxs.mergeSort (fun x y => decide (x ≤ y))).reverse
  | .pop c =>
    match ls[c]? with
    | none => (ls, .panic)
    | some xs => if xs.length = 0 then (ls, .panic) else (ls.set c xs.dropLast, .done)
  | .clear c =>
    match ls[c]? with
    | none => (ls, .panic)
    | some _ => (ls.set c [], .done)
  | .concat c d =>
    match ls[c]?, ls[d]? with
    | some xs, some ys => (ls ++ [xs ++ ys], .made ls.length)
    | _, _ => (ls, .panic)
  | .subList c start stop =>
    match ls[c]? with
    | none => (ls, .panic)
    | some xs =>
      if start ≤ stop ∧ stop ≤ xs.length then (ls ++ [(xs.take stop).drop start], .made ls.length)
      else (ls, .panic)
  | .reverse c =>
    match ls[c]? with
    | none => (ls, .panic)
    | some xs => (ls.set c xs.reverse, .done)
  | .sort c =>
    match ls[c]? with
    | none => (ls, .panic)
    | some xs => if xs.length = 0 then (ls, .panic) else (ls.set c (sorted xs), .done)
  | .clone c =>
    match ls[c]? with
    | none => (ls, .panic)
    | some xs => (ls ++ [xs], .made ls.length)

/-- what the lists hold -/
def SHeap.abs (σ : SHeap α) : List (List α) := σ.cells.map (view σ.mem)

/-- every cell's array exists and is at least as long as the cell, and no two cells share an array -/
def SHeap.WF (σ : SHeap α) : Prop :=
  (∀ s ∈ σ.cells, s.arr < σ.mem.length ∧ s.len ≤ cap σ.mem s) ∧ (σ.cells.map (·.arr)).Nodup

def SHeap.empty : SHeap α := ⟨[], []⟩

/-- run a program; a panic ends it (the state at the panic point is kept) -/
def run (cfg : Cfg α) (sorted : List α → List α) : SHeap α → List (Op α) → SHeap α × Bool
  | σ, [] => (σ, false)
  | σ, op :: rest =>
    match step cfg sorted σ op with
    | (σ', .panic) => (σ', true)
    | (σ', _) => run cfg sorted σ' rest

def arun (sorted : List α → List α) : List (List α) → List (Op α) → List (List α) × Bool
  | ls, [] => (ls, false)
  | ls, op :: rest =>
    match astep sorted ls op with
    | (ls', .panic) => (ls', true)
    | (ls', _) => arun sorted ls' rest

end Anytype.Slices
