/-
Models of the Go standard-library text functions the library calls
(strconv.ParseInt base 0, ParseBool, Itoa, unicode.IsSpace, utf8 decoding)
and of the library's own `quoteJSON` / `unquoteJSON`.
-/
import Anytype.Model.Float64
namespace Anytype

/-! ### strconv.Itoa -/
def itoa (i : Int) : Str :=
  if i < 0 then '-' :: Nat.toDigits 10 i.natAbs else Nat.toDigits 10 i.toNat

/-! ### strconv.ParseInt(s, 0, 64) -/

/-- digit value of a byte as ParseUint reads it (letters case-insensitively, 36 = not a digit) -/
def digitVal (c : Char) : Nat :=
  if '0' ≤ c ∧ c ≤ '9' then c.toNat - 48
  else
    let l := F64.lower c
    if 'a' ≤ l ∧ l ≤ 'z' then l.toNat - 97 + 10 else 36

/-- accumulate digits in `base`; underscores skipped (validated separately); none = bad digit -/
def readDigits (base : Nat) : Str → Nat → Option Nat
  | [], n => some n
  | c :: t, n =>
    if c == '_' then readDigits base t n
    else
      let d := digitVal c
      if d ≥ base then none else readDigits base t (n * base + d)

/-- ParseUint(s, 0, 64) body after sign removal: returns the (unbounded) magnitude -/
def parseUintBase0 (s : Str) : Option Nat :=
  match s with
  | [] => none
  | '0' :: rest =>
    match rest with
    | c :: _ :: _ =>
      let l := F64.lower c
      if l == 'b' then readDigits 2 rest.tail 0
      else if l == 'o' then readDigits 8 rest.tail 0
      else if l == 'x' then readDigits 16 rest.tail 0
      else readDigits 8 rest 0
    | _ => readDigits 8 rest 0
  | _ => readDigits 10 s 0

/-- `strconv.ParseInt(s, 0, 64)` with `err == nil` -/
def parseIntBase0 (s : Str) : Option Int :=
  match s with
  | [] => none
  | _ =>
    let (neg, body) : Bool × Str := match s with | '+' :: t => (false, t) | '-' :: t => (true, t) | _ => (false, s)
    match parseUintBase0 body with
    | none => none
    | some n =>
      if body.contains '_' && !F64.underscoreOK body then none
      else if !neg && n ≥ 2^63 then none
      else if neg && n > 2^63 then none
      else some (if neg then -(n : Int) else (n : Int))

/-! ### strconv.ParseBool -/
def parseBool (s : Str) : Option Bool :=
  if s == "1".toList || s == "t".toList || s == "T".toList || s == "TRUE".toList || s == "true".toList || s == "True".toList then some true
  else if s == "0".toList || s == "f".toList || s == "F".toList || s == "FALSE".toList || s == "false".toList || s == "False".toList then some false
  else none

/-! ### unicode.IsSpace -/
def isSpace (c : Char) : Bool :=
  let n := c.toNat
  (9 ≤ n && n ≤ 13) || n == 0x20 || n == 0x85 || n == 0xA0 || n == 0x1680 ||
  (0x2000 ≤ n && n ≤ 0x200A) || n == 0x2028 || n == 0x2029 || n == 0x202F || n == 0x205F || n == 0x3000

/-! ### UTF-8 decoding as `utf8.DecodeRuneInString` does it -/

/-- one decoded position: `some c` = a well-formed character, `none` = ill-formed byte (Go: RuneError, width 1) -/
abbrev Item := Option Char

def isCont (b : UInt8) : Bool := 0x80 ≤ b && b ≤ 0xBF

def mkChar (n : Nat) : Item := if n.isValidChar then some (Char.ofNat n) else none

/-- decode the character that starts with byte `b0` followed by `r0`: the item and the number of
*additional* bytes it occupies (0 for ASCII and for an ill-formed byte) -/
def decodeOne (b0 : UInt8) (r0 : List UInt8) : Item × Nat :=
  if b0 < 0x80 then (mkChar b0.toNat, 0)
  else if 0xC2 ≤ b0 && b0 ≤ 0xDF then
    match r0 with
    | b1 :: _ => if isCont b1 then (mkChar ((b0.toNat - 0xC0) * 64 + (b1.toNat - 0x80)), 1) else (none, 0)
    | _ => (none, 0)
  else if 0xE0 ≤ b0 && b0 ≤ 0xEF then
    match r0 with
    | b1 :: b2 :: _ =>
      let lo : UInt8 := if b0 == 0xE0 then 0xA0 else 0x80
      let hi : UInt8 := if b0 == 0xED then 0x9F else 0xBF
      if lo ≤ b1 && b1 ≤ hi && isCont b2 then
        (mkChar ((b0.toNat - 0xE0) * 4096 + (b1.toNat - 0x80) * 64 + (b2.toNat - 0x80)), 2)
      else (none, 0)
    | _ => (none, 0)
  else if 0xF0 ≤ b0 && b0 ≤ 0xF4 then
    match r0 with
    | b1 :: b2 :: b3 :: _ =>
      let lo : UInt8 := if b0 == 0xF0 then 0x90 else 0x80
      let hi : UInt8 := if b0 == 0xF4 then 0x8F else 0xBF
      if lo ≤ b1 && b1 ≤ hi && isCont b2 && isCont b3 then
        (mkChar ((b0.toNat - 0xF0) * 262144 + (b1.toNat - 0x80) * 4096 + (b2.toNat - 0x80) * 64 + (b3.toNat - 0x80)), 3)
      else (none, 0)
    | _ => (none, 0)
  else (none, 0)

/-- decode a whole byte string into items; an ill-formed byte yields `none` and decoding resumes
at the next byte (the parsers stop at the first `none`, so what follows it is irrelevant) -/
def decodeAll : List UInt8 → List Item
  | [] => []
  | b0 :: r0 =>
    let p := decodeOne b0 r0
    p.1 :: decodeAll (r0.drop p.2)
termination_by bs => bs.length
decreasing_by simp [List.length_drop]; omega

/-- UTF-8 encoding of a string -/
def encodeChar (c : Char) : List UInt8 :=
  let n := c.toNat
  if n < 0x80 then [n.toUInt8]
  else if n < 0x800 then [(0xC0 + n / 64).toUInt8, (0x80 + n % 64).toUInt8]
  else if n < 0x10000 then [(0xE0 + n / 4096).toUInt8, (0x80 + n / 64 % 64).toUInt8, (0x80 + n % 64).toUInt8]
  else [(0xF0 + n / 262144).toUInt8, (0x80 + n / 4096 % 64).toUInt8, (0x80 + n / 64 % 64).toUInt8, (0x80 + n % 64).toUInt8]

def encode (s : Str) : List UInt8 := s.flatMap encodeChar

/-! ### the library's quoteJSON / unquoteJSON -/

def hexDigit (n : Nat) : Char := if n < 10 then Char.ofNat (48 + n) else Char.ofNat (87 + n)

def escChar (c : Char) : Str :=
  if c == '"' then ['\\', '"']
  else if c == '\\' then ['\\', '\\']
  else if c == '\x08' then ['\\', 'b']
  else if c == '\x0c' then ['\\', 'f']
  else if c == '\n' then ['\\', 'n']
  else if c == '\r' then ['\\', 'r']
  else if c == '\t' then ['\\', 't']
  else if c.toNat < 0x20 then ['\\', 'u', '0', '0', hexDigit (c.toNat / 16), hexDigit (c.toNat % 16)]
  else [c]

def quoteBody (s : Str) : Str := s.flatMap escChar
def quoteJSON (s : Str) : Str := '"' :: quoteBody s ++ ['"']

def hexCharVal (c : Char) : Option Nat :=
  if '0' ≤ c ∧ c ≤ '9' then some (c.toNat - 48)
  else if 'a' ≤ c ∧ c ≤ 'f' then some (c.toNat - 87)
  else if 'A' ≤ c ∧ c ≤ 'F' then some (c.toNat - 55)
  else none

/-- four hex digits at the head of `s` -/
def hex4 (s : Str) : Option (Nat × Str) :=
  match s with
  | a :: b :: c :: d :: rest =>
    match hexCharVal a, hexCharVal b, hexCharVal c, hexCharVal d with
    | some x, some y, some z, some w => some (((x * 16 + y) * 16 + z) * 16 + w, rest)
    | _, _, _, _ => none
  | _ => none

def replacementChar : Char := Char.ofNat 0xFFFD

/-- scalar value to Char (surrogates / out of range → U+FFFD, cannot occur where it is used) -/
def charOfNat (n : Nat) : Char := if n.isValidChar then Char.ofNat n else replacementChar

/-- `unquoteJSON`: `none` = invalid escape (the Go function then returns "") -/
def unquoteAux : Nat → Str → Str → Option Str
  | 0, _, _ => none
  | _ + 1, [], acc => some acc
  | fuel + 1, c :: t, acc =>
    if c != '\\' then unquoteAux fuel t (acc ++ [c])
    else match t with
      | [] => none
      | e :: t' =>
        if e == '"' || e == '\\' || e == '/' then unquoteAux fuel t' (acc ++ [e])
        else if e == 'b' then unquoteAux fuel t' (acc ++ ['\x08'])
        else if e == 'f' then unquoteAux fuel t' (acc ++ ['\x0c'])
        else if e == 'n' then unquoteAux fuel t' (acc ++ ['\n'])
        else if e == 'r' then unquoteAux fuel t' (acc ++ ['\r'])
        else if e == 't' then unquoteAux fuel t' (acc ++ ['\t'])
        else if e == 'u' then
          match hex4 t' with
          | none => none
          | some (r, t'') =>
            if 0xD800 ≤ r ∧ r < 0xE000 then
              -- surrogate: look for a low surrogate escape right behind a high one
              let pair : Option (Nat × Str) :=
                if r < 0xDC00 then
                  match t'' with
                  | '\\' :: 'u' :: u =>
                    match hex4 u with
                    | some (low, u') => if 0xDC00 ≤ low ∧ low < 0xE000 then some (low, u') else none
                    | none => none
                  | _ => none
                else none
              match pair with
              | some (low, u') => unquoteAux fuel u' (acc ++ [charOfNat ((r - 0xD800) * 1024 + (low - 0xDC00) + 0x10000)])
              | none => unquoteAux fuel t'' (acc ++ [replacementChar])
            else unquoteAux fuel t'' (acc ++ [charOfNat r])
        else none

def unquoteJSON (s : Str) : Str := (unquoteAux (s.length + 1) s []).getD []

end Anytype
