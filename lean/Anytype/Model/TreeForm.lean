/-
Model of the eight tree-form methods (GetTF / SetTF / UnsetTF / TypeOfTF on list and object).
They are mutually recursive between the two container kinds; each call strips the leading
sigil and the first segment, so `fuel = tf.length` always suffices.
-/
import Anytype.Model.ObjectOps
namespace Anytype
namespace TF

/-- `strings.Index(tf, c)` as an Int, -1 when absent -/
def indexOf (c : Char) : Str → Int
  | [] => -1
  | x :: xs => if x == c then 0 else
    let r := indexOf c xs
    if r < 0 then -1 else r + 1

/-- how the code splits the text after the leading sigil -/
inductive Split
  | dot (seg rest : Str)     -- `dot > 0 && (hash < 0 || dot < hash)`: segment, remainder starting with '.'
  | hash (seg rest : Str)    -- `hash > 0 && (dot < 0 || hash < dot)`: segment, remainder starting with '#'
  | leaf (seg : Str)
  deriving Repr

def split (tf : Str) : Split :=
  let dot := indexOf '.' tf
  let hash := indexOf '#' tf
  if dot > 0 && (hash < 0 || dot < hash) then .dot (tf.take dot.toNat) (tf.drop dot.toNat)
  else if hash > 0 && (dot < 0 || hash < dot) then .hash (tf.take hash.toNat) (tf.drop hash.toNat)
  else .leaf tf

/-- the guard at the top of every method: `len(tf) < 2 || tf[0] != sigil` -/
def strip (sigil : Char) (tf : Str) : Option Str :=
  match tf with
  | c :: rest => if c == sigil && !rest.isEmpty then some rest else none
  | [] => none

def parseIdx (s : Str) : Option Int := parseIntBase0 s

/-! ### GetTF -/
mutual
def getL : Nat → Heap → Nat → Str → Out Val
  | 0, _, _, _ => .panic .runtime
  | n + 1, h, a, tf =>
    match strip '#' tf with
    | none => .panic .badTF
    | some t =>
      match split t with
      | .dot seg rest =>
        match parseIdx seg with
        | none => .panic .badInt
        | some i => match L.getK h a .object i with
          | .ok (.obj r) => getO n h r.addr rest
          | .ok _ => .panic .runtime
          | .panic p => .panic p
      | .hash seg rest =>
        match parseIdx seg with
        | none => .panic .badInt
        | some i => match L.getK h a .list i with
          | .ok (.list r) => getL n h r.addr rest
          | .ok _ => .panic .runtime
          | .panic p => .panic p
      | .leaf seg =>
        match parseIdx seg with
        | none => .panic .badInt
        | some i => L.get h a i
def getO : Nat → Heap → Nat → Str → Out Val
  | 0, _, _, _ => .panic .runtime
  | n + 1, h, a, tf =>
    match strip '.' tf with
    | none => .panic .badTF
    | some t =>
      match split t with
      | .dot key rest =>
        match O.getK h a .object key with
        | .ok (.obj r) => getO n h r.addr rest
        | .ok _ => .panic .runtime
        | .panic p => .panic p
      | .hash key rest =>
        match O.getK h a .list key with
        | .ok (.list r) => getL n h r.addr rest
        | .ok _ => .panic .runtime
        | .panic p => .panic p
      | .leaf key => O.get h a key
end

/-! ### TypeOfTF -/
mutual
def typeL : Nat → Heap → Nat → Str → Kind
  | 0, _, _, _ => .undefined
  | n + 1, h, a, tf =>
    match strip '#' tf with
    | none => .undefined
    | some t =>
      match split t with
      | .dot seg rest =>
        match parseIdx seg with
        | none => .undefined
        | some i =>
          if L.typeOf h a i != .object then .undefined
          else match L.getK h a .object i with
            | .ok (.obj r) => typeO n h r.addr rest
            | _ => .undefined
      | .hash seg rest =>
        match parseIdx seg with
        | none => .undefined
        | some i =>
          if L.typeOf h a i != .list then .undefined
          else match L.getK h a .list i with
            | .ok (.list r) => typeL n h r.addr rest
            | _ => .undefined
      | .leaf seg =>
        match parseIdx seg with
        | none => .undefined
        | some i => L.typeOf h a i
def typeO : Nat → Heap → Nat → Str → Kind
  | 0, _, _, _ => .undefined
  | n + 1, h, a, tf =>
    match strip '.' tf with
    | none => .undefined
    | some t =>
      match split t with
      | .dot key rest =>
        if !O.keyExists h a key || O.typeOf h a key != .object then .undefined
        else match O.getK h a .object key with
          | .ok (.obj r) => typeO n h r.addr rest
          | _ => .undefined
      | .hash key rest =>
        if !O.keyExists h a key || O.typeOf h a key != .list then .undefined
        else match O.getK h a .list key with
          | .ok (.list r) => typeL n h r.addr rest
          | _ => .undefined
      | .leaf key =>
        if !O.keyExists h a key then .undefined else O.typeOf h a key
end

/-! ### SetTF -/

/-- `for i := 0; i < index-count; i++ { Add(nil) }` -/
def padNil (h : Heap) (a : Nat) (n : Nat) : Heap := h.setItems a (h.items a ++ List.replicate n .nil)

/-- the intermediate container a list's SetTF descends into: existing one of the right kind
(reused), otherwise a new one appended after padding / put in place of a wrong-kind element -/
def stepL (h : Heap) (a : Nat) (index : Int) (wantObj : Bool) : Heap × Out Nat :=
  let cnt := L.count h a
  let mk : Cell := if wantObj then .obj [] 0 else .list [] 0
  let mkVal (n : Nat) : Val := if wantObj then .obj ⟨n, 0⟩ else .list ⟨n, 0⟩
  if index >= cnt then
    let n := h.length
    let h1 := padNil (h ++ [mk]) a (index - cnt).toNat
    (h1.setItems a (h1.items a ++ [mkVal n]), .ok n)
  else if L.typeOf h a index == (if wantObj then Kind.object else Kind.list) then
    match (h.items a)[index.toNat]? with
    | some (.obj r) => (h, .ok r.addr)
    | some (.list r) => (h, .ok r.addr)
    | _ => (h, .panic .runtime)
  else
    let n := h.length
    -- NewObject()/NewList(), then Replace(index, it): Replace panics on a negative index
    if index < 0 then (h ++ [mk], .panic .indexRange)
    else ((h ++ [mk]).setItems a ((h.items a).set index.toNat (mkVal n)), .ok n)

/-- same for an object's SetTF -/
def stepO (h : Heap) (a : Nat) (key : Str) (wantObj : Bool) : Heap × Nat :=
  let mk : Cell := if wantObj then .obj [] 0 else .list [] 0
  let mkVal (n : Nat) : Val := if wantObj then .obj ⟨n, 0⟩ else .list ⟨n, 0⟩
  if O.typeOf h a key == (if wantObj then Kind.object else Kind.list) then
    match lookup (h.fields a) key with
    | some (.obj r) => (h, r.addr)
    | some (.list r) => (h, r.addr)
    | _ => (h, 0)
  else
    let n := h.length
    ((h ++ [mk]).setFields a (setKV (h.fields a) key (mkVal n)), n)

mutual
def setL : Nat → Heap → Nat → Str → GoVal → Heap × Out Unit
  | 0, h, _, _, _ => (h, .panic .runtime)
  | n + 1, h, a, tf, g =>
    match strip '#' tf with
    | none => (h, .panic .badTF)
    | some t =>
      match split t with
      | .dot seg rest =>
        match parseIdx seg with
        | none => (h, .panic .badInt)
        | some i => match stepL h a i true with
          | (h1, .panic p) => (h1, .panic p)
          | (h1, .ok c) => setO n h1 c rest g
      | .hash seg rest =>
        match parseIdx seg with
        | none => (h, .panic .badInt)
        | some i => match stepL h a i false with
          | (h1, .panic p) => (h1, .panic p)
          | (h1, .ok c) => setL n h1 c rest g
      | .leaf seg =>
        match parseIdx seg with
        | none => (h, .panic .badInt)
        | some i =>
          let cnt := L.count h a
          if i >= cnt then
            match L.add (padNil h a (i - cnt).toNat) a [g] with
            | (h1, .ok _) => (h1, .ok ())
            | (h1, .panic p) => (h1, .panic p)
          else match L.replace h a i g with
            | (h1, .ok _) => (h1, .ok ())
            | (h1, .panic p) => (h1, .panic p)
def setO : Nat → Heap → Nat → Str → GoVal → Heap × Out Unit
  | 0, h, _, _, _ => (h, .panic .runtime)
  | n + 1, h, a, tf, g =>
    match strip '.' tf with
    | none => (h, .panic .badTF)
    | some t =>
      match split t with
      | .dot key rest =>
        let (h1, c) := stepO h a key true
        setO n h1 c rest g
      | .hash key rest =>
        let (h1, c) := stepO h a key false
        setL n h1 c rest g
      | .leaf key =>
        match O.set h a [(some key, g)] false with
        | (h1, .ok _) => (h1, .ok ())
        | (h1, .panic p) => (h1, .panic p)
end

/-! ### UnsetTF -/
mutual
def unsetL : Nat → Heap → Nat → Str → Heap × Out Unit
  | 0, h, _, _ => (h, .panic .runtime)
  | n + 1, h, a, tf =>
    match strip '#' tf with
    | none => (h, .panic .badTF)
    | some t =>
      match split t with
      | .dot seg rest =>
        match parseIdx seg with
        | none => (h, .panic .badInt)
        | some i => match L.getK h a .object i with
          | .ok (.obj r) => unsetO n h r.addr rest
          | .ok _ => (h, .panic .runtime)
          | .panic p => (h, .panic p)
      | .hash seg rest =>
        match parseIdx seg with
        | none => (h, .panic .badInt)
        | some i => match L.getK h a .list i with
          | .ok (.list r) => unsetL n h r.addr rest
          | .ok _ => (h, .panic .runtime)
          | .panic p => (h, .panic p)
      | .leaf seg =>
        match parseIdx seg with
        | none => (h, .panic .badInt)
        | some i => match L.delete h a [i] with
          | (h1, .ok _) => (h1, .ok ())
          | (h1, .panic p) => (h1, .panic p)
def unsetO : Nat → Heap → Nat → Str → Heap × Out Unit
  | 0, h, _, _ => (h, .panic .runtime)
  | n + 1, h, a, tf =>
    match strip '.' tf with
    | none => (h, .panic .badTF)
    | some t =>
      match split t with
      | .dot key rest =>
        match O.getK h a .object key with
        | .ok (.obj r) => unsetO n h r.addr rest
        | .ok _ => (h, .panic .runtime)
        | .panic p => (h, .panic p)
      | .hash key rest =>
        match O.getK h a .list key with
        | .ok (.list r) => unsetL n h r.addr rest
        | .ok _ => (h, .panic .runtime)
        | .panic p => (h, .panic p)
      | .leaf key =>
        match O.unset h a [key] with
        | (h1, _) => (h1, .ok ())
end

end TF
end Anytype
