/-
C01: `ParseList(l.String())` / `ParseObject(o.String())` returns no error and a container that
`Equals` the original, with every element kind preserved, for every well-formed value tree
(no bound on depth, width or string content) and every field order of every object.

No assumption about floating point is left: `FmtContract` (the serialiser's shortest formatting is read back as
the identical float64) is the theorem `fmtContract_holds` (`Lemmas/FmtContractHolds.lean`: seventeen digits
always suffice; the 'e' and 'f' layouts preserve the value).
-/
import Anytype.Lemmas.ParseTop
import Anytype.Lemmas.EqualsRefl
import Anytype.Lemmas.FmtContractHolds
namespace Anytype

/-! ### exact round trip -/

theorem C01_roundtrip_list (xs : List JVal) (hw : (JVal.list xs).WF) :
    parseListBytes (encode (ser (.list xs))) = .ok (.list xs) :=
  RT.parseList_ser fmtContract_holds xs hw

theorem C01_roundtrip_object (kvs : List (Str × JVal)) (hw : (JVal.obj kvs).WF) :
    parseObjectBytes (encode (ser (.obj kvs))) = .ok (.obj kvs) :=
  RT.parseObject_ser fmtContract_holds kvs hw

/-- non-vacuity of `hw`: `sampleList` / `sampleFields` (`Lemmas/WF.lean`) are nested values with a
string containing `"`, `\`, control characters, non-ASCII, U+FFFD and astral characters, extreme ints,
negative zero, an empty object and an empty list.  (`fmtContract_holds` is the float-formatting assumption; spot
checks of it are in `Lemmas/Contract.lean`.) -/
example : (JVal.list sampleList).WF := sampleList_WF
example : (JVal.obj sampleFields).WF := sampleFields_WF
example : parseListBytes (encode (ser (.list sampleList))) = .ok (.list sampleList) :=
  C01_roundtrip_list _ sampleList_WF
example : parseObjectBytes (encode (ser (.obj sampleFields))) = .ok (.obj sampleFields) :=
  C01_roundtrip_object _ sampleFields_WF

/-! ### the machine consumes the whole text -/

/-- the root bracket is the first byte, and the machine started behind it stops exactly at the end
of the text (nothing is left over), on the line it started on -/
theorem C01_consumes_all_list (xs : List JVal) (hw : (JVal.list xs).WF) :
    ∃ post, splitAtByte 0x5B (encode (ser (.list xs))) = some ([], post) ∧
      ∀ startLine, runList post startLine = .ok (.list xs) [] startLine :=
  ⟨_, RT.split_list xs, RT.runList_ser fmtContract_holds xs hw⟩

theorem C01_consumes_all_object (kvs : List (Str × JVal)) (hw : (JVal.obj kvs).WF) :
    ∃ post, splitAtByte 0x7B (encode (ser (.obj kvs))) = some ([], post) ∧
      ∀ startLine, runObject post startLine = .ok (.obj kvs) [] startLine :=
  ⟨_, RT.split_obj kvs, RT.runObject_ser fmtContract_holds kvs hw⟩

example : (JVal.list sampleList).WF := sampleList_WF
example : (JVal.obj sampleFields).WF := sampleFields_WF

/-- the form used by the entry points: start line 1 -/
theorem C01_consumes_all :
    (∀ xs, (JVal.list xs).WF → ∃ post l, splitAtByte 0x5B (encode (ser (.list xs))) = some ([], post) ∧
        runList post 1 = .ok (.list xs) [] l) ∧
    (∀ kvs, (JVal.obj kvs).WF → ∃ post l, splitAtByte 0x7B (encode (ser (.obj kvs))) = some ([], post) ∧
        runObject post 1 = .ok (.obj kvs) [] l) := by
  constructor
  · intro xs hw
    obtain ⟨post, h1, h2⟩ := C01_consumes_all_list xs hw
    exact ⟨post, 1, h1, h2 1⟩
  · intro kvs hw
    obtain ⟨post, h1, h2⟩ := C01_consumes_all_object kvs hw
    exact ⟨post, 1, h1, h2 1⟩

/-! ### `Equals`, kinds, second round trip -/

/-- `Equals` is reflexive on the domain (no NaN, distinct keys) -/
theorem C01_equals (v : JVal) (hw : v.WF) : equalsJ v v = true :=
  RT.equalsJ_refl v hw

theorem C01_equals_roundtrip_list (xs : List JVal) (hw : (JVal.list xs).WF) :
    ∃ w, parseListBytes (encode (ser (.list xs))) = .ok w ∧
      equalsJ w (.list xs) = true ∧ equalsJ (.list xs) w = true :=
  ⟨_, C01_roundtrip_list xs hw, C01_equals _ hw, C01_equals _ hw⟩

theorem C01_equals_roundtrip_object (kvs : List (Str × JVal)) (hw : (JVal.obj kvs).WF) :
    ∃ w, parseObjectBytes (encode (ser (.obj kvs))) = .ok w ∧
      equalsJ w (.obj kvs) = true ∧ equalsJ (.obj kvs) w = true :=
  ⟨_, C01_roundtrip_object kvs hw, C01_equals _ hw, C01_equals _ hw⟩

example : (JVal.list sampleList).WF ∧ (JVal.obj sampleFields).WF := ⟨sampleList_WF, sampleFields_WF⟩

/-- every element comes back with the kind it had (float as float also when whole-valued or
negative zero, int as int), at every depth -/
theorem C01_kinds_list (xs : List JVal) (hw : (JVal.list xs).WF) :
    ∃ w, parseListBytes (encode (ser (.list xs))) = .ok w ∧ kindTree w = kindTree (.list xs) :=
  ⟨_, C01_roundtrip_list xs hw, rfl⟩

theorem C01_kinds_object (kvs : List (Str × JVal)) (hw : (JVal.obj kvs).WF) :
    ∃ w, parseObjectBytes (encode (ser (.obj kvs))) = .ok w ∧ kindTree w = kindTree (.obj kvs) :=
  ⟨_, C01_roundtrip_object kvs hw, rfl⟩

example : (JVal.list sampleList).WF ∧ (JVal.obj sampleFields).WF := ⟨sampleList_WF, sampleFields_WF⟩

/-- serialising the re-parsed container and parsing again yields the same container -/
theorem C01_twice_list (xs : List JVal) (hw : (JVal.list xs).WF) :
    ∃ w, parseListBytes (encode (ser (.list xs))) = .ok w ∧
      parseListBytes (encode (ser w)) = .ok w ∧ equalsJ w (.list xs) = true :=
  ⟨_, C01_roundtrip_list xs hw, C01_roundtrip_list xs hw, C01_equals _ hw⟩

theorem C01_twice_object (kvs : List (Str × JVal)) (hw : (JVal.obj kvs).WF) :
    ∃ w, parseObjectBytes (encode (ser (.obj kvs))) = .ok w ∧
      parseObjectBytes (encode (ser w)) = .ok w ∧ equalsJ w (.obj kvs) = true :=
  ⟨_, C01_roundtrip_object kvs hw, C01_roundtrip_object kvs hw, C01_equals _ hw⟩

example : (JVal.list sampleList).WF ∧ (JVal.obj sampleFields).WF := ⟨sampleList_WF, sampleFields_WF⟩

end Anytype

#print axioms Anytype.C01_roundtrip_list
#print axioms Anytype.C01_roundtrip_object
#print axioms Anytype.C01_consumes_all_list
#print axioms Anytype.C01_consumes_all_object
#print axioms Anytype.C01_consumes_all
#print axioms Anytype.C01_equals
#print axioms Anytype.C01_equals_roundtrip_list
#print axioms Anytype.C01_equals_roundtrip_object
#print axioms Anytype.C01_kinds_list
#print axioms Anytype.C01_kinds_object
#print axioms Anytype.C01_twice_list
#print axioms Anytype.C01_twice_object
