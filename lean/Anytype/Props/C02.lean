/-
C02: `String()` is one syntactically valid RFC 8259 JSON text, and an independent strict decoder
recovers exactly the container's content from it.

No assumption about floating point is left: `FmtContract` (the serialiser's shortest formatting is read back as
the identical float64) is the theorem `fmtContract_holds` (`Lemmas/FmtContractHolds.lean`: seventeen digits
always suffice; the 'e' and 'f' layouts preserve the value).
-/
import Anytype.Lemmas.StrictRoundTrip
import Anytype.Lemmas.ContractOne
import Anytype.Lemmas.FmtContractHolds
namespace Anytype

/-- the strict decoder reads the serialisation of every well-formed value tree back exactly
(same nesting, order, lengths, keys, strings, booleans, nulls; ints as the same int, floats as the
identical float64) and consumes the whole text -/
theorem C02_decode (v : JVal) (hw : v.WF) :
    Strict.decode (ser v) = .ok v [] := by
  unfold Strict.decode
  rw [(Strict.ser_goodHead fmtContract_holds v hw).skipWs]
  have := Strict.value_ser fmtContract_holds v hw ((ser v).length + 1) [] (by omega) (Or.inl rfl)
  rw [List.append_nil] at this
  rw [this]; rfl

theorem C02_valid_and_faithful (v : JVal) (hw : v.WF) (_hc : v.isContainer = true) :
    Strict.decodeStrict (ser v) = some v := by
  unfold Strict.decodeStrict
  rw [C02_decode v hw]

theorem C02_valid (v : JVal) (hw : v.WF) (_hc : v.isContainer = true) :
    Strict.isStrictJSON (ser v) = true := by
  unfold Strict.isStrictJSON
  rw [C02_decode v hw]

/-! ### non-vacuity: concrete nested values in the domain (defined in `Lemmas/WF.lean`) -/

example : (JVal.obj sampleFields).WF ∧ (JVal.obj sampleFields).isContainer = true := ⟨sampleFields_WF, rfl⟩
example : (JVal.list sampleList).WF ∧ (JVal.list sampleList).isContainer = true := ⟨sampleList_WF, rfl⟩

end Anytype

#print axioms Anytype.C02_decode
#print axioms Anytype.C02_valid_and_faithful
#print axioms Anytype.C02_valid


/-! ### the float-formatting hypothesis is a single statement

`FmtContract` (until `Lemmas/FmtContractHolds.lean` the only unproved assumption of C01, C02, C04's
cut-serial corollary and C16; now the theorem `fmtContract_holds`) is
equivalent to its field `strict` alone: a strict RFC 8259 reader takes the text `serF x` of every
finite `x`, as a whole, for the identical float64. `parse_back` (Go's `ParseFloat` reads it back)
follows because the parser model and the strict reader agree on number literals (`C03_numbers`). -/

open Anytype in
theorem C02_contract_one_field :
    FmtContract ↔
      ∀ x : F64, x.isFinite = true → Strict.number (serF x) = some (some (.float x), []) :=
  FmtContract.iff_strict

open Anytype in
/-- that single statement is a theorem: the serialiser's text of every finite float64 is, for a strict RFC 8259
reader, a number denoting the identical float64 (seventeen significant digits always suffice; the 'e' and 'f'
layouts and the appended ".0" preserve the value and keep the text a float) -/
theorem C02_number_text_faithful (x : F64) (hf : x.isFinite = true) :
    Strict.number (serF x) = some (some (.float x), []) ∧ F64.parseFloat (serF x) = some x :=
  ⟨serF_strict x hf, serF_parse_back x hf⟩

open Anytype in
example : (⟨0x3ff199999999999a⟩ : F64).isFinite = true := by decide   -- 1.1: the hypothesis is satisfiable

open Anytype in
#print axioms C02_contract_one_field
open Anytype in
#print axioms C02_number_text_faithful
