/-
C02: `String()` is one syntactically valid RFC 8259 JSON text, and an independent strict decoder
recovers exactly the container's content from it.

The only assumption is `FmtContract` (behaviour of Go's shortest float formatting, stated about
the executable `serF`).
-/
import Anytype.Lemmas.StrictRoundTrip
namespace Anytype

/-- the strict decoder reads the serialisation of every well-formed value tree back exactly
(same nesting, order, lengths, keys, strings, booleans, nulls; ints as the same int, floats as the
identical float64) and consumes the whole text -/
theorem C02_decode (hf : FmtContract) (v : JVal) (hw : v.WF) :
    Strict.decode (ser v) = .ok v [] := by
  unfold Strict.decode
  rw [(Strict.ser_goodHead hf v hw).skipWs]
  have := Strict.value_ser hf v hw ((ser v).length + 1) [] (by omega) (Or.inl rfl)
  rw [List.append_nil] at this
  rw [this]; rfl

theorem C02_valid_and_faithful (hf : FmtContract) (v : JVal) (hw : v.WF) (_hc : v.isContainer = true) :
    Strict.decodeStrict (ser v) = some v := by
  unfold Strict.decodeStrict
  rw [C02_decode hf v hw]

theorem C02_valid (hf : FmtContract) (v : JVal) (hw : v.WF) (_hc : v.isContainer = true) :
    Strict.isStrictJSON (ser v) = true := by
  unfold Strict.isStrictJSON
  rw [C02_decode hf v hw]

/-! ### non-vacuity: concrete nested values in the domain (defined in `Lemmas/WF.lean`) -/

example : (JVal.obj sampleFields).WF ∧ (JVal.obj sampleFields).isContainer = true := ⟨sampleFields_WF, rfl⟩
example : (JVal.list sampleList).WF ∧ (JVal.list sampleList).isContainer = true := ⟨sampleList_WF, rfl⟩

end Anytype

#print axioms Anytype.C02_decode
#print axioms Anytype.C02_valid_and_faithful
#print axioms Anytype.C02_valid
