/-
C02: `String()` is one syntactically valid RFC 8259 JSON text, and an independent strict decoder
recovers exactly the container's content from it.

The only assumption is `FmtContract` (behaviour of Go's shortest float formatting, stated about
the executable `serF`).
-/
import Anytype.Lemmas.StrictRoundTrip
import Anytype.Lemmas.ContractOne
namespace Anytype

/-- the strict decoder reads the serialisation of every well-formed value tree back exactly
(same nesting, order, lengths, keys, strings, booleans, nulls; ints as the same int, floats as the
identical float64) and consumes the whole text -/
theorem C02_decode (hf : FmtContract) (v : JVal) (hw : v.WF) :
    Strict.decode (ser v) = .ok v [] := by
  unfold Strict.decode
  rw [(Strict.ser_goodHead hf v hw).skipWs]
  have := Strict.value_ser hf v hw ((ser v).length + 1) [] (by omega) (Or.inl rfl)
  rw [List.append_nil] at this
  rw [this]; rfl

theorem C02_valid_and_faithful (hf : FmtContract) (v : JVal) (hw : v.WF) (_hc : v.isContainer = true) :
    Strict.decodeStrict (ser v) = some v := by
  unfold Strict.decodeStrict
  rw [C02_decode hf v hw]

theorem C02_valid (hf : FmtContract) (v : JVal) (hw : v.WF) (_hc : v.isContainer = true) :
    Strict.isStrictJSON (ser v) = true := by
  unfold Strict.isStrictJSON
  rw [C02_decode hf v hw]

/-! ### non-vacuity: concrete nested values in the domain (defined in `Lemmas/WF.lean`) -/

example : (JVal.obj sampleFields).WF ∧ (JVal.obj sampleFields).isContainer = true := ⟨sampleFields_WF, rfl⟩
example : (JVal.list sampleList).WF ∧ (JVal.list sampleList).isContainer = true := ⟨sampleList_WF, rfl⟩

end Anytype

#print axioms Anytype.C02_decode
#print axioms Anytype.C02_valid_and_faithful
#print axioms Anytype.C02_valid


/-! ### the float-formatting hypothesis is a single statement

`FmtContract` (the only unproved assumption of C01, C02, C04's cut-serial corollary and C16) is
equivalent to its field `strict` alone: a strict RFC 8259 reader takes the text `serF x` of every
finite `x`, as a whole, for the identical float64. `parse_back` (Go's `ParseFloat` reads it back)
follows because the parser model and the strict reader agree on number literals (`C03_numbers`). -/

open Anytype in
theorem C02_contract_one_field :
    FmtContract ↔
      ∀ x : F64, x.isFinite = true → Strict.number (serF x) = some (some (.float x), []) :=
  FmtContract.iff_strict

open Anytype in
/-- the round trip and the validity theorem under the single-statement hypothesis -/
theorem C02_valid_and_faithful_one
    (hs : ∀ x : F64, x.isFinite = true → Strict.number (serF x) = some (some (.float x), []))
    (v : JVal) (hw : v.WF) (hc : v.isContainer = true) :
    Strict.decodeStrict (ser v) = some v :=
  C02_valid_and_faithful (FmtContract.of_strict hs) v hw hc

open Anytype in
#print axioms C02_contract_one_field
open Anytype in
#print axioms C02_valid_and_faithful_one
