/-
C03: for every RFC 8259-valid text whose root is an array (`ParseList`) or an object (`ParseObject`),
with any legal whitespace layout and any legal string escape, parsing succeeds and yields the same
tree as the reference decoder `Strict.decode` (same nesting, order, keys with "last duplicate wins",
byte-identical strings; an integer literal that fits the platform int becomes that int, every other
number in float64 range the correctly rounded float64 that `Strict.number` computes).

`Strict.decode s = .ok v []` says: `s` is RFC 8259-valid and inside the domain (no number beyond
float64 range, no `\u` escape of a lone surrogate).

Why there is a bound on number literals (`SVP.numRunBound` = 9600 characters per run of `0-9+-.eE`)

Go's `strconv.ParseFloat` stops accumulating exponent digits at 10000 (`if e < 10000 { e = e*10 + … }`,
mirrored by `F64.readExpDigits`), so an exponent of six or more digits is read as a number between
10000 and 99999.  That is harmless only while the mantissa is short: on literals of about 10 KB and
more `ParseFloat` itself is not correctly rounded, e.g. (go1.23) `"1"+"0"*10300+"e-100000"` gives
1e+300 (true value 1e-89700, i.e. 0) and `"0."+"0"*100000+"1e100001"` gives 0 (true value 1).  So the
"correctly rounded" clause of C03 cannot hold beyond that size for the real library either; the model
mirrors Go, and below 9600 characters the cap provably never changes the result.

What is proved

* `C03_numbers`, `C03_strings`: agreement on number literals (shorter than `numRunBound`) and on
  string bodies.
* `C03_parse_list_partial` / `C03_parse_object_partial`: exact equality of the trees for every such
  text **in which no run of number characters reaches 9600 characters** (`SVP.NumRunsShort`);
  `C03_parse_list_short` / `C03_parse_object_short`: in particular for every text shorter than 9600
  characters.  No other restriction (depth, width, whitespace, escapes, duplicate keys …).
* `C03_parse_list_embedded_partial` / `C03_parse_object_embedded_partial`: the same with arbitrary
  bracket-free text before the root and arbitrary text behind it; `C03_list_machine` /
  `C03_object_machine`: the machine stops exactly where the strict decoder stops.
* `C03_cap_counterexample`, `C03_parse_list_full_is_false`: the restriction cannot be dropped, the
  unrestricted statement is false for this model and this reference decoder (see the
  `NOT YET PROVED` block at the end).
-/
import Anytype.Lemmas.StrictVsParserCheck
namespace Anytype
open SVP

/-! ### numbers -/

/-- What `Strict.number` consumes is a non-empty text `t` of number characters, and `parseField t`
(`ParseInt(t, 0, 64)`, then `ParseFloat(t, 64)`) returns the same value: the same int for an
integer literal in int range, the identical float64 otherwise — provided `t` is shorter than
`numRunBound` = 9600 characters. -/
theorem C03_numbers (s : Str) (v : JVal) (rest : Str) (h : Strict.number s = some (some v, rest)) :
    ∃ t, s = t ++ rest ∧ t ≠ [] ∧ (∀ c ∈ t, isNumChar c = true) ∧
      (t.length < numRunBound → ∀ line, parseField t line = .ok v) :=
  number_parseField s v rest h

/-- non-vacuity: `-0`, a fraction with exponent, the smallest integer literal beyond the int range,
an exponent with leading zeros, a number that underflows to zero; each followed by other text -/
example : Strict.number "-0,".toList = some (some (.int 0), [',']) := numberIs_sound (by decide +kernel)
example : Strict.number "-12.5e-1 ]".toList = some (some (.float ⟨13831680355561635840⟩), [' ', ']']) :=
  numberIs_sound (by decide +kernel)
example : Strict.number "9223372036854775808".toList = some (some (.float ⟨4890909195324358656⟩), []) :=
  numberIs_sound (by decide +kernel)
example : Strict.number "-9223372036854775808}".toList = some (some (.int (-9223372036854775808)), ['}']) :=
  numberIs_sound (by decide +kernel)
example : Strict.number "1E+0005".toList = some (some (.float ⟨4681608360884174848⟩), []) :=
  numberIs_sound (by decide +kernel)
example : Strict.number "3e-999".toList = some (some (.float F64.posZero), []) :=
  numberIs_sound (by decide +kernel)

/-! ### strings -/

/-- A string body the strict decoder accepts (every surrogate escape properly paired) is a raw body
`body` up to the closing quote, consisting of plain characters and backslash + one character
(`SVP.RawBody`: exactly what the `.str` / `.key` states copy verbatim, `SVP.LRun_raw`,
`SVP.ORun_raw_str`, `SVP.ORun_raw_key`), and the library's `unquoteJSON body` is the decoded string. -/
theorem C03_strings (fuel : Nat) (t str rest : Str)
    (h : Strict.stringBody fuel t [] false = some (some str, rest)) :
    ∃ body, t = body ++ '"' :: rest ∧ RawBody body ∧ unquoteJSON body = str :=
  (stringBody_sound fuel t [] false str rest h).2.unquote

/-- non-vacuity: all two-character escapes, `\/`, a `\u` escape, a surrogate pair, raw non-ASCII -/
example : Strict.stringBody 100 "a\\/b\\\"\\\\\\b\\f\\n\\r\\t\\u0041\\ud83d\\ude00é\" ,".toList [] false =
    some (some ['a', '/', 'b', '"', '\\', '\x08', '\x0c', '\n', '\r', '\t', 'A', Char.ofNat 0x1F600, 'é'], [' ', ',']) := by
  decide +kernel

/-! ### whole texts -/

/-- `ParseList` returns exactly the tree of the reference decoder on every valid in-domain text with
an array root in which no run of number characters reaches `numRunBound` = 9600 characters.
Added hypothesis with respect to the full statement: `hnum`. -/
theorem C03_parse_list_partial (s : Str) (xs : List JVal) (hnum : NumRunsShort s)
    (h : Strict.decode s = .ok (.list xs) []) : parseListBytes (encode s) = .ok (.list xs) :=
  parseList_decode s xs hnum h

/-- `ParseObject`, likewise -/
theorem C03_parse_object_partial (s : Str) (kvs : List (Str × JVal)) (hnum : NumRunsShort s)
    (h : Strict.decode s = .ok (.obj kvs) []) : parseObjectBytes (encode s) = .ok (.obj kvs) :=
  parseObject_decode s kvs hnum h

/-- in particular for every text shorter than `numRunBound` = 9600 characters -/
theorem C03_parse_list_short (s : Str) (xs : List JVal) (hlen : s.length < numRunBound)
    (h : Strict.decode s = .ok (.list xs) []) : parseListBytes (encode s) = .ok (.list xs) :=
  C03_parse_list_partial s xs (NumRunsShort.of_length hlen) h

theorem C03_parse_object_short (s : Str) (kvs : List (Str × JVal)) (hlen : s.length < numRunBound)
    (h : Strict.decode s = .ok (.obj kvs) []) : parseObjectBytes (encode s) = .ok (.obj kvs) :=
  C03_parse_object_partial s kvs (NumRunsShort.of_length hlen) h

/-- a list document with: leading / trailing / inner whitespace of all four kinds, `-0`, an exponent,
an integer literal beyond the int range, every escape including `\/` and a surrogate pair, raw
non-ASCII, empty containers, the three literals, a nested object with a duplicate key -/
def C03_sampleListDoc : Str :=
  " [ 1 , -0 ,\t1.5E3,\n 9223372036854775808 , \"a\\/b\\\"\\\\\\b\\f\\n\\r\\t\\u0041\\ud83d\\ude00é\" , [ ] , { } , true , false , null , {\"k\" : 1 , \"k\" : [2] , \"z\" : \"\" } ]\r\n".toList

def C03_sampleListTree : List JVal :=
  [.int 1, .int 0, .float ⟨4654311885213007872⟩, .float ⟨4890909195324358656⟩,
   .str ['a', '/', 'b', '"', '\\', '\x08', '\x0c', '\n', '\r', '\t', 'A', Char.ofNat 0x1F600, 'é'],
   .list [], .obj [], .bool true, .bool false, .null,
   .obj [(['k'], .list [.int 2]), (['z'], .str [])]]

/-- an object document with an escaped key equal to a later plain key (last one wins, first position
kept), the key `/` written `\/`, a negative fraction with exponent -/
def C03_sampleObjectDoc : Str :=
  "\n{ \"a\\u0062\" : { \"x\" : [ ] } , \"ab\" : -12.5e-1 , \"n\" : null ,\"\\/\":0.1}  ".toList

def C03_sampleObjectTree : List (Str × JVal) :=
  [(['a', 'b'], .float ⟨13831680355561635840⟩), (['n'], .null), (['/'], .float ⟨4591870180066957722⟩)]

/-- non-vacuity of the hypotheses of `C03_parse_list_partial` / `_short` -/
example : Strict.decode C03_sampleListDoc = .ok (.list C03_sampleListTree) [] :=
  decodesTo_sound (by decide +kernel)
example : C03_sampleListDoc.length < numRunBound := by decide +kernel
example : NumRunsShort C03_sampleListDoc := NumRunsShort.of_length (by decide +kernel)
example : parseListBytes (encode C03_sampleListDoc) = .ok (.list C03_sampleListTree) :=
  C03_parse_list_short _ _ (by decide +kernel) (decodesTo_sound (by decide +kernel))

/-- non-vacuity of the hypotheses of `C03_parse_object_partial` / `_short` -/
example : Strict.decode C03_sampleObjectDoc = .ok (.obj C03_sampleObjectTree) [] :=
  decodesTo_sound (by decide +kernel)
example : C03_sampleObjectDoc.length < numRunBound := by decide +kernel
example : NumRunsShort C03_sampleObjectDoc := NumRunsShort.of_length (by decide +kernel)
example : parseObjectBytes (encode C03_sampleObjectDoc) = .ok (.obj C03_sampleObjectTree) :=
  C03_parse_object_short _ _ (by decide +kernel) (decodesTo_sound (by decide +kernel))

/-! ### embedded roots -/

/-- the list machine, started behind an opening bracket whose value the strict decoder accepts,
returns that value and stops exactly where the strict decoder stops -/
theorem C03_list_machine (body : Str) (fuel : Nat) (v : JVal) (rest : Str) (hnum : NumRunsShort body)
    (h : Strict.value fuel ('[' :: body) = .ok v rest) (line : Nat) :
    ∃ line', runList (encode body) line = .ok v (rest.map some) line' := by
  cases fuel with
  | zero => rw [value_zero] at h; cases h
  | succ f => exact runList_of_LOk (nestedL (EM_all f).1 hnum (value_at_lbrack h)) line

theorem C03_object_machine (body : Str) (fuel : Nat) (v : JVal) (rest : Str) (hnum : NumRunsShort body)
    (h : Strict.value fuel ('{' :: body) = .ok v rest) (line : Nat) :
    ∃ line', runObject (encode body) line = .ok v (rest.map some) line' := by
  cases fuel with
  | zero => rw [value_zero] at h; cases h
  | succ f => exact runObject_of_OOk (nestedO (EM_all f).2 hnum (value_at_lbrace h)) line

/-- `ParseList` on `pre ++ '[' :: body`: whatever bracket-free text precedes the root array and
whatever follows it (`rest`), the result is the strict decoder's value of the array -/
theorem C03_parse_list_embedded_partial (pre body : Str) (fuel : Nat) (v : JVal) (rest : Str)
    (hpre : '[' ∉ pre) (hnum : NumRunsShort body) (h : Strict.value fuel ('[' :: body) = .ok v rest) :
    parseListBytes (encode (pre ++ '[' :: body)) = .ok v :=
  parseList_embedded pre body fuel v rest hpre hnum h

theorem C03_parse_object_embedded_partial (pre body : Str) (fuel : Nat) (v : JVal) (rest : Str)
    (hpre : '{' ∉ pre) (hnum : NumRunsShort body) (h : Strict.value fuel ('{' :: body) = .ok v rest) :
    parseObjectBytes (encode (pre ++ '{' :: body)) = .ok v :=
  parseObject_embedded pre body fuel v rest hpre hnum h

/-- non-vacuity: text before the bracket, text (even ill-formed) behind the array -/
example : Strict.value 20 "[1, \"x\"] trailing } garbage".toList =
    .ok (.list [.int 1, .str ['x']]) " trailing } garbage".toList := by
  have : (match Strict.value 20 "[1, \"x\"] trailing } garbage".toList with
      | .ok w r => beqJ w (.list [.int 1, .str ['x']]) && r == " trailing } garbage".toList
      | _ => false) = true := by decide +kernel
  split at this
  · rename_i w r hw
    simp only [Bool.and_eq_true, beq_iff_eq] at this
    rw [hw, beqJ_sound _ _ this.1, this.2]
  · cases this
example : '[' ∉ "var x = ".toList := by decide
example : NumRunsShort "1, \"x\"] trailing } garbage".toList := NumRunsShort.of_length (by decide +kernel)

/-! ### the restriction on number literals cannot be dropped -/

/-- On the 10 011-character document `[1000…0e-100000]` (a one followed by 10000 zeros; the true
value 1e-90000 rounds to 0) the reference decoder answers `[0.0]`, but the model of `ParseList`
answers `[1.0]`: `strconv.ParseFloat` (`F64.readExpDigits`) stops accumulating exponent digits at
10000 and therefore reads the exponent as -10000. -/
theorem C03_cap_counterexample :
    ∃ s : Str, s.length = 10011 ∧ Strict.decode s = .ok (.list [.float F64.posZero]) [] ∧
      parseListBytes (encode s) = .ok (.list [.float F64.one]) :=
  cap_disagreement

/-- hence the statement without `hnum` is false -/
theorem C03_parse_list_full_is_false :
    ¬ ∀ (s : Str) (xs : List JVal), Strict.decode s = .ok (.list xs) [] →
        parseListBytes (encode s) = .ok (.list xs) := by
  intro hall
  obtain ⟨s, _, hd, hp⟩ := C03_cap_counterexample
  have := hall s _ hd
  rw [hp] at this
  injection this with this
  injection this with this
  injection this with this
  injection this with this
  revert this; decide

/-
NOT YET PROVED (and not provable: refuted by `C03_parse_list_full_is_false`)

theorem C03_parse_list (s : Str) (xs : List JVal) (h : Strict.decode s = .ok (.list xs) []) :
    parseListBytes (encode s) = .ok (.list xs)
theorem C03_parse_object (s : Str) (kvs : List (Str × JVal)) (h : Strict.decode s = .ok (.obj kvs) []) :
    parseObjectBytes (encode s) = .ok (.obj kvs)

Hypothesis added in the `_partial` theorems: `hnum : SVP.NumRunsShort s`, i.e. every maximal run of
characters from `0-9 + - . e E` is shorter than `SVP.numRunBound` = 9600 characters (implied by
`s.length < 9600`).

Why it is needed.  Both readers cap the exponent they accumulate: `strconv.ParseFloat`
(`F64.readExpDigits`) at 10000, `Strict.number` at 1000000 ("anything beyond is out of range or
zero anyway").  That remark is only true while mantissa and fraction are shorter than the cap:
with about 10000 integer digits (or leading fraction zeros) and an exponent of six or more digits
`ParseFloat` differs from the correctly rounded value (and `Strict.number` does so from about
1000000 digits on).  Up to 9599 characters per literal the caps provably never change the verdict
(`SVP.caps_agree`, `SVP.goFinal_agree`).
-/

end Anytype

#print axioms Anytype.C03_numbers
#print axioms Anytype.C03_strings
#print axioms Anytype.C03_parse_list_partial
#print axioms Anytype.C03_parse_object_partial
#print axioms Anytype.C03_parse_list_short
#print axioms Anytype.C03_parse_object_short
#print axioms Anytype.C03_list_machine
#print axioms Anytype.C03_object_machine
#print axioms Anytype.C03_parse_list_embedded_partial
#print axioms Anytype.C03_parse_object_embedded_partial
#print axioms Anytype.C03_cap_counterexample
#print axioms Anytype.C03_parse_list_full_is_false
