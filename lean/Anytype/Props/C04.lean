/-
Property C04.

"For every byte string, ParseList, ParseObject and ParseFile terminate without panicking and return
either a non-nil container with a nil error or a nil container with a non-nil error, and the same
input always gives the same outcome.  Every proper prefix of a text produced by String() is rejected
with an error (a cut-off document is never silently accepted), and so is every document that
contains ill-formed UTF-8 between its root brackets.  ParseFile(path) returns exactly what
ParseObject returns for the file's bytes, or an error if the file cannot be read."

Termination / no panic is totality of the model functions together with the unreachability of the
model's fuel sentinel (`C04_total_*`); determinism holds because they are functions.
-/
import Anytype.Lemmas.ParserBytes
import Anytype.Props.C01
import Anytype.Lemmas.FmtContractHolds
namespace Anytype

/-! ### 1. totality: the fuel sentinel is unreachable; fuel monotonicity -/

theorem C04_total_list (post : List UInt8) (line : Nat) :
    ∀ l, runList post line ≠ .err ⟨.fuel, l⟩ :=
  runList_notFuel post line

theorem C04_total_object (post : List UInt8) (line : Nat) :
    ∀ l, runObject post line ≠ .err ⟨.fuel, l⟩ :=
  runObject_notFuel post line

/-- any fuel from `items.length + 1` on, any machine state: never the fuel sentinel -/
theorem C04_total_pList (f : Nat) (items : List Item) (hf : items.length + 1 ≤ f) (st acc val iv line) :
    ∀ l, pList f items st acc val iv line ≠ .err ⟨.fuel, l⟩ :=
  pList_total hf st acc val iv line

theorem C04_total_pObject (f : Nat) (items : List Item) (hf : items.length + 1 ≤ f)
    (st acc key val iv line) :
    ∀ l, pObject f items st acc key val iv line ≠ .err ⟨.fuel, l⟩ :=
  pObject_total hf st acc key val iv line

example : ([some '1', some ']'] : List Item).length + 1 ≤ 3 := by decide

/-- fuel monotonicity: a result other than the fuel sentinel is the result for every larger fuel -/
theorem C04_fuel_mono_pList {f items st acc val iv line r}
    (h : pList f items st acc val iv line = r) (hr : ∀ l, r ≠ .err ⟨.fuel, l⟩)
    (f' : Nat) (hf : f ≤ f') : pList f' items st acc val iv line = r :=
  pList_mono h hr hf

theorem C04_fuel_mono_pObject {f items st acc key val iv line r}
    (h : pObject f items st acc key val iv line = r) (hr : ∀ l, r ≠ .err ⟨.fuel, l⟩)
    (f' : Nat) (hf : f ≤ f') : pObject f' items st acc key val iv line = r :=
  pObject_mono h hr hf

example : pList 3 [some '1', some ']'] .val [] [] false 1 = .ok (.list [.int 1]) [] 1 ∧
    ∀ l, PRes.ok (.list [.int 1]) [] 1 ≠ .err ⟨.fuel, l⟩ := ⟨by rfl, fun _ h => by cases h⟩

theorem C04_total_parseList (bs : List UInt8) : ∀ l, parseListBytes bs ≠ .error ⟨.fuel, l⟩ := by
  intro l h
  rcases parseListBytes_error h with ⟨_, h'⟩ | ⟨pre, post, _, hr⟩
  · cases h'
  · exact runList_notFuel _ _ l hr

theorem C04_total_parseObject (bs : List UInt8) : ∀ l, parseObjectBytes bs ≠ .error ⟨.fuel, l⟩ := by
  intro l h
  rcases parseObjectBytes_error h with ⟨_, h'⟩ | ⟨pre, post, _, hr⟩
  · cases h'
  · exact runObject_notFuel _ _ l hr

theorem C04_total_parseFile (fs : String → Option (List UInt8)) (path : String) :
    ∀ l, parseFile fs path ≠ .error ⟨.fuel, l⟩ := by
  intro l h
  unfold parseFile at h
  split at h
  · cases h
  · exact C04_total_parseObject _ l h

/-! ### 2. exactly one of (container, error) -/

/-- the Go result pair `(container, error)`; `none` stands for `nil` -/
def goPair : Except PErr JVal → Option JVal × Option PErr
  | .ok v => (some v, none)
  | .error e => (none, some e)

theorem C04_goPair_exclusive (r : Except PErr JVal) :
    ((goPair r).1.isSome ∧ (goPair r).2 = none) ∨ ((goPair r).1 = none ∧ (goPair r).2.isSome) := by
  cases r with
  | ok v => exact .inl ⟨rfl, rfl⟩
  | error e => exact .inr ⟨rfl, rfl⟩

/-- a container with a nil error, or a nil container with an error — never both, never neither -/
theorem C04_exclusive (bs : List UInt8) (fs : String → Option (List UInt8)) (path : String) :
    (let r := goPair (parseListBytes bs); (r.1.isSome ∧ r.2 = none) ∨ (r.1 = none ∧ r.2.isSome)) ∧
    (let r := goPair (parseObjectBytes bs); (r.1.isSome ∧ r.2 = none) ∨ (r.1 = none ∧ r.2.isSome)) ∧
    (let r := goPair (parseFile fs path); (r.1.isSome ∧ r.2 = none) ∨ (r.1 = none ∧ r.2.isSome)) :=
  ⟨C04_goPair_exclusive _, C04_goPair_exclusive _, C04_goPair_exclusive _⟩

/-- the same input always gives the same outcome (the entry points are functions) -/
theorem C04_deterministic (bs bs' : List UInt8) (h : bs = bs') :
    parseListBytes bs = parseListBytes bs' ∧ parseObjectBytes bs = parseObjectBytes bs' := by
  subst h; exact ⟨rfl, rfl⟩

/-! ### 3. the consumed region (items level) -/

/-- An accepting run of the list machine, from any state and with any fuel, consumes a non-empty
region `c` of well-formed characters, counts its newlines, can be replayed in front of any other
tail (locality), and rejects every proper prefix of `c`, alone or followed by an ill-formed item
(what a cut in the middle of a multi-byte character decodes to). -/
theorem C04_items_list {f items st acc val iv line v rest line'}
    (h : pList f items st acc val iv line = .ok v rest line') :
    ∃ c, items = c ++ rest ∧ c ≠ [] ∧ (∀ it ∈ c, it ≠ none) ∧ line' = line + nlCount c ∧
      (∀ (t : List Item) (f' : Nat), c.length < f' →
        pList f' (c ++ t) st acc val iv line = .ok v t line') ∧
      (∀ (p q : List Item), c = p ++ q → q ≠ [] →
        ∀ (f' : Nat) (tail : List Item), (tail = [] ∨ tail.head? = some none) →
          ∀ v' r' l', pList f' (p ++ tail) st acc val iv line ≠ .ok v' r' l') := by
  simp only [pList_eq_exec] at h ⊢
  exact exec_master h

theorem C04_items_object {f items st acc key val iv line v rest line'}
    (h : pObject f items st acc key val iv line = .ok v rest line') :
    ∃ c, items = c ++ rest ∧ c ≠ [] ∧ (∀ it ∈ c, it ≠ none) ∧ line' = line + nlCount c ∧
      (∀ (t : List Item) (f' : Nat), c.length < f' →
        pObject f' (c ++ t) st acc key val iv line = .ok v t line') ∧
      (∀ (p q : List Item), c = p ++ q → q ≠ [] →
        ∀ (f' : Nat) (tail : List Item), (tail = [] ∨ tail.head? = some none) →
          ∀ v' r' l', pObject f' (p ++ tail) st acc key val iv line ≠ .ok v' r' l') := by
  simp only [pObject_eq_exec] at h ⊢
  exact exec_master h

-- `1,"a"]z` after the root bracket: accepted, `z` is left over
example : pList 10 [some '1', some ',', some '"', some 'a', some '"', some ']', some 'z']
    .val [] [] false 1 = .ok (.list [.int 1, .str ['a']]) [some 'z'] 1 := by rfl

-- `"k":[2]}x` after the root bracket
example : pObject 12 [some '"', some 'k', some '"', some ':', some '[', some '2', some ']', some '}',
    some 'x'] .keyStart [] [] [] false 1 = .ok (.obj [(['k'], .list [.int 2])]) [some 'x'] 1 := by rfl

/-! ### 4. cut-off documents (byte level) -/

/-- a text without the root bracket is rejected -/
theorem C04_nobracket_list (p : List UInt8) (h : (0x5B : UInt8) ∉ p) :
    parseListBytes p = .error ⟨.missingBracket, none⟩ :=
  parseListBytes_no_bracket h

theorem C04_nobracket_object (p : List UInt8) (h : (0x7B : UInt8) ∉ p) :
    parseObjectBytes p = .error ⟨.missingBracket, none⟩ :=
  parseObjectBytes_no_bracket h

/-- `cb` are bytes after the root bracket whose decoded items are exactly what the machine consumed
(`decodeAll post = decodeAll cb ++ rest`): every input cut strictly inside `cb` — at a character
boundary or in the middle of a multi-byte character — is rejected. -/
theorem C04_region_list {bs pre post cb restb : List UInt8} {v rest l}
    (hs : splitAtByte 0x5B bs = some (pre, post))
    (hr : runList post (countNL pre + 1) = .ok v rest l)
    (_hpost : post = cb ++ restb) (hdec : decodeAll post = decodeAll cb ++ rest) :
    ∀ post', post' <+: cb → post' ≠ cb → ∃ e, parseListBytes (pre ++ 0x5B :: post') = .error e := by
  intro post' hpre hne
  rw [runList_eq_exec] at hr
  obtain ⟨c, hc, hrun⟩ := exec_ok_run _ hr
  have : c = decodeAll cb := List.append_cancel_right (hc.symm.trans hdec)
  subst this
  exact parseListBytes_cut (splitAtByte_some hs).2 hrun hpre hne

theorem C04_region_object {bs pre post cb restb : List UInt8} {v rest l}
    (hs : splitAtByte 0x7B bs = some (pre, post))
    (hr : runObject post (countNL pre + 1) = .ok v rest l)
    (_hpost : post = cb ++ restb) (hdec : decodeAll post = decodeAll cb ++ rest) :
    ∀ post', post' <+: cb → post' ≠ cb → ∃ e, parseObjectBytes (pre ++ 0x7B :: post') = .error e := by
  intro post' hpre hne
  rw [runObject_eq_exec] at hr
  obtain ⟨c, hc, hrun⟩ := exec_ok_run _ hr
  have : c = decodeAll cb := List.append_cancel_right (hc.symm.trans hdec)
  subst this
  exact parseObjectBytes_cut (splitAtByte_some hs).2 hrun hpre hne

/-- An accepted input has a consumed byte region `cb` right after the root bracket (it ends at a
character boundary, decodes to well-formed characters only, and what follows it decodes to the
machine's leftover `rest`); every input cut strictly inside `cb` — at a character boundary or in
the middle of a multi-byte character — is rejected. -/
theorem C04_prefix_list {bs pre post : List UInt8} {v rest l}
    (hs : splitAtByte 0x5B bs = some (pre, post))
    (hr : runList post (countNL pre + 1) = .ok v rest l) :
    ∃ cb restb, bs = pre ++ 0x5B :: (cb ++ restb) ∧ cb ≠ [] ∧ none ∉ decodeAll cb ∧
      decodeAll restb = rest ∧ decodeAll post = decodeAll cb ++ rest ∧
      ∀ post', post' <+: cb → post' ≠ cb →
        ∃ e, parseListBytes (pre ++ 0x5B :: post') = .error e := by
  have hr' := hr
  rw [runList_eq_exec] at hr'
  obtain ⟨cb, restb, e1, e2, e3, hrun, _⟩ := exec_ok_bytes hr'
  refine ⟨cb, restb, by rw [← e1]; exact (splitAtByte_some hs).1, ?_,
    fun hm => hrun.all_some _ hm rfl, e2, e3, C04_region_list hs hr e1 e3⟩
  intro h; subst h; exact hrun.ne_nil decodeAll_nil

theorem C04_prefix_object {bs pre post : List UInt8} {v rest l}
    (hs : splitAtByte 0x7B bs = some (pre, post))
    (hr : runObject post (countNL pre + 1) = .ok v rest l) :
    ∃ cb restb, bs = pre ++ 0x7B :: (cb ++ restb) ∧ cb ≠ [] ∧ none ∉ decodeAll cb ∧
      decodeAll restb = rest ∧ decodeAll post = decodeAll cb ++ rest ∧
      ∀ post', post' <+: cb → post' ≠ cb →
        ∃ e, parseObjectBytes (pre ++ 0x7B :: post') = .error e := by
  have hr' := hr
  rw [runObject_eq_exec] at hr'
  obtain ⟨cb, restb, e1, e2, e3, hrun, _⟩ := exec_ok_bytes hr'
  refine ⟨cb, restb, by rw [← e1]; exact (splitAtByte_some hs).1, ?_,
    fun hm => hrun.all_some _ hm rfl, e2, e3, C04_region_object hs hr e1 e3⟩
  intro h; subst h; exact hrun.ne_nil decodeAll_nil

/-- If the machine consumes everything after the root bracket (as it does on a text produced by
`String()`), every proper prefix of the input is rejected with an error. -/
theorem C04_cut_list {bs pre post : List UInt8} {v l}
    (hs : splitAtByte 0x5B bs = some (pre, post))
    (hr : runList post (countNL pre + 1) = .ok v [] l) :
    ∀ p, p <+: bs → p ≠ bs → ∃ e, parseListBytes p = .error e := by
  intro p hp hne
  obtain ⟨hbs, hnm⟩ := splitAtByte_some hs
  subst hbs
  rcases prefix_split hp with h | ⟨post', rfl, h⟩
  · exact ⟨_, parseListBytes_no_bracket (not_mem_of_prefix h hnm)⟩
  · refine C04_region_list (cb := post) (restb := []) hs hr (List.append_nil _).symm
      (List.append_nil _).symm post' h ?_
    intro e; subst e; exact hne rfl

theorem C04_cut_object {bs pre post : List UInt8} {v l}
    (hs : splitAtByte 0x7B bs = some (pre, post))
    (hr : runObject post (countNL pre + 1) = .ok v [] l) :
    ∀ p, p <+: bs → p ≠ bs → ∃ e, parseObjectBytes p = .error e := by
  intro p hp hne
  obtain ⟨hbs, hnm⟩ := splitAtByte_some hs
  subst hbs
  rcases prefix_split hp with h | ⟨post', rfl, h⟩
  · exact ⟨_, parseObjectBytes_no_bracket (not_mem_of_prefix h hnm)⟩
  · refine C04_region_object (cb := post) (restb := []) hs hr (List.append_nil _).symm
      (List.append_nil _).symm post' h ?_
    intro e; subst e; exact hne rfl

/-- the same for files -/
theorem C04_cut_file {fs : String → Option (List UInt8)} {path path' : String}
    {bs p pre post : List UInt8} {v l}
    (_hf : fs path = some bs) (hf' : fs path' = some p)
    (hs : splitAtByte 0x7B bs = some (pre, post))
    (hr : runObject post (countNL pre + 1) = .ok v [] l) (hp : p <+: bs) (hne : p ≠ bs) :
    ∃ e, parseFile fs path' = .error e := by
  simp only [parseFile, hf']
  exact C04_cut_object hs hr p hp hne

-- non-vacuity: ` [1,"é"]` (the é is two bytes); the machine consumes everything
example : splitAtByte 0x5B [0x20, 0x5B, 0x31, 0x2C, 0x22, 0xC3, 0xA9, 0x22, 0x5D] =
      some ([0x20], [0x31, 0x2C, 0x22, 0xC3, 0xA9, 0x22, 0x5D]) ∧
    runList [0x31, 0x2C, 0x22, 0xC3, 0xA9, 0x22, 0x5D] (countNL [0x20] + 1) =
      .ok (.list [.int 1, .str [Char.ofNat 0xE9]]) [] 1 := by
  refine ⟨by decide, ?_⟩
  simp [runList, decodeAll, decodeOne, mkChar, isCont, countNL]
  rfl

-- `[1]x` : accepted with a non-empty leftover
example : splitAtByte 0x5B [0x5B, 0x31, 0x5D, 0x78] = some ([], [0x31, 0x5D, 0x78]) ∧
    runList [0x31, 0x5D, 0x78] (countNL [] + 1) = .ok (.list [.int 1]) [some 'x'] 1 := by
  refine ⟨by decide, ?_⟩
  simp [runList, decodeAll, decodeOne, mkChar, countNL]
  rfl

-- `{"a":1}`
example : splitAtByte 0x7B [0x7B, 0x22, 0x61, 0x22, 0x3A, 0x31, 0x7D] =
      some ([], [0x22, 0x61, 0x22, 0x3A, 0x31, 0x7D]) ∧
    runObject [0x22, 0x61, 0x22, 0x3A, 0x31, 0x7D] (countNL [] + 1) =
      .ok (.obj [(['a'], .int 1)]) [] 1 := by
  refine ⟨by decide, ?_⟩
  simp [runObject, decodeAll, decodeOne, mkChar, countNL]
  rfl

/-! ### 5. no ill-formed UTF-8 between the root brackets of an accepted text -/

theorem C04_utf8_list {bs v} (h : parseListBytes bs = .ok v) :
    ∃ pre post rest l c, splitAtByte 0x5B bs = some (pre, post) ∧
      runList post (countNL pre + 1) = .ok v rest l ∧ decodeAll post = c ++ rest ∧ c ≠ [] ∧
      none ∉ c ∧ ∀ i, (decodeAll post)[i]? = some none → c.length ≤ i := by
  obtain ⟨pre, post, rest, l, hs, hr⟩ := parseListBytes_ok h
  have hr' := hr
  rw [runList_eq_exec] at hr'
  obtain ⟨c, hc, hrun⟩ := exec_ok_run _ hr'
  refine ⟨pre, post, rest, l, c, hs, hr, hc, hrun.ne_nil, fun hm => hrun.all_some _ hm rfl, ?_⟩
  intro i hi
  refine Nat.le_of_not_lt fun hlt => ?_
  rw [hc, List.getElem?_append_left hlt] at hi
  exact hrun.all_some _ (List.mem_of_getElem? hi) rfl

theorem C04_utf8_object {bs v} (h : parseObjectBytes bs = .ok v) :
    ∃ pre post rest l c, splitAtByte 0x7B bs = some (pre, post) ∧
      runObject post (countNL pre + 1) = .ok v rest l ∧ decodeAll post = c ++ rest ∧ c ≠ [] ∧
      none ∉ c ∧ ∀ i, (decodeAll post)[i]? = some none → c.length ≤ i := by
  obtain ⟨pre, post, rest, l, hs, hr⟩ := parseObjectBytes_ok h
  have hr' := hr
  rw [runObject_eq_exec] at hr'
  obtain ⟨c, hc, hrun⟩ := exec_ok_run _ hr'
  refine ⟨pre, post, rest, l, c, hs, hr, hc, hrun.ne_nil, fun hm => hrun.all_some _ hm rfl, ?_⟩
  intro i hi
  refine Nat.le_of_not_lt fun hlt => ?_
  rw [hc, List.getElem?_append_left hlt] at hi
  exact hrun.all_some _ (List.mem_of_getElem? hi) rfl

-- `[1]` followed by an ill-formed byte: accepted, the ill-formed byte lies outside the brackets
example : parseListBytes [0x5B, 0x31, 0x5D, 0xFF] = .ok (.list [.int 1]) := by
  simp [parseListBytes, splitAtByte, runList, decodeAll, decodeOne, mkChar, countNL]
  rfl

-- `{}`
example : parseObjectBytes [0x7B, 0x7D] = .ok (.obj []) := by
  simp [parseObjectBytes, splitAtByte, runObject, decodeAll, decodeOne, mkChar, countNL]
  rfl

/-- an input with an ill-formed item at index `i` after the root bracket is rejected, unless the
root container was closed before index `i` -/
theorem C04_utf8_reject_list {bs pre post : List UInt8} {i : Nat}
    (hs : splitAtByte 0x5B bs = some (pre, post)) (hi : (decodeAll post)[i]? = some none) :
    (∃ e, parseListBytes bs = .error e) ∨
    (∃ v rest l c, runList post (countNL pre + 1) = .ok v rest l ∧ decodeAll post = c ++ rest ∧
      c.length ≤ i) := by
  cases h : parseListBytes bs with
  | error e => exact .inl ⟨e, rfl⟩
  | ok v =>
    obtain ⟨pre', post', rest, l, c, hs', hr, hc, _, _, hidx⟩ := C04_utf8_list h
    rw [hs] at hs'
    injection hs' with hs'; injection hs' with h1 h2
    subst h1 h2
    exact .inr ⟨v, rest, l, c, hr, hc, hidx i hi⟩

theorem C04_utf8_reject_object {bs pre post : List UInt8} {i : Nat}
    (hs : splitAtByte 0x7B bs = some (pre, post)) (hi : (decodeAll post)[i]? = some none) :
    (∃ e, parseObjectBytes bs = .error e) ∨
    (∃ v rest l c, runObject post (countNL pre + 1) = .ok v rest l ∧ decodeAll post = c ++ rest ∧
      c.length ≤ i) := by
  cases h : parseObjectBytes bs with
  | error e => exact .inl ⟨e, rfl⟩
  | ok v =>
    obtain ⟨pre', post', rest, l, c, hs', hr, hc, _, _, hidx⟩ := C04_utf8_object h
    rw [hs] at hs'
    injection hs' with hs'; injection hs' with h1 h2
    subst h1 h2
    exact .inr ⟨v, rest, l, c, hr, hc, hidx i hi⟩

-- `[1` then an ill-formed byte: index 1 after the bracket is ill-formed
example : splitAtByte 0x5B [0x5B, 0x31, 0xFF, 0x5D] = some ([], [0x31, 0xFF, 0x5D]) ∧
    (decodeAll [0x31, 0xFF, 0x5D])[1]? = some none := by
  refine ⟨by decide, ?_⟩
  simp [decodeAll, decodeOne, mkChar]

/-! ### 6. ParseFile -/

theorem C04_file (fs : String → Option (List UInt8)) (path : String) :
    parseFile fs path =
      match fs path with
      | none => .error ⟨.io, none⟩
      | some b => parseObjectBytes b := rfl

end Anytype

open Anytype in
#print axioms C04_total_list
open Anytype in
#print axioms C04_total_object
open Anytype in
#print axioms C04_total_pList
open Anytype in
#print axioms C04_total_pObject
open Anytype in
#print axioms C04_fuel_mono_pList
open Anytype in
#print axioms C04_fuel_mono_pObject
open Anytype in
#print axioms C04_total_parseList
open Anytype in
#print axioms C04_total_parseObject
open Anytype in
#print axioms C04_total_parseFile
open Anytype in
#print axioms C04_goPair_exclusive
open Anytype in
#print axioms C04_exclusive
open Anytype in
#print axioms C04_deterministic
open Anytype in
#print axioms C04_items_list
open Anytype in
#print axioms C04_items_object
open Anytype in
#print axioms C04_nobracket_list
open Anytype in
#print axioms C04_nobracket_object
open Anytype in
#print axioms C04_region_list
open Anytype in
#print axioms C04_region_object
open Anytype in
#print axioms C04_prefix_list
open Anytype in
#print axioms C04_prefix_object
open Anytype in
#print axioms C04_cut_list
open Anytype in
#print axioms C04_cut_object
open Anytype in
#print axioms C04_cut_file
open Anytype in
#print axioms C04_utf8_list
open Anytype in
#print axioms C04_utf8_object
open Anytype in
#print axioms C04_utf8_reject_list
open Anytype in
#print axioms C04_utf8_reject_object
open Anytype in
#print axioms C04_file


/-! ### every proper prefix of a serialised text is rejected (C04 ∘ C01) -/

open Anytype in
/-- "Every proper prefix of a text produced by List.String() is rejected with an error":
for every well-formed list value, in every field order of its nested objects. -/
theorem C04_cut_serial_list (xs : List JVal) (hw : (JVal.list xs).WF) :
    ∀ p, p <+: encode (ser (.list xs)) → p ≠ encode (ser (.list xs)) →
      ∃ e, parseListBytes p = .error e := by
  obtain ⟨post, hs, hr⟩ := C01_consumes_all_list xs hw
  exact C04_cut_list hs (hr _)

open Anytype in
theorem C04_cut_serial_object (kvs : List (Str × JVal)) (hw : (JVal.obj kvs).WF) :
    ∀ p, p <+: encode (ser (.obj kvs)) → p ≠ encode (ser (.obj kvs)) →
      ∃ e, parseObjectBytes p = .error e := by
  obtain ⟨post, hs, hr⟩ := C01_consumes_all_object kvs hw
  exact C04_cut_object hs (hr _)

open Anytype in
example : (JVal.list sampleList).WF := sampleList_WF

open Anytype in
#print axioms C04_cut_serial_list
open Anytype in
#print axioms C04_cut_serial_object
