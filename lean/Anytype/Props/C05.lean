/-
C05 — any finite program of List operations behaves like an ordered sequence that holds
scalars by value and Lists/Objects by reference; panics exactly outside the documented
domains; a panicking single-index operation leaves every list unchanged.

Conventions: `a` is the address of the receiver, `xs := h.items a` its elements,
`n := xs.length`. A *scalar* argument is one `parseVal` stores without allocating.
-/
import Anytype.Lemmas.HeapWF
import Anytype.Lemmas.Slices
namespace Anytype
open Heap

/-! Concrete heaps for the non-vacuity examples.
cell 0: `[3, 1, 2]`, cell 1: `["b", <list 0>, nil]`, cell 2: an empty object -/
def exH : Heap :=
  [.list [.int 3, .int 1, .int 2] 0, .list [.str ['b'], .list ⟨0, 0⟩, .nil] 0, .obj [] 0]

/-! ## 0. scalars are stored as they are -/

theorem C05_parseVal_scalar (h : Heap) (g : GoVal) (hs : g.isScalar = true) :
    parseVal h g = (h, .ok (scalarVal g)) := parseVal_scalar h hs

example : (GoVal.intw .i8 5).isScalar = true ∧ (GoVal.list ⟨0, 0⟩).isScalar = true := by decide

/-- what a list "shows" after its cell has been set: exactly the new elements; nothing else moved -/
theorem C05_setItems_view (h : Heap) (a : Nat) (ys : List Val) (hl : h.isList a = true) :
    (h.setItems a ys).items a = ys ∧ (h.setItems a ys).length = h.length ∧
    (h.setItems a ys).egoRef a = h.egoRef a ∧
    ∀ b, b ≠ a → (h.setItems a ys)[b]? = h[b]? :=
  ⟨items_setItems_same ys hl, length_setItems h a ys, egoRef_setItems h a a ys,
   fun _ hb => getElem?_setItems_ne h ys hb⟩

example : exH.isList 0 = true := by decide

/-! ## 1. the mutators and deriving operations equal their sequence specifications -/

theorem C05_insert_spec (h : Heap) (a : Nat) (i : Int) (g : GoVal) (hs : g.isScalar = true)
    (h0 : 0 ≤ i) (hn : i ≤ (h.items a).length) :
    L.insert h a i g =
      (h.setItems a ((h.items a).insertIdx i.toNat (scalarVal g)), .ok (h.egoRef a)) :=
  L.insert_scalar h a i g hs h0 hn

example : L.insert exH 0 1 (.str ['x']) =
    (exH.setItems 0 [.int 3, .str ['x'], .int 1, .int 2], .ok ⟨0, 0⟩) :=
  C05_insert_spec exH 0 1 (.str ['x']) (by decide) (by decide) (by decide)

/-- `Insert` with an arbitrary (also nested native) argument: convert first, then insert -/
theorem C05_insert_spec_any (h : Heap) (a : Nat) (i : Int) (g : GoVal) (h1 : Heap) (v : Val)
    (hl : h.isList a = true) (hp : parseVal h g = (h1, .ok v))
    (h0 : 0 ≤ i) (hn : i ≤ (h.items a).length) :
    L.insert h a i g = (h1.setItems a ((h.items a).insertIdx i.toNat v), .ok (h1.egoRef a)) :=
  L.insert_ok_of_parse h a i g hl hp h0 hn

example : parseVal exH (.slice .any [.nil]) = (exH ++ [.list [.nil] 0], .ok (.list ⟨3, 0⟩)) := by
  simp [parseVal, addEach, exH, Heap.setItems, Heap.items]

theorem C05_replace_spec (h : Heap) (a : Nat) (i : Int) (g : GoVal) (hs : g.isScalar = true)
    (h0 : 0 ≤ i) (hn : i < (h.items a).length) :
    L.replace h a i g = (h.setItems a ((h.items a).set i.toNat (scalarVal g)), .ok (h.egoRef a)) :=
  L.replace_scalar h a i g hs h0 hn

example := C05_replace_spec exH 0 2 (.bool true) (by decide) (by decide) (by decide)

theorem C05_replace_spec_any (h : Heap) (a : Nat) (i : Int) (g : GoVal) (h1 : Heap) (v : Val)
    (hl : h.isList a = true) (hp : parseVal h g = (h1, .ok v))
    (h0 : 0 ≤ i) (hn : i < (h.items a).length) :
    L.replace h a i g = (h1.setItems a ((h.items a).set i.toNat v), .ok (h1.egoRef a)) :=
  L.replace_ok_of_parse h a i g hl hp h0 hn

theorem C05_add_spec (h : Heap) (a : Nat) (gs : List GoVal) (hs : ∀ g ∈ gs, g.isScalar = true) :
    L.add h a gs = (h.setItems a (h.items a ++ gs.map scalarVal), .ok (h.egoRef a)) :=
  L.add_scalars h a gs hs

example := C05_add_spec exH 0 [.nil, .obj ⟨2, 0⟩] (by decide)

theorem C05_delete_single_spec (h : Heap) (a : Nat) (i : Int)
    (h0 : 0 ≤ i) (hn : i < (h.items a).length) :
    L.delete h a [i] = (h.setItems a ((h.items a).eraseIdx i.toNat), .ok (h.egoRef a)) :=
  L.delete_single h a i h0 hn

example := C05_delete_single_spec exH 0 1 (by decide) (by decide)

/-- `Delete(indexes...)` with distinct in-range indexes (in any order) leaves exactly the elements
whose position is not listed, in their original order -/
theorem C05_delete_multi (h : Heap) (a : Nat) (idx : List Int) (hnd : idx.Nodup)
    (h0 : ∀ d ∈ idx, 0 ≤ d) (hn : ∀ d ∈ idx, d < (h.items a).length) :
    L.delete h a idx = (h.setItems a (eraseAll (h.items a) idx), .ok (h.egoRef a)) :=
  L.delete_nodup h a idx hnd h0 hn

example := C05_delete_multi exH 0 [2, 0] (by decide) (by decide) (by decide)
example : eraseAll [.int 3, .int 1, .int 2] [2, 0] = [.int 1] := by decide

theorem C05_pop_spec (h : Heap) (a : Nat) (hn : 0 < (h.items a).length) :
    L.pop h a = (h.setItems a (h.items a).dropLast, .ok (h.egoRef a)) :=
  L.pop_nonempty h a hn

example := C05_pop_spec exH 0 (by decide)

theorem C05_clear_spec (h : Heap) (a : Nat) : L.clear h a = (h.setItems a [], .ok (h.egoRef a)) := rfl

/-- the swap loop of `Reverse` computes the reversed sequence -/
theorem C05_reverseLoop (xs : List Val) : L.reverseLoop xs xs.length (xs.length / 2) = xs.reverse :=
  L.reverseLoop_eq_reverse xs

theorem C05_reverse_spec (h : Heap) (a : Nat) :
    L.reverse h a = (h.setItems a (h.items a).reverse, .ok (h.egoRef a)) :=
  L.reverse_eq h a

/-- `SubList(start, end)`: a fresh cell at address `h.length`; `end ≤ 0` counts from the length -/
theorem C05_subList_spec (h : Heap) (a : Nat) (s e : Int)
    (he : ¬ (e > (h.items a).length ∨ e < -((h.items a).length : Int)))
    (e' : Int) (he' : e' = if e ≤ 0 then ((h.items a).length : Int) + e else e)
    (hs : ¬ s > e') (h0 : ¬ s < 0) :
    L.subList h a s e =
      (h ++ [.list (((h.items a).drop s.toNat).take (e' - s).toNat) 0], .ok ⟨h.length, 0⟩) := by
  subst he'
  have := L.subList_cases h a s e
  simp only at this
  rw [this, if_neg he, if_neg hs, if_neg h0]

example : L.subList exH 0 1 (-1) = (exH ++ [.list [.int 1] 0], .ok ⟨3, 0⟩) :=
  C05_subList_spec exH 0 1 (-1) (by decide) 2 (by decide) (by decide) (by decide)

/-- `Concat`: a fresh cell holding `xs ++ ys`; receiver and argument cells are untouched; the argument may
be a derived list of any embedding level (no hypothesis on `h.ego r.addr`, since the repair F9) -/
theorem C05_concat_spec (h : Heap) (a : Nat) (r : Ref)
    (hl : h.isList r.addr = true) :
    L.concat h a r = (h ++ [.list (h.items a ++ h.items r.addr) 0], .ok ⟨h.length, 0⟩) ∧
    ∀ b, b < h.length → (h ++ [Cell.list (h.items a ++ h.items r.addr) 0])[b]? = h[b]? :=
  ⟨L.concat_ok h a r hl, fun _ hb => getElem?_append_old h _ hb⟩

example := C05_concat_spec exH 0 ⟨1, 0⟩ (by decide)

/-- `NewList(values...)` of scalars: a fresh cell holding the normalised values -/
theorem C05_new_spec (h : Heap) (gs : List GoVal) (hs : ∀ g ∈ gs, g.isScalar = true) :
    L.new h gs = (h ++ [.list (gs.map scalarVal) 0], .ok ⟨h.length, 0⟩) := by
  unfold L.new
  simp only [addEach_scalars _ _ gs hs, items_append_new, List.nil_append]
  congr 1
  simp [Heap.setItems]

/-- `NewListOf(value, count)`: `count` copies of the one converted element (shared if a container) -/
theorem C05_newOf_spec (h : Heap) (g : GoVal) (c : Int) (hs : g.isScalar = true) (hc : 0 ≤ c) :
    L.newOf h g c = (h ++ [.list (List.replicate c.toNat (scalarVal g)) 0], .ok ⟨h.length, 0⟩) := by
  unfold L.newOf
  rw [if_neg (by omega)]
  simp only [parseVal_scalar _ hs]
  congr 1
  simp [Heap.setItems]

example := C05_newOf_spec exH (.list ⟨0, 0⟩) 2 (by decide) (by decide)

/-! ## 2. an operation panics exactly outside its documented domain, with the right panic -/

theorem C05_panic_iff_insert (h : Heap) (a : Nat) (i : Int) (g : GoVal) (hs : g.isScalar = true) :
    ((L.insert h a i g).2.isPanic = true ↔ ¬ (0 ≤ i ∧ i ≤ (h.items a).length)) ∧
    (¬ (0 ≤ i ∧ i ≤ (h.items a).length) → L.insert h a i g = (h, .panic .indexRange)) := by
  refine ⟨?_, L.insert_out h a i g⟩
  by_cases hd : 0 ≤ i ∧ i ≤ (h.items a).length
  · rw [L.insert_scalar h a i g hs hd.1 hd.2]; simp [Out.isPanic, hd]
  · rw [L.insert_out h a i g hd]; simp [Out.isPanic, hd]

theorem C05_panic_iff_replace (h : Heap) (a : Nat) (i : Int) (g : GoVal) (hs : g.isScalar = true) :
    ((L.replace h a i g).2.isPanic = true ↔ ¬ (0 ≤ i ∧ i < (h.items a).length)) ∧
    (¬ (0 ≤ i ∧ i < (h.items a).length) → L.replace h a i g = (h, .panic .indexRange)) := by
  refine ⟨?_, L.replace_out h a i g⟩
  by_cases hd : 0 ≤ i ∧ i < (h.items a).length
  · rw [L.replace_scalar h a i g hs hd.1 hd.2]; simp [Out.isPanic, hd]
  · rw [L.replace_out h a i g hd]; simp [Out.isPanic, hd]

theorem C05_panic_iff_get (h : Heap) (a : Nat) (i : Int) :
    ((L.get h a i).isPanic = true ↔ ¬ (0 ≤ i ∧ i < (h.items a).length)) ∧
    (¬ (0 ≤ i ∧ i < (h.items a).length) → L.get h a i = .panic .indexRange) := by
  refine ⟨?_, L.get_out h a i⟩
  by_cases hd : 0 ≤ i ∧ i < (h.items a).length
  · rw [L.get_in h a i hd.1 (by omega)]; simp [Out.isPanic, hd]
  · rw [L.get_out h a i hd]; simp [Out.isPanic, hd]

theorem C05_panic_iff_delete (h : Heap) (a : Nat) (i : Int) :
    ((L.delete h a [i]).2.isPanic = true ↔ ¬ (0 ≤ i ∧ i < (h.items a).length)) ∧
    (¬ (0 ≤ i ∧ i < (h.items a).length) → L.delete h a [i] = (h, .panic .indexRange)) := by
  refine ⟨?_, L.delete_single_out h a i⟩
  by_cases hd : 0 ≤ i ∧ i < (h.items a).length
  · rw [L.delete_single h a i hd.1 hd.2]; simp [Out.isPanic, hd]
  · rw [L.delete_single_out h a i hd]; simp [Out.isPanic, hd]

theorem C05_panic_iff_pop (h : Heap) (a : Nat) :
    ((L.pop h a).2.isPanic = true ↔ (h.items a).length = 0) ∧
    ((h.items a).length = 0 → L.pop h a = (h, .panic .indexRange)) := by
  refine ⟨?_, L.pop_empty h a⟩
  by_cases hd : (h.items a).length = 0
  · rw [L.pop_empty h a hd]; simp [Out.isPanic, hd]
  · rw [L.pop_nonempty h a (by omega)]; simp [Out.isPanic, hd]

/-- `SubList(start, end)` panics iff `end > n`, `end < -n`, `start > end'` or `start < 0`
(`end' = n + end` if `end ≤ 0`), checked in this order, each with its own panic -/
theorem C05_panic_iff_subList (h : Heap) (a : Nat) (s e : Int)
    (e' : Int) (he' : e' = if e ≤ 0 then ((h.items a).length : Int) + e else e) :
    ((L.subList h a s e).2.isPanic = true ↔
      (e > (h.items a).length ∨ e < -((h.items a).length : Int) ∨ s > e' ∨ s < 0)) ∧
    ((e > (h.items a).length ∨ e < -((h.items a).length : Int)) →
      L.subList h a s e = (h, .panic .subListEnd)) ∧
    (¬ (e > (h.items a).length ∨ e < -((h.items a).length : Int)) → s > e' →
      L.subList h a s e = (h, .panic .subListOrder)) ∧
    (¬ (e > (h.items a).length ∨ e < -((h.items a).length : Int)) → ¬ s > e' → s < 0 →
      L.subList h a s e = (h, .panic .subListStart)) := by
  subst he'
  have hc := L.subList_cases h a s e
  simp only at hc
  refine ⟨?_, fun h1 => by rw [hc, if_pos h1], fun h1 h2 => by rw [hc, if_neg h1, if_pos h2],
    fun h1 h2 h3 => by rw [hc, if_neg h1, if_neg h2, if_pos h3]⟩
  rw [hc]
  by_cases h1 : e > (h.items a).length ∨ e < -((h.items a).length : Int)
  · rw [if_pos h1]
    have : e > ↑(h.items a).length ∨ e < -↑(h.items a).length ∨
        s > (if e ≤ 0 then ((h.items a).length : Int) + e else e) ∨ s < 0 := by
      rcases h1 with h1 | h1
      · exact Or.inl h1
      · exact Or.inr (Or.inl h1)
    simp only [Out.isPanic, this]
  · rw [if_neg h1]
    by_cases h2 : s > (if e ≤ 0 then ((h.items a).length : Int) + e else e)
    · rw [if_pos h2]
      simp only [Out.isPanic, true_iff]
      exact Or.inr (Or.inr (Or.inl h2))
    · rw [if_neg h2]
      by_cases h3 : s < 0
      · rw [if_pos h3]
        simp only [Out.isPanic, true_iff]
        exact Or.inr (Or.inr (Or.inr h3))
      · rw [if_neg h3]
        simp only [Out.isPanic, Bool.false_eq_true, false_iff]
        intro hc'
        rcases hc' with hc' | hc' | hc' | hc'
        · exact h1 (Or.inl hc')
        · exact h1 (Or.inr hc')
        · exact h2 hc'
        · exact h3 hc'

example : L.subList exH 0 0 4 = (exH, .panic .subListEnd) :=
  (C05_panic_iff_subList exH 0 0 4 4 (by decide)).2.1 (by decide)
example : L.subList exH 0 3 (-1) = (exH, .panic .subListOrder) :=
  (C05_panic_iff_subList exH 0 3 (-1) 2 (by decide)).2.2.1 (by decide) (by decide)
example : L.subList exH 0 (-1) 2 = (exH, .panic .subListStart) :=
  (C05_panic_iff_subList exH 0 (-1) 2 2 (by decide)).2.2.2 (by decide) (by decide) (by decide)

/-! ## 3. a panicking single-index operation leaves every existing cell unchanged
(for ANY argument, also unsupported or nested native values: `Insert` converts before it shifts) -/

theorem C05_panic_frame_insert (h : Heap) (a : Nat) (i : Int) (g : GoVal) (k : PanicKind)
    (hp : (L.insert h a i g).2 = .panic k) :
    h.length ≤ (L.insert h a i g).1.length ∧ ∀ b, b < h.length → (L.insert h a i g).1[b]? = h[b]? :=
  let e := L.insert_panic_ext0 h a i g hp; ⟨e.len, e.same⟩

example : (L.insert exH 0 1 (.slice .any [.nil, .unsupported])).2 = .panic .unsupported := by
  simp [L.insert, L.count, parseVal, addEach, exH, Heap.items, Heap.setItems]

theorem C05_panic_frame_replace (h : Heap) (a : Nat) (i : Int) (g : GoVal) (k : PanicKind)
    (hp : (L.replace h a i g).2 = .panic k) :
    h.length ≤ (L.replace h a i g).1.length ∧ ∀ b, b < h.length → (L.replace h a i g).1[b]? = h[b]? :=
  let e := L.replace_panic_ext0 h a i g hp; ⟨e.len, e.same⟩

theorem C05_panic_frame_delete (h : Heap) (a : Nat) (i : Int) (k : PanicKind)
    (hp : (L.delete h a [i]).2 = .panic k) : (L.delete h a [i]).1 = h := by
  rw [L.delete_single_panic h a i hp]

theorem C05_panic_frame_pop (h : Heap) (a : Nat) (k : PanicKind)
    (hp : (L.pop h a).2 = .panic k) : (L.pop h a).1 = h := by
  rw [L.pop_panic h a hp]

example : (L.pop exH 2).2 = .panic .indexRange := by
  rw [(C05_panic_iff_pop exH 2).2 (by decide)]

/- `Get` (like every observer) has type `Heap → Nat → Int → Out Val`: it returns no heap, so a
panicking `Get` cannot change any list; its panic condition is `C05_panic_iff_get`. -/

/-! ## 4. frames: a mutator touches only its receiver's cell; a deriving operation none -/

/-! `FrameAt h h' a`: no cell lost, old cells other than `a` identical, kinds and egos kept;
`Frame0 h h'`: no cell lost, every old cell identical (definitions in `Lemmas/ListOps.lean`). -/

/-- every mutator, with any arguments (also when it panics): only cell `a` may change -/
theorem C05_frame (h : Heap) (a : Nat) (gs : List GoVal) (g : GoVal) (i : Int) (idx : List Int) :
    FrameAt h (L.add h a gs).1 a ∧ FrameAt h (L.insert h a i g).1 a ∧
    FrameAt h (L.replace h a i g).1 a ∧ FrameAt h (L.delete h a idx).1 a ∧
    FrameAt h (L.pop h a).1 a ∧ FrameAt h (L.clear h a).1 a ∧
    FrameAt h (L.reverse h a).1 a ∧ FrameAt h (L.sort h a).1 a :=
  ⟨.of_ext (L.add_ext h a gs), .of_ext (L.insert_ext h a i g), .of_ext (L.replace_ext h a i g),
   .of_ext (L.delete_ext h a idx), .of_ext (L.pop_ext h a), .of_ext (L.clear_ext h a),
   .of_ext (L.reverse_ext h a), .of_ext (L.sort_ext h a)⟩

/-- the conversion of an argument and the `Add` loop themselves -/
theorem C05_frame_parseVal (h : Heap) (a : Nat) (g : GoVal) (gs : List GoVal)
    (kvs : List (Str × GoVal)) :
    Frame0 h (parseVal h g).1 ∧ FrameAt h (addEach h a gs).1 a ∧ FrameAt h (setEach h a kvs).1 a :=
  ⟨.of_ext0 (parseVal_ext0 h g), .of_ext (addEach_ext h a gs), .of_ext (setEach_ext h a kvs)⟩

/-- the deriving operations leave every old cell unchanged and return the new address `h.length` -/
theorem C05_frame_deriving (h : Heap) (a : Nat) (s e : Int) (r : Ref) (gs : List GoVal) (g : GoVal)
    (c : Int) :
    (Frame0 h (L.subList h a s e).1 ∧ ∀ q, (L.subList h a s e).2 = .ok q → q = ⟨h.length, 0⟩) ∧
    (Frame0 h (L.concat h a r).1 ∧ ∀ q, (L.concat h a r).2 = .ok q → q = ⟨h.length, 0⟩) ∧
    (Frame0 h (L.new h gs).1 ∧ ∀ q, (L.new h gs).2 = .ok q →
      q = ⟨h.length, 0⟩ ∧ (L.new h gs).1.isList h.length = true) ∧
    (Frame0 h (L.newOf h g c).1 ∧ ∀ q, (L.newOf h g c).2 = .ok q → q = ⟨h.length, 0⟩) ∧
    (Frame0 h (L.newFrom h g).1 ∧ ∀ q, (L.newFrom h g).2 = .ok q → q = ⟨h.length, 0⟩) := by
  refine ⟨⟨.of_ext0 (L.subList_ext0 h a s e), ?_⟩, ⟨.of_ext0 (L.concat_ext0 h a r), ?_⟩,
    ⟨.of_ext0 (L.new_ext0 h gs), fun q hq => ⟨(L.new_ok h gs hq).1, (L.new_ok h gs hq).2.1⟩⟩,
    ⟨.of_ext0 (L.newOf_ext0 h g c), fun q hq => L.newOf_ok h g c hq⟩,
    ⟨.of_ext0 (L.newFrom_ext0 h g), fun q hq => L.newFrom_ok h g hq⟩⟩
  · intro q hq
    rw [L.subList_cases h a s e] at hq
    repeat' split at hq
    all_goals (cases hq <;> rfl)
  · intro q hq
    by_cases hb : h.isList r.addr = true
    · rw [L.concat_ok h a r hb] at hq; cases hq; rfl
    · rw [L.concat_bad h a r hb] at hq; cases hq

/-! ## 5. `Get` returns the identical nested container; changes through one alias are visible -/

theorem C05_get_identity (h : Heap) (a : Nat) (i : Int) (h0 : 0 ≤ i) (hn : i.toNat < (h.items a).length) :
    L.get h a i = .ok (h.getVal ((h.items a)[i.toNat])) ∧
    (∀ r, (h.items a)[i.toNat] = .list r → L.get h a i = .ok (.list ⟨r.addr, h.ego r.addr⟩)) ∧
    (∀ r, (h.items a)[i.toNat] = .obj r → L.get h a i = .ok (.obj ⟨r.addr, h.ego r.addr⟩)) := by
  have := L.get_in h a i h0 hn
  refine ⟨this, fun r hr => ?_, fun r hr => ?_⟩ <;> rw [this, hr] <;> rfl

example : L.get exH 1 1 = .ok (.list ⟨0, 0⟩) :=
  (C05_get_identity exH 1 1 (by decide) (by decide)).2.1 ⟨0, 0⟩ (by decide)

/-- after ANY change `h ↦ h'` that only touches another cell `b ≠ a` (e.g. a mutator applied to
an alias of the nested container), `Get(i)` on `a` still returns the stored value, a container
as the reference to the same address; what that address holds is whatever the change put there -/
theorem C05_get_alias (h h' : Heap) (a b : Nat) (i : Int)
    (hl : h.isList a = true) (hf : FrameAt h h' b) (hne : a ≠ b)
    (h0 : 0 ≤ i) (hn : i.toNat < (h.items a).length) :
    L.get h' a i = .ok (h'.getVal ((h.items a)[i.toNat])) ∧
    (∀ r, (h.items a)[i.toNat] = .list r → L.get h' a i = .ok (.list ⟨r.addr, h'.ego r.addr⟩)) ∧
    (∀ r, (h.items a)[i.toNat] = .obj r → L.get h' a i = .ok (.obj ⟨r.addr, h'.ego r.addr⟩)) := by
  have hi : h'.items a = h.items a := items_congr (hf.2.1 a (isList_lt hl) hne)
  have hn' : i.toNat < (h'.items a).length := by rw [hi]; exact hn
  have := (C05_get_identity h' a i h0 hn').1
  simp only [hi] at this
  refine ⟨this, fun r hr => ?_, fun r hr => ?_⟩ <;> rw [this, hr] <;> rfl

/-- concretely: elements added to the nested list through the alias `r` show up behind the
reference that `Get` keeps returning from the outer list -/
theorem C05_get_alias_add (h : Heap) (a : Nat) (i : Int) (r : Ref) (gs : List GoVal)
    (hl : h.isList a = true) (hlr : h.isList r.addr = true) (hne : a ≠ r.addr)
    (hs : ∀ g ∈ gs, g.isScalar = true)
    (h0 : 0 ≤ i) (hn : i.toNat < (h.items a).length) (hr : (h.items a)[i.toNat] = .list r) :
    L.get (L.add h r.addr gs).1 a i = .ok (.list ⟨r.addr, h.ego r.addr⟩) ∧
    (L.add h r.addr gs).1.items r.addr = h.items r.addr ++ gs.map scalarVal ∧
    (L.add h r.addr gs).1.items a = h.items a := by
  have e := L.add_ext h r.addr gs
  refine ⟨?_, ?_, e.items (isList_lt hl) hne⟩
  · rw [(C05_get_alias h _ a r.addr i hl (.of_ext e) hne h0 hn).2.1 r hr, e.ego (isList_lt hlr)]
  · rw [L.add_scalars h r.addr gs hs]
    exact items_setItems_same _ hlr

example := C05_get_alias_add exH 1 1 ⟨0, 0⟩ [.nil] (by decide) (by decide) (by decide) (by decide)
  (by decide) (by decide) (by decide)

/-! ## 6. observers -/

theorem C05_observers (h : Heap) (a : Nat) :
    L.count h a = ((h.items a).length : Int) ∧
    (L.empty h a = true ↔ h.items a = []) ∧
    L.slice h a = (h.items a).map h.getVal ∧
    (∀ i : Int, ∀ _ : 0 ≤ i, ∀ hn : i.toNat < (h.items a).length,
      L.typeOf h a i = ((h.items a)[i.toNat]).kind) ∧
    (∀ i : Int, ¬ (0 ≤ i ∧ i < (h.items a).length) → L.typeOf h a i = .undefined) ∧
    (∀ e, L.contains h a e = true ↔ ∃ x ∈ h.items a, L.goEq (h.getVal x) e = true) :=
  ⟨rfl, L.empty_iff h a, rfl, fun i h0 hn => L.typeOf_in h a i h0 hn, fun i ho => L.typeOf_out h a i ho,
   fun e => L.contains_iff h a e⟩

/-- the typed getters: `Get` followed by a kind check -/
theorem C05_getK (h : Heap) (a : Nat) (k : Kind) (i : Int) (h0 : 0 ≤ i) (hn : i.toNat < (h.items a).length) :
    L.getK h a k i =
      if ((h.items a)[i.toNat]).kind = k then .ok (h.getVal ((h.items a)[i.toNat]))
      else .panic .notKind := by
  unfold L.getK
  rw [L.get_in h a i h0 hn]
  simp only [getVal_kind, beq_iff_eq]

theorem C05_getK_out (h : Heap) (a : Nat) (k : Kind) (i : Int)
    (ho : ¬ (0 ≤ i ∧ i < (h.items a).length)) : L.getK h a k i = .panic .indexRange := by
  unfold L.getK
  rw [L.get_out h a i ho]

/-- `IndexOf` is the position of the FIRST element equal (Go `==`) to `e`, or `-1` -/
theorem C05_indexOf (h : Heap) (a : Nat) (e : Val) :
    (L.indexOf h a e = -1 ↔ ∀ x ∈ h.items a, L.goEq (h.getVal x) e = false) ∧
    (∀ j : Nat, L.indexOf h a e = (j : Int) ↔
      ∃ hj : j < (h.items a).length, L.goEq (h.getVal (h.items a)[j]) e = true ∧
        ∀ j' (hj' : j' < j), ¬ L.goEq (h.getVal ((h.items a)[j']'(Nat.lt_trans hj' hj))) e = true) ∧
    (L.indexOf h a e =
      match (h.items a).findIdx? (fun x => L.goEq (h.getVal x) e) with
      | some j => (j : Int)
      | none => -1) := by
  have hq := L.indexOf_eq h a e
  refine ⟨?_, ?_, hq⟩
  · rw [hq, ← List.findIdx?_eq_none_iff]
    cases List.findIdx? (fun x => L.goEq (h.getVal x) e) (h.items a) with
    | none => simp
    | some j => simp <;> omega
  · intro j
    rw [hq, ← List.findIdx?_eq_some_iff_getElem (p := fun x => L.goEq (h.getVal x) e)]
    cases List.findIdx? (fun x => L.goEq (h.getVal x) e) (h.items a) with
    | none => simp <;> omega
    | some j' => simp <;> omega

example : L.indexOf exH 0 (.int 1) = 1 := by decide
example : L.contains exH 1 (.list ⟨0, 0⟩) = true := by decide

/-! ## 7. programs: well-formedness of the heap is an invariant -/

/-- any single operation keeps the heap well-formed, provided the references among its
arguments are valid -/
theorem C05_step_wf (h : Heap) (op : LOp) (wf : HeapWF h) (hop : op.okIn h) : HeapWF (stepL h op) :=
  stepL_wf h op wf hop

/-- after every prefix of any finite program the heap is well-formed: no list ever holds a
dangling or ill-kinded reference; and no cell ever disappears or changes its kind or ego -/
theorem C05_program (h : Heap) (ops : List LOp) (wf : HeapWF h) (hp : ProgOk h ops) (k : Nat) :
    HeapWF (runL h (ops.take k)) ∧ h.length ≤ (runL h (ops.take k)).length ∧
    ∀ b, h.isList b = true → (runL h (ops.take k)).isList b = true ∧
      (runL h (ops.take k)).ego b = h.ego b := by
  have m := runL_mono h (ops.take k)
  refine ⟨runL_wf h _ wf (ProgOk_take hp k), m.len, fun b hb => ⟨m.isList hb, ?_⟩⟩
  exact ego_of_shape (m.shape b (isList_lt hb))

theorem exH_wf : HeapWF exH := by
  intro a
  match a with
  | 0 => simp [exH, Heap.items, Heap.fields, Val.okIn]
  | 1 => simp [exH, Heap.items, Heap.fields, Val.okIn, Heap.isList]
  | 2 => simp [exH, Heap.items, Heap.fields]
  | (n + 3) => exact ⟨by simp [exH, Heap.items], by simp [exH, Heap.fields]⟩

example : HeapWF (runL exH ([.add 0 [.nil], .pop 2, .sort 0].take 3)) :=
  (C05_program exH _ exH_wf (by simp [ProgOk, LOp.okIn, okInList, GoVal.okIn]) 3).1

example : ProgOk exH [.add 0 [.list ⟨1, 0⟩, .slice .any [.obj ⟨2, 0⟩]], .new [.list ⟨0, 0⟩],
    .insert 3 0 (.list ⟨3, 0⟩), .pop 2, .sort 0, .reverse 1, .concat 1 ⟨0, 0⟩] := by
  simp [ProgOk, LOp.okIn, okInList, GoVal.okIn, stepL, exH, Heap.isList, Heap.isObj, L.add, L.new,
    addEach, parseVal, Heap.setItems, Heap.items]

/-! ## Storage level: arrays, capacities, `append`

Everything above reads `ego.val []field` as a plain list.  `Model/Slices` executes the same list
operations on backing arrays with capacities (append in place or into a new array, `copy`, `make`),
and the theorems below show that the plain-list reading is what the arrays do: for every growth
policy of `append`, every spare capacity, every program — provided no two lists share an array, which
is itself an invariant of all operations (and was not, for the `Concat` of the pinned source: F5).
`astep` is written with the same core functions (`insertIdx`, `eraseIdx`, `set`, `dropLast`, `reverse`,
`++`, `take`/`drop`) the specifications `C05_*_spec` above are written with. -/

theorem C05_slice_refines {α : Type} (cfg : Slices.Cfg α) (sorted : List α → List α) (σ : Slices.SHeap α)
    (hw : σ.WF) (op : Slices.Op α) :
    (Slices.step cfg sorted σ op).1.WF ∧
    ((Slices.step cfg sorted σ op).1.abs, (Slices.step cfg sorted σ op).2) = Slices.astep sorted σ.abs op :=
  ⟨Slices.step_wf cfg sorted σ hw op, Slices.step_refines cfg sorted σ hw op⟩

theorem C05_slice_program {α : Type} (cfg : Slices.Cfg α) (sorted : List α → List α) (ops : List (Slices.Op α)) :
    (Slices.run cfg sorted Slices.SHeap.empty ops).1.WF ∧
    ((Slices.run cfg sorted Slices.SHeap.empty ops).1.abs, (Slices.run cfg sorted Slices.SHeap.empty ops).2)
      = Slices.arun sorted [] ops :=
  Slices.run_from_empty cfg sorted ops

theorem C05_slice_program_from {α : Type} (cfg : Slices.Cfg α) (sorted : List α → List α) (σ : Slices.SHeap α)
    (hw : σ.WF) (ops : List (Slices.Op α)) :
    (Slices.run cfg sorted σ ops).1.WF ∧
    ((Slices.run cfg sorted σ ops).1.abs, (Slices.run cfg sorted σ ops).2) = Slices.arun sorted σ.abs ops :=
  Slices.run_refines cfg sorted σ hw ops

/-- what a program leaves in the lists, and whether it panics, does not depend on Go's growth policy -/
theorem C05_slice_grow_irrelevant {α : Type} (cfg cfg' : Slices.Cfg α) (sorted : List α → List α)
    (ops : List (Slices.Op α)) :
    (Slices.run cfg sorted Slices.SHeap.empty ops).1.abs = (Slices.run cfg' sorted Slices.SHeap.empty ops).1.abs ∧
    (Slices.run cfg sorted Slices.SHeap.empty ops).2 = (Slices.run cfg' sorted Slices.SHeap.empty ops).2 :=
  Slices.grow_irrelevant cfg cfg' sorted ops

/-- frame at storage level: an operation changes at most the list it is called on -/
theorem C05_slice_frame {α : Type} (cfg : Slices.Cfg α) (sorted : List α → List α) (σ : Slices.SHeap α)
    (hw : σ.WF) (op : Slices.Op α) (d : Nat) (hd : d < σ.cells.length) (hne : op.tgt ≠ some d) :
    (Slices.step cfg sorted σ op).1.abs[d]? = σ.abs[d]? :=
  Slices.step_frame cfg sorted σ hw op d hd hne

/-- the hypothesis `WF` is met by a non-trivial heap (a list with spare capacity and a second list),
and the `Concat` of the pinned source destroys it there: the result shares the receiver's array and a
later `Add` on the receiver shows through it; the repaired `Concat` on the same heap does not -/
theorem C05_slice_concatOld_breaks :
    Slices.σF5.WF ∧ Slices.σF5.abs = [[1, 2, 3], [9]] ∧
    ¬ (Slices.concatOld Slices.cfg2 Slices.σF5 0 1).1.WF ∧
    (Slices.concatOld Slices.cfg2 Slices.σF5 0 1).1.abs = [[1, 2, 3], [9], [1, 2, 3, 9]] ∧
    (Slices.step Slices.cfg2 id (Slices.concatOld Slices.cfg2 Slices.σF5 0 1).1 (.add 0 [7])).1.abs
      = [[1, 2, 3, 7], [9], [1, 2, 3, 7]] ∧
    (Slices.step Slices.cfg2 id (Slices.step Slices.cfg2 id Slices.σF5 (.concat 0 1)).1 (.add 0 [7])).1.abs
      = [[1, 2, 3, 7], [9], [1, 2, 3, 9]] :=
  Slices.concatOld_breaks

/-- `astep`'s sublist is the sublist of `C05_subList_spec` -/
theorem C05_slice_subList_bridge {α : Type} (xs : List α) (s e : Nat) :
    (xs.take e).drop s = (xs.drop s).take (e - s) := by
  rw [List.drop_take]


/-! ### the two levels meet

What an operation of the heap model (`L.*`, the definitions every theorem above is about and the translated Go methods are
proved equal to) leaves in its receiver is what the array-level operation leaves in the corresponding list — for every
capacity, every growth policy. -/

private theorem abs_lt {α} {ls : List (List α)} {c : Nat} {xs : List α} (hc : ls[c]? = some xs) : c < ls.length := by
  rcases Nat.lt_or_ge c ls.length with h2 | h2
  · exact h2
  · rw [List.getElem?_eq_none h2] at hc; cases hc

private theorem step_abs {α} (cfg : Slices.Cfg α) (sorted : List α → List α) (σ : Slices.SHeap α) (hw : σ.WF)
    (op : Slices.Op α) : (Slices.step cfg sorted σ op).1.abs = (Slices.astep sorted σ.abs op).1 := by
  rw [← Slices.step_refines cfg sorted σ hw op]

/-- the two levels meet: what `L.insert` leaves in the receiver of the heap model is what the array-level `Insert`
leaves in the corresponding list, whatever its capacity and the growth policy -/
theorem C05_slice_bridge_insert (h : Heap) (a : Nat) (i : Int) (g : GoVal) (hs : g.isScalar = true)
    (hl : h.isList a = true) (h0 : 0 ≤ i) (hn : i ≤ (h.items a).length)
    (cfg : Slices.Cfg Val) (sorted : List Val → List Val) (σ : Slices.SHeap Val) (hw : σ.WF) (c : Nat)
    (hc : σ.abs[c]? = some (h.items a)) :
    (Slices.step cfg sorted σ (.insert c i.toNat (scalarVal g))).1.abs[c]? = some ((L.insert h a i g).1.items a) := by
  have hr := Slices.step_refines cfg sorted σ hw (.insert c i.toNat (scalarVal g))
  have h1 : (Slices.step cfg sorted σ (.insert c i.toNat (scalarVal g))).1.abs
      = (Slices.astep sorted σ.abs (.insert c i.toNat (scalarVal g))).1 := by rw [← hr]
  rw [h1, C05_insert_spec h a i g hs h0 hn, (C05_setItems_view h a _ hl).1]
  have hle : ¬ i.toNat > (h.items a).length := by omega
  have hlt : c < σ.abs.length := by
    rcases Nat.lt_or_ge c σ.abs.length with h2 | h2
    · exact h2
    · rw [List.getElem?_eq_none h2] at hc; cases hc
  simp only [Slices.astep, hc, hle, if_false, List.getElem?_set_self hlt]

theorem C05_slice_bridge_replace (h : Heap) (a : Nat) (i : Int) (g : GoVal) (hs : g.isScalar = true)
    (hl : h.isList a = true) (h0 : 0 ≤ i) (hn : i < (h.items a).length)
    (cfg : Slices.Cfg Val) (sorted : List Val → List Val) (σ : Slices.SHeap Val) (hw : σ.WF) (c : Nat)
    (hc : σ.abs[c]? = some (h.items a)) :
    (Slices.step cfg sorted σ (.replace c i.toNat (scalarVal g))).1.abs[c]? = some ((L.replace h a i g).1.items a) := by
  rw [step_abs cfg sorted σ hw, C05_replace_spec h a i g hs h0 hn, (C05_setItems_view h a _ hl).1]
  have hlt' : i.toNat < (h.items a).length := by omega
  simp only [Slices.astep, hc, hlt', if_true, List.getElem?_set_self (abs_lt hc)]

theorem C05_slice_bridge_add (h : Heap) (a : Nat) (gs : List GoVal) (hs : ∀ g ∈ gs, g.isScalar = true)
    (hl : h.isList a = true)
    (cfg : Slices.Cfg Val) (sorted : List Val → List Val) (σ : Slices.SHeap Val) (hw : σ.WF) (c : Nat)
    (hc : σ.abs[c]? = some (h.items a)) :
    (Slices.step cfg sorted σ (.add c (gs.map scalarVal))).1.abs[c]? = some ((L.add h a gs).1.items a) := by
  rw [step_abs cfg sorted σ hw, C05_add_spec h a gs hs, (C05_setItems_view h a _ hl).1]
  simp only [Slices.astep, hc, List.getElem?_set_self (abs_lt hc)]

theorem C05_slice_bridge_pop (h : Heap) (a : Nat) (hl : h.isList a = true) (hn : 0 < (h.items a).length)
    (cfg : Slices.Cfg Val) (sorted : List Val → List Val) (σ : Slices.SHeap Val) (hw : σ.WF) (c : Nat)
    (hc : σ.abs[c]? = some (h.items a)) :
    (Slices.step cfg sorted σ (.pop c)).1.abs[c]? = some ((L.pop h a).1.items a) := by
  rw [step_abs cfg sorted σ hw, C05_pop_spec h a hn, (C05_setItems_view h a _ hl).1]
  have hne : ¬ (h.items a).length = 0 := by omega
  simp only [Slices.astep, hc, hne, if_false, List.getElem?_set_self (abs_lt hc)]

theorem C05_slice_bridge_clear (h : Heap) (a : Nat) (hl : h.isList a = true)
    (cfg : Slices.Cfg Val) (sorted : List Val → List Val) (σ : Slices.SHeap Val) (hw : σ.WF) (c : Nat)
    (hc : σ.abs[c]? = some (h.items a)) :
    (Slices.step cfg sorted σ (.clear c)).1.abs[c]? = some ((L.clear h a).1.items a) := by
  rw [step_abs cfg sorted σ hw, C05_clear_spec h a, (C05_setItems_view h a _ hl).1]
  simp only [Slices.astep, hc, List.getElem?_set_self (abs_lt hc)]

theorem C05_slice_bridge_reverse (h : Heap) (a : Nat) (hl : h.isList a = true)
    (cfg : Slices.Cfg Val) (sorted : List Val → List Val) (σ : Slices.SHeap Val) (hw : σ.WF) (c : Nat)
    (hc : σ.abs[c]? = some (h.items a)) :
    (Slices.step cfg sorted σ (.reverse c)).1.abs[c]? = some ((L.reverse h a).1.items a) := by
  rw [step_abs cfg sorted σ hw, C05_reverse_spec h a, (C05_setItems_view h a _ hl).1]
  simp only [Slices.astep, hc, List.getElem?_set_self (abs_lt hc)]

theorem C05_slice_bridge_delete (h : Heap) (a : Nat) (i : Int) (hl : h.isList a = true)
    (h0 : 0 ≤ i) (hn : i < (h.items a).length)
    (cfg : Slices.Cfg Val) (sorted : List Val → List Val) (σ : Slices.SHeap Val) (hw : σ.WF) (c : Nat)
    (hc : σ.abs[c]? = some (h.items a)) :
    (Slices.step cfg sorted σ (.delete c [i.toNat])).1.abs[c]? = some ((L.delete h a [i]).1.items a) := by
  rw [step_abs cfg sorted σ hw, C05_delete_single_spec h a i h0 hn, (C05_setItems_view h a _ hl).1]
  have hlt' : i.toNat < (h.items a).length := by omega
  have hlen := abs_lt hc
  have hget : σ.abs[c] = h.items a := by
    have := List.getElem?_eq_getElem hlen
    rw [hc] at this; exact (Option.some.inj this).symm
  have hms : [i.toNat].mergeSort (fun x y => decide (x ≤ y)) = [i.toNat] := by simp
  simp only [Slices.astep, hms, List.reverse_cons, List.reverse_nil, List.nil_append, Slices.adeleteLoop, hc, hlt',
    if_true, List.getElem?_set_self hlen]

/-- `Concat`: the new list of the heap model holds what the new list of the array-level model holds -/
theorem C05_slice_bridge_concat (h : Heap) (a : Nat) (r : Ref) (hlr : h.isList r.addr = true)
    (cfg : Slices.Cfg Val) (sorted : List Val → List Val) (σ : Slices.SHeap Val) (hw : σ.WF) (c d : Nat)
    (hc : σ.abs[c]? = some (h.items a)) (hd : σ.abs[d]? = some (h.items r.addr)) :
    (Slices.step cfg sorted σ (.concat c d)).1.abs[σ.cells.length]? = some ((L.concat h a r).1.items h.length) := by
  rw [step_abs cfg sorted σ hw, (C05_concat_spec h a r hlr).1]
  have hl : σ.abs.length = σ.cells.length := by simp [Slices.SHeap.abs]
  simp [Slices.astep, hc, hd, ← hl, Heap.items]

private theorem abs_lt' {α} {ls : List (List α)} {c : Nat} {xs : List α} (hc : ls[c]? = some xs) : c < ls.length := by
  rcases Nat.lt_or_ge c ls.length with h2 | h2
  · exact h2
  · rw [List.getElem?_eq_none h2] at hc; cases hc

private theorem step_abs' {α} (cfg : Slices.Cfg α) (sorted : List α → List α) (σ : Slices.SHeap α) (hw : σ.WF)
    (op : Slices.Op α) : (Slices.step cfg sorted σ op).1.abs = (Slices.astep sorted σ.abs op).1 := by
  rw [← Slices.step_refines cfg sorted σ hw op]

private theorem items_append_new (h : Heap) (ys : List Val) (e : Nat) : (h ++ [Cell.list ys e]).items h.length = ys := by
  simp [Heap.items]

/-- `SubList(s, e)` with a positive end inside the list: the new list of the heap model holds what the new list of the
array-level model holds -/
theorem C05_slice_bridge_subList (h : Heap) (a : Nat) (s e : Int)
    (h0 : 0 ≤ s) (hse : s ≤ e) (hpos : 0 < e) (hen : e ≤ (h.items a).length)
    (cfg : Slices.Cfg Val) (sorted : List Val → List Val) (σ : Slices.SHeap Val) (hw : σ.WF) (c : Nat)
    (hc : σ.abs[c]? = some (h.items a)) :
    (Slices.step cfg sorted σ (.subList c s.toNat e.toNat)).1.abs[σ.cells.length]?
      = some ((L.subList h a s e).1.items h.length) := by
  have he : ¬ (e > (h.items a).length ∨ e < -((h.items a).length : Int)) := by omega
  have he' : e = if e ≤ 0 then ((h.items a).length : Int) + e else e := by
    rw [if_neg (by omega)]
  rw [step_abs' cfg sorted σ hw, C05_subList_spec h a s e he e he' (by omega) (by omega)]
  have hl : σ.abs.length = σ.cells.length := by simp [Slices.SHeap.abs]
  have hcond : s.toNat ≤ e.toNat ∧ e.toNat ≤ (h.items a).length := by omega
  have hsub : (e - s).toNat = e.toNat - s.toNat := by omega
  rw [items_append_new, hsub]
  simp only [Slices.astep, hc, hcond, and_self, if_true, ← hl, List.getElem?_concat_length, List.drop_take]

/-- `NewList(values...)` of scalars -/
theorem C05_slice_bridge_new (h : Heap) (gs : List GoVal) (hs : ∀ g ∈ gs, g.isScalar = true)
    (cfg : Slices.Cfg Val) (sorted : List Val → List Val) (σ : Slices.SHeap Val) (hw : σ.WF) :
    (Slices.step cfg sorted σ (.newList (gs.map scalarVal))).1.abs[σ.cells.length]?
      = some ((L.new h gs).1.items h.length) := by
  rw [step_abs' cfg sorted σ hw, C05_new_spec h gs hs]
  have hl : σ.abs.length = σ.cells.length := by simp [Slices.SHeap.abs]
  rw [items_append_new]
  simp only [Slices.astep, ← hl, List.getElem?_concat_length]

/-- `NewListOf(value, count)` of a scalar -/
theorem C05_slice_bridge_newOf (h : Heap) (g : GoVal) (n : Int) (hs : g.isScalar = true) (hn : 0 ≤ n)
    (cfg : Slices.Cfg Val) (sorted : List Val → List Val) (σ : Slices.SHeap Val) (hw : σ.WF) :
    (Slices.step cfg sorted σ (.newListOf (scalarVal g) n.toNat)).1.abs[σ.cells.length]?
      = some ((L.newOf h g n).1.items h.length) := by
  rw [step_abs' cfg sorted σ hw, C05_newOf_spec h g n hs hn]
  have hl : σ.abs.length = σ.cells.length := by simp [Slices.SHeap.abs]
  rw [items_append_new]
  simp only [Slices.astep, ← hl, List.getElem?_concat_length]

/-- `Sort()` on a list of ints: with Go's `sort.Ints` read as the model reads it, the receiver of the heap model holds what the
array-level receiver holds (whose array is the one `NewListFrom` allocated for the sorted values) -/
theorem C05_slice_bridge_sort_ints (h : Heap) (a : Nat) (hl : h.isList a = true) (i0 : Int) (rest : List Val)
    (hx : h.items a = .int i0 :: rest)
    (cfg : Slices.Cfg Val) (σ : Slices.SHeap Val) (hw : σ.WF) (c : Nat)
    (hc : σ.abs[c]? = some (h.items a)) :
    (Slices.step cfg (fun xs => ((xs.filterMap L.asInt).mergeSort (fun x y => decide (x ≤ y))).map .int) σ (.sort c)).1.abs[c]?
      = some ((L.sort h a).1.items a) := by
  rw [step_abs' cfg _ σ hw]
  have hs : L.sort h a = (h.setItems a ((((h.items a).filterMap L.asInt).mergeSort (fun x y => decide (x ≤ y))).map .int), .ok (h.egoRef a)) := by
    simp only [L.sort, hx]
  rw [hs, (C05_setItems_view h a _ hl).1]
  have hne : ¬ (h.items a).length = 0 := by rw [hx]; simp
  simp only [Slices.astep, hc, hne, if_false, List.getElem?_set_self (abs_lt' hc)]

#print axioms C05_parseVal_scalar
#print axioms C05_setItems_view
#print axioms C05_insert_spec
#print axioms C05_insert_spec_any
#print axioms C05_replace_spec
#print axioms C05_replace_spec_any
#print axioms C05_add_spec
#print axioms C05_delete_single_spec
#print axioms C05_delete_multi
#print axioms C05_pop_spec
#print axioms C05_clear_spec
#print axioms C05_reverseLoop
#print axioms C05_reverse_spec
#print axioms C05_subList_spec
#print axioms C05_concat_spec
#print axioms C05_new_spec
#print axioms C05_newOf_spec
#print axioms C05_panic_iff_insert
#print axioms C05_panic_iff_replace
#print axioms C05_panic_iff_get
#print axioms C05_panic_iff_delete
#print axioms C05_panic_iff_pop
#print axioms C05_panic_iff_subList
#print axioms C05_panic_frame_insert
#print axioms C05_panic_frame_replace
#print axioms C05_panic_frame_delete
#print axioms C05_panic_frame_pop
#print axioms C05_frame
#print axioms C05_frame_parseVal
#print axioms C05_frame_deriving
#print axioms C05_get_identity
#print axioms C05_get_alias
#print axioms C05_get_alias_add
#print axioms C05_observers
#print axioms C05_getK
#print axioms C05_getK_out
#print axioms C05_indexOf
#print axioms C05_step_wf
#print axioms C05_program
#print axioms C05_slice_refines
#print axioms C05_slice_program
#print axioms C05_slice_program_from
#print axioms C05_slice_grow_irrelevant
#print axioms C05_slice_frame
#print axioms C05_slice_concatOld_breaks
#print axioms C05_slice_subList_bridge
#print axioms C05_slice_bridge_insert
#print axioms C05_slice_bridge_replace
#print axioms C05_slice_bridge_add
#print axioms C05_slice_bridge_pop
#print axioms C05_slice_bridge_clear
#print axioms C05_slice_bridge_reverse
#print axioms C05_slice_bridge_delete
#print axioms C05_slice_bridge_concat
#print axioms C05_slice_bridge_subList
#print axioms C05_slice_bridge_new
#print axioms C05_slice_bridge_newOf
#print axioms C05_slice_bridge_sort_ints

end Anytype
