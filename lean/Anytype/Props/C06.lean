/-
C06: an Object behaves like a map from arbitrary strings to values (scalars by value,
Lists / Objects by reference).

`a` is the address of an object cell, `h.fields a` its field list (the Go map; distinct keys,
list order = one iteration order); `absMap` reads a field list as a finite map.
-/
import Anytype.Lemmas.ObjHeap
namespace Anytype
open OH

/-! ### concrete data for the non-vacuity examples -/

/-- cell 0: the object `{"": 7, "a": true}`; cell 1: an empty list; cell 2: `{"a": 1, "z": <list 1>}` -/
def c06H : Heap :=
  [.obj [([], .int 7), (['a'], .bool true)] 0, .list [] 0, .obj [(['a'], .int 1), (['z'], .list ⟨1, 0⟩)] 0]
/-- one `Set` call: the empty key, the key `"a"` twice (last wins), an existing list by reference -/
def c06Pairs : List (Str × GoVal) :=
  [([], .str ['x']), (['a'], .intw .u8 1), (['a'], .f64 F64.one), (['l'], .list ⟨1, 0⟩)]

example : c06H.isObj 0 = true ∧ (keysOf (c06H.fields 0)).Nodup ∧ AllNodup c06H := by
  refine ⟨by decide, by decide, ?_⟩
  intro a
  match a with
  | 0 => decide
  | 1 => decide
  | 2 => decide
  | n + 3 => simp [Heap.fields, c06H]
example : ∀ p ∈ c06Pairs, p.2.isScalar = true := by decide
example : applyPairs (c06H.fields 0) c06Pairs
    = [([], .str ['x']), (['a'], .float F64.one), (['l'], .list ⟨1, 0⟩)] := by decide

/-! ### 6. the association list is a finite map -/

theorem C06_assoc_set {α : Type} (fs : List (Str × α)) (k : Str) (v : α) :
    absMap (setKV fs k v) = updMap (absMap fs) k v := absMap_setKV fs k v

theorem C06_assoc_del {α : Type} (fs : List (Str × α)) (hn : (keysOf fs).Nodup) (k : Str) :
    absMap (delKV fs k) = delMap (absMap fs) k :=
  funext fun k' => lookup_delKV hn k k'

example : (keysOf [(([] : Str), (1 : Nat)), (['a'], 2)]).Nodup := by decide
/-- distinct keys are necessary for `delete` -/
example : lookup (delKV [(([] : Str), (1 : Nat)), ([], 2)] []) [] = some 2 := by decide

theorem C06_assoc_nodup_set {α : Type} (fs : List (Str × α)) (hn : (keysOf fs).Nodup) (k : Str) (v : α) :
    (keysOf (setKV fs k v)).Nodup := nodup_setKV hn k v
theorem C06_assoc_nodup_del {α : Type} (fs : List (Str × α)) (hn : (keysOf fs).Nodup) (k : Str) :
    (keysOf (delKV fs k)).Nodup := nodup_delKV hn k
theorem C06_assoc_keys_set {α : Type} (fs : List (Str × α)) (k : Str) (v : α) :
    keysOf (setKV fs k v) = if k ∈ keysOf fs then keysOf fs else keysOf fs ++ [k] := keysOf_setKV fs k v
theorem C06_assoc_keys_del {α : Type} (fs : List (Str × α)) (k : Str) :
    keysOf (delKV fs k) = (keysOf fs).erase k := keysOf_delKV fs k
theorem C06_assoc_length_set {α : Type} (fs : List (Str × α)) (k : Str) (v : α) :
    (setKV fs k v).length = if k ∈ keysOf fs then fs.length else fs.length + 1 := length_setKV fs k v
theorem C06_assoc_length_del {α : Type} (fs : List (Str × α)) (k : Str) :
    (delKV fs k).length = if k ∈ keysOf fs then fs.length - 1 else fs.length := length_delKV fs k
/-- a present key maps to a pair of the list and vice versa -/
theorem C06_assoc_mem {α : Type} (fs : List (Str × α)) (hn : (keysOf fs).Nodup) (k : Str) (v : α) :
    absMap fs k = some v ↔ (k, v) ∈ fs := lookup_eq_some_iff hn
theorem C06_assoc_dom {α : Type} (fs : List (Str × α)) (k : Str) :
    (absMap fs k).isSome = true ↔ k ∈ keysOf fs := lookup_isSome_iff

/-- the empty string is a key like any other; setting an existing key overwrites in place -/
example : setKV [(([] : Str), (1 : Nat)), (['a'], 2)] [] 9 = [([], 9), (['a'], 2)] := by decide
example : lookup (setKV (setKV ([] : List (Str × Nat)) [] 1) [] 2) [] = some 2 := by decide

/-! ### scalar arguments -/

/-- scalars are stored by value (integers of every width wrapped to `int`, float32 widened),
existing Lists / Objects by reference; nothing is allocated -/
theorem C06_parse_scalar (h : Heap) (g : GoVal) (hs : g.isScalar = true) :
    parseVal h g = (h, .ok (scalarVal g)) := parseVal_scalar h g hs

example : (GoVal.list ⟨1, 0⟩).isScalar = true ∧ (GoVal.intw .u8 1).isScalar = true := by decide

/-! ### 7. Set -/

/-- `Set` with string keys and scalar values succeeds, returns the receiver, and replaces the
receiver's fields by the pairs applied in argument order. -/
theorem C06_set (h : Heap) (a : Nat) (ps : List (Str × GoVal)) (ho : h.isObj a = true)
    (hs : ∀ p ∈ ps, p.2.isScalar = true) :
    O.set h a (toPairs ps) false
        = (h.setFields a (applyPairs (h.fields a) ps), .ok (h.egoRef a)) ∧
    (h.setFields a (applyPairs (h.fields a) ps)).fields a = applyPairs (h.fields a) ps :=
  ⟨set_scalar h a ps hs, fields_setFields_self ho _⟩

example : O.set c06H 0 (toPairs c06Pairs) false
    = ([.obj [([], .str ['x']), (['a'], .float F64.one), (['l'], .list ⟨1, 0⟩)] 0, .list [] 0,
        .obj [(['a'], .int 1), (['z'], .list ⟨1, 0⟩)] 0], .ok ⟨0, 0⟩) := by rfl

/-- as a map: the updates are applied one after the other, in argument order -/
theorem C06_set_absMap (fs : List (Str × Val)) (ps : List (Str × GoVal)) :
    absMap (applyPairs fs ps) = ps.foldl (fun m p => updMap m p.1 (scalarVal p.2)) (absMap fs) :=
  absMap_applyPairs fs ps

/-- … so for each key the last pair naming it wins, and keys not named keep their value -/
theorem C06_set_last (fs : List (Str × Val)) (ps : List (Str × GoVal)) (k : Str) :
    absMap (applyPairs fs ps) k
      = match ps.reverse.find? (fun p => p.1 == k) with
        | some p => some (scalarVal p.2)
        | none => absMap fs k := by
  unfold absMap applyPairs
  rw [lookup_foldl_setKV (fun p : Str × GoVal => p.1) (fun p => scalarVal p.2) ps fs k]
  cases List.find? (fun p : Str × GoVal => p.1 == k) ps.reverse <;> rfl

example : absMap (applyPairs (c06H.fields 0) c06Pairs) ['a'] = some (.float F64.one) ∧
    absMap (applyPairs (c06H.fields 0) c06Pairs) [] = some (.str ['x']) := by decide

theorem C06_set_nodup (fs : List (Str × Val)) (hn : (keysOf fs).Nodup) (ps : List (Str × GoVal)) :
    (keysOf (applyPairs fs ps)).Nodup :=
  nodup_foldl_setKV (fun p : Str × GoVal => p.1) (fun p => scalarVal p.2) ps hn

/-- an odd argument count panics before anything is changed -/
theorem C06_set_panic_odd (h : Heap) (a : Nat) (pairs : O.Pairs) :
    O.set h a pairs true = (h, .panic .oddPairs) := rfl

/-- a key that is not a string panics after exactly the pairs before it were applied -/
theorem C06_set_panic_key (h : Heap) (a : Nat) (pre : List (Str × GoVal)) (g : GoVal) (rest : O.Pairs)
    (hs : ∀ p ∈ pre, p.2.isScalar = true) :
    O.set h a (toPairs pre ++ (none, g) :: rest) false
      = (h.setFields a (applyPairs (h.fields a) pre), .panic .keyNotString) := by
  unfold O.set
  simp only [Bool.false_eq_true, if_false, setLoop_scalar_append h a pre _ hs, O.setLoop]

example : O.set c06H 0 (toPairs [([], .str ['x'])] ++ [(none, .nil), (some ['q'], .nil)]) false
    = ([.obj [([], .str ['x']), (['a'], .bool true)] 0, .list [] 0,
        .obj [(['a'], .int 1), (['z'], .list ⟨1, 0⟩)] 0], .panic .keyNotString) := by rfl

/-- `NewObject(k1, v1, …)`: a fresh cell holding the pairs applied to the empty map -/
theorem C06_new (h : Heap) (ps : List (Str × GoVal)) (hs : ∀ p ∈ ps, p.2.isScalar = true) :
    O.new h (toPairs ps) false
      = ((h ++ [Cell.obj [] 0]).setFields h.length (applyPairs [] ps), .ok ⟨h.length, 0⟩) ∧
    ((h ++ [Cell.obj [] 0]).setFields h.length (applyPairs [] ps)).fields h.length = applyPairs [] ps :=
  ⟨new_scalar h ps hs, fields_setFields_self (isObj_append_new h [] 0) _⟩

/-- `NewObjectFrom(map)` builds the same object as `NewObject` with the map's pairs -/
theorem C06_newFrom (h : Heap) (fl : Flavour) (ps : List (Str × GoVal))
    (hs : ∀ p ∈ ps, p.2.isScalar = true) :
    O.newFrom h (.map fl ps)
      = ((h ++ [Cell.obj [] 0]).setFields h.length (applyPairs [] ps), .ok ⟨h.length, 0⟩) := by
  unfold O.newFrom
  simp only [parseVal, setEach_scalar _ _ ps hs, fields_append_new]

/-! ### 8. Unset, Clear -/

theorem C06_unset (h : Heap) (a : Nat) (ks : List Str) (ho : h.isObj a = true)
    (hn : (keysOf (h.fields a)).Nodup) :
    (O.unset h a ks).2 = .ok (h.egoRef a) ∧
    (∀ k, absMap ((O.unset h a ks).1.fields a) k = if k ∈ ks then none else absMap (h.fields a) k) ∧
    (keysOf ((O.unset h a ks).1.fields a)).Nodup := by
  unfold O.unset
  simp only [egoRef_setFields, fields_setFields_self ho, true_and]
  exact ⟨fun k => lookup_foldl_delKV ks hn k, nodup_foldl_delKV ks hn⟩

example : (O.unset c06H 0 [['q'], [], ['q']]).1.fields 0 = [(['a'], .bool true)] := by decide

/-- unsetting keys that are not there changes nothing at all -/
theorem C06_unset_missing (h : Heap) (a : Nat) (ks : List Str)
    (hmiss : ∀ k ∈ ks, k ∉ keysOf (h.fields a)) : O.unset h a ks = (h, .ok (h.egoRef a)) := by
  unfold O.unset
  simp only [foldl_delKV_of_not_mem ks hmiss, setFields_fields_self]

example : ∀ k ∈ [['q'], ['r']], k ∉ keysOf (c06H.fields 0) := by decide

theorem C06_clear (h : Heap) (a : Nat) (ho : h.isObj a = true) :
    (O.clear h a).2 = .ok (h.egoRef a) ∧ (O.clear h a).1.fields a = [] ∧
    (∀ k, absMap ((O.clear h a).1.fields a) k = none) ∧ O.count (O.clear h a).1 a = 0 := by
  unfold O.clear O.count
  simp only [fields_setFields_self ho, true_and]
  exact ⟨fun _ => rfl, rfl⟩

/-! ### 9. observers -/

theorem C06_get (h : Heap) (a : Nat) (k : Str) :
    O.get h a k = match absMap (h.fields a) k with
      | some v => .ok (h.getVal v)
      | none => .panic .missingKey := by
  unfold O.get absMap; cases lookup (h.fields a) k <;> rfl

/-- `Get` panics exactly when the key is absent -/
theorem C06_get_panic_iff (h : Heap) (a : Nat) (k : Str) :
    (O.get h a k).isPanic = true ↔ k ∉ keysOf (h.fields a) := by
  rw [C06_get, ← lookup_eq_none_iff]
  unfold absMap; cases lookup (h.fields a) k <;> simp [Out.isPanic]

/-- the typed getters: ok iff present and of that kind -/
theorem C06_getK (h : Heap) (a : Nat) (kd : Kind) (k : Str) :
    O.getK h a kd k = match absMap (h.fields a) k with
      | none => .panic .missingKey
      | some v => if v.kind = kd then .ok (h.getVal v) else .panic .notKind := by
  unfold O.getK O.get absMap
  cases lookup (h.fields a) k with
  | none => rfl
  | some v => simp only [getVal_kind, beq_iff_eq]

example : O.getK c06H 0 .int [] = .ok (.int 7) ∧ O.getK c06H 0 .float [] = .panic .notKind ∧
    O.getK c06H 0 .int ['q'] = .panic .missingKey ∧ O.get c06H 0 ['q'] = .panic .missingKey :=
  ⟨rfl, rfl, rfl, rfl⟩

theorem C06_typeOf (h : Heap) (a : Nat) (k : Str) :
    O.typeOf h a k = match absMap (h.fields a) k with
      | none => .undefined
      | some v => v.kind := rfl

theorem C06_typeOf_undefined_iff (h : Heap) (a : Nat) (k : Str) :
    O.typeOf h a k = .undefined ↔ k ∉ keysOf (h.fields a) := by
  rw [C06_typeOf, ← lookup_eq_none_iff]
  unfold absMap
  cases lookup (h.fields a) k with
  | none => simp
  | some v => cases v <;> simp [Val.kind]

theorem C06_keyExists (h : Heap) (a : Nat) (k : Str) :
    O.keyExists h a k = true ↔ k ∈ keysOf (h.fields a) := lookup_isSome_iff

theorem C06_count (h : Heap) (a : Nat) :
    O.count h a = (h.fields a).length ∧ O.count h a = (keysOf (h.fields a)).length := by
  simp [O.count, length_keysOf]

theorem C06_empty (h : Heap) (a : Nat) :
    O.empty h a = true ↔ ∀ k, absMap (h.fields a) k = none := by
  unfold O.empty O.count absMap
  cases hf : h.fields a with
  | nil => simp
  | cons kv fs =>
    obtain ⟨k, v⟩ := kv
    simp only [List.length_cons, beq_iff_eq]
    constructor
    · intro h0; omega
    · intro h0; have := h0 k; simp [lookup_cons] at this

/-! ### 10. Keys / Values / Dict / Contains / KeyOf describe the same field set -/

/-- `Keys()`: a fresh list cell with the keys, each once, `Count()` of them; no old cell changes -/
theorem C06_keys (h : Heap) (a : Nat) (hn : (keysOf (h.fields a)).Nodup) :
    (O.keys h a).2 = ⟨h.length, 0⟩ ∧
    (O.keys h a).1.length = h.length + 1 ∧ (∀ b, b < h.length → (O.keys h a).1[b]? = h[b]?) ∧
    (O.keys h a).1.items h.length = (keysOf (h.fields a)).map Val.str ∧
    ((O.keys h a).1.items h.length).Nodup ∧
    (((O.keys h a).1.items h.length).length : Int) = O.count h a := by
  unfold O.keys O.count
  simp only [items_append_new, true_and]
  refine ⟨by simp, fun b hb => getElem?_append_old h _ hb, by simp [keysOf], ?_, by simp⟩
  have : (h.fields a).map (fun kv => Val.str kv.1) = (keysOf (h.fields a)).map Val.str := by
    simp [keysOf]
  rw [this]
  exact List.pairwise_map.2 (hn.imp (fun hne e => hne (Val.str.inj e)))

/-- `Values()`: a fresh list cell holding `Get(k)` for each key of `Keys()`, in the same order -/
theorem C06_values (h : Heap) (a : Nat) (hn : (keysOf (h.fields a)).Nodup) :
    (O.values h a).2 = ⟨h.length, 0⟩ ∧
    (O.values h a).1.length = h.length + 1 ∧ (∀ b, b < h.length → (O.values h a).1[b]? = h[b]?) ∧
    (keysOf (h.fields a)).map (O.get h a) = ((O.values h a).1.items h.length).map Out.ok ∧
    (((O.values h a).1.items h.length).length : Int) = O.count h a := by
  unfold O.values O.count
  simp only [items_append_new, true_and]
  refine ⟨by simp, fun b hb => getElem?_append_old h _ hb, ?_, by simp⟩
  simp only [keysOf, List.map_map]
  apply List.map_congr_left
  intro kv hkv
  simp only [Function.comp, O.get, lookup_of_mem hn (show (kv.1, kv.2) ∈ h.fields a from hkv)]

example : (O.keys c06H 0).1.items 3 = [.str [], .str ['a']] ∧
    (O.values c06H 2).1.items 3 = [.int 1, .list ⟨1, 0⟩] := by decide

/-- `Dict()`: the same keys, each with what `Get` returns -/
theorem C06_dict (h : Heap) (a : Nat) :
    keysOf (O.dict h a) = keysOf (h.fields a) ∧
    (∀ k, absMap (O.dict h a) k = (absMap (h.fields a) k).map h.getVal) ∧
    ((O.dict h a).length : Int) = O.count h a := by
  unfold O.dict O.count
  exact ⟨keysOf_map _ _, fun k => lookup_map _ _ k, by simp⟩

/-- `Contains(v)`: some key's value is Go-`==` to `v` -/
theorem C06_contains (h : Heap) (a : Nat) (hn : (keysOf (h.fields a)).Nodup) (v : Val) :
    O.contains h a v = true ↔
      ∃ k w, absMap (h.fields a) k = some w ∧ L.goEq (h.getVal w) v = true := by
  unfold O.contains absMap
  rw [List.any_eq_true]
  constructor
  · rintro ⟨kv, hkv, he⟩
    exact ⟨kv.1, kv.2, lookup_of_mem hn hkv, he⟩
  · rintro ⟨k, w, hl, he⟩
    exact ⟨(k, w), mem_of_lookup hl, he⟩

/-- `KeyOf(v)` returns a key holding a value equal to `v` … -/
theorem C06_keyOf_ok (h : Heap) (a : Nat) (hn : (keysOf (h.fields a)).Nodup) (v : Val) (k : Str)
    (hk : O.keyOf h a v = .ok k) :
    ∃ w, absMap (h.fields a) k = some w ∧ L.goEq (h.getVal w) v = true := by
  unfold O.keyOf at hk
  split at hk
  · rename_i kv hf
    cases hk
    exact ⟨kv.2, lookup_of_mem hn (List.mem_of_find?_eq_some hf), List.find?_some (p := fun kv : Str × Val => L.goEq (h.getVal kv.2) v) hf⟩
  · cases hk

/-- … and panics exactly when no key does -/
theorem C06_keyOf_panic (h : Heap) (a : Nat) (hn : (keysOf (h.fields a)).Nodup) (v : Val) :
    O.keyOf h a v = .panic .noValue ↔
      ∀ k w, absMap (h.fields a) k = some w → L.goEq (h.getVal w) v = false := by
  unfold O.keyOf absMap
  cases hf : (h.fields a).find? (fun kv => L.goEq (h.getVal kv.2) v) with
  | some kv =>
    simp only [reduceCtorEq, false_iff]
    intro hall
    have h1 := hall kv.1 kv.2 (lookup_of_mem hn (List.mem_of_find?_eq_some hf))
    have h2 := List.find?_some (p := fun kv : Str × Val => L.goEq (h.getVal kv.2) v) hf
    simp only [h1] at h2
    cases h2
  | none =>
    simp only [true_iff]
    intro k w hl
    have := List.find?_eq_none.1 hf (k, w) (mem_of_lookup hl)
    simpa using this

/-- `KeyOf` either returns a key or panics with `noValue`; it returns a key iff `Contains` -/
theorem C06_keyOf_contains (h : Heap) (a : Nat) (v : Val) :
    (∃ k, O.keyOf h a v = .ok k) ↔ O.contains h a v = true := by
  unfold O.keyOf O.contains
  cases hf : (h.fields a).find? (fun kv => L.goEq (h.getVal kv.2) v) with
  | some kv =>
    simp only [Out.ok.injEq, exists_eq', true_iff, List.any_eq_true]
    exact ⟨kv, List.mem_of_find?_eq_some hf, List.find?_some (p := fun kv : Str × Val => L.goEq (h.getVal kv.2) v) hf⟩
  | none =>
    simp only [reduceCtorEq, exists_false, false_iff, Bool.not_eq_true]
    rw [List.any_eq_false]
    intro kv hkv
    exact List.find?_eq_none.1 hf kv hkv

example : O.keyOf c06H 0 (.int 7) = .ok [] ∧ O.keyOf c06H 0 (.int 8) = .panic .noValue ∧
    O.contains c06H 2 (.list ⟨1, 0⟩) = true := ⟨rfl, rfl, rfl⟩

/-! ### 11. Pluck -/

/-- every requested key present: a fresh object holding exactly the requested keys, each with
what `Get` returns; no old cell changes -/
theorem C06_pluck (h : Heap) (a : Nat) (ks : List Str) (ho : h.isObj a = true)
    (hall : ∀ k ∈ ks, k ∈ keysOf (h.fields a)) :
    ∃ h', O.pluck h a ks = (h', .ok ⟨h.length, 0⟩) ∧
      h'.length = h.length + 1 ∧ (∀ b, b < h.length → h'[b]? = h[b]?) ∧
      h'.isObj h.length = true ∧ (keysOf (h'.fields h.length)).Nodup ∧
      ∀ k, absMap (h'.fields h.length) k
        = if k ∈ ks then (absMap (h.fields a) k).map h.getVal else none := by
  have hlt := lt_of_isObj ho
  have hne : h.length ≠ a := by omega
  have hr := isObj_append_new h [] 0
  have hfa : (h ++ [Cell.obj [] 0]).fields a = h.fields a := fields_append_old h _ hlt
  have hg : (h ++ [Cell.obj [] 0]).getVal = h.getVal := funext (getVal_append_obj h [])
  have hl := pluckLoop_ok (h ++ [Cell.obj [] 0]) a h.length ks hne hr (by rw [hfa]; exact hall)
  rw [hfa, hg, fields_append_new] at hl
  refine ⟨(h ++ [Cell.obj [] 0]).setFields h.length (pluckFold h.getVal (h.fields a) [] ks),
    by unfold O.pluck; simp only [hl], ?_, ?_, ?_, ?_, ?_⟩
  · simp [length_setFields]
  · exact (Ext.of_append_except (ExtExcept.setFields h.length (h ++ [Cell.obj [] 0]) _)).2
  · rw [isObj_setFields]; exact hr
  · rw [fields_setFields_self hr]; exact nodup_pluckFold _ _ _ (by simp)
  · intro k
    rw [fields_setFields_self hr]
    unfold absMap
    rw [lookup_pluckFold _ _ _ _ hall]; rfl

example : O.pluck c06H 2 [['z'], ['z'], ['a']]
    = (c06H ++ [.obj [(['z'], .list ⟨1, 0⟩), (['a'], .int 1)] 0], .ok ⟨3, 0⟩) := by rfl

/-- some requested key absent: `Pluck` panics (`Get` of a missing key); no old cell changes -/
theorem C06_pluck_panic (h : Heap) (a : Nat) (ks : List Str) (ho : h.isObj a = true)
    (hmiss : ∃ k ∈ ks, k ∉ keysOf (h.fields a)) :
    ∃ h', O.pluck h a ks = (h', .panic .missingKey) ∧
      h.length ≤ h'.length ∧ ∀ b, b < h.length → h'[b]? = h[b]? := by
  have hlt := lt_of_isObj ho
  have hne : h.length ≠ a := by omega
  have hfa : (h ++ [Cell.obj [] 0]).fields a = h.fields a := fields_append_old h _ hlt
  obtain ⟨acc, hacc⟩ := pluckLoop_missing (h ++ [Cell.obj [] 0]) a h.length ks hne
    (by rw [hfa]; exact hmiss)
  refine ⟨(h ++ [Cell.obj [] 0]).setFields h.length acc, by unfold O.pluck; simp only [hacc], ?_⟩
  exact Ext.of_append_except (ExtExcept.setFields h.length (h ++ [Cell.obj [] 0]) _)

example : c06H.isObj 2 = true ∧ ∃ k ∈ [['a'], ['q']], k ∉ keysOf (c06H.fields 2) :=
  ⟨by decide, ['q'], by decide, by decide⟩

/-! ### 12. Merge (the part after cloning the receiver) -/

/-- the fold `Merge` performs: the argument's value wins on a shared key, the other keys of
both maps are kept -/
theorem C06_merge_fold (g : Val → Val) (fsB : List (Str × Val)) (hn : (keysOf fsB).Nodup)
    (base : List (Str × Val)) (hb : (keysOf base).Nodup) :
    (∀ k, absMap (fsB.foldl (fun acc kv => setKV acc kv.1 (g kv.2)) base) k
        = match absMap fsB k with
          | some w => some (g w)
          | none => absMap base k) ∧
    (keysOf (fsB.foldl (fun acc kv => setKV acc kv.1 (g kv.2)) base)).Nodup ∧
    ∀ k, k ∈ keysOf (fsB.foldl (fun acc kv => setKV acc kv.1 (g kv.2)) base)
        ↔ k ∈ keysOf fsB ∨ k ∈ keysOf base := by
  refine ⟨fun k => ?_, nodup_foldl_setKV (fun kv : Str × Val => kv.1) (fun kv => g kv.2) fsB hb,
    mem_keysOf_mergeFold g fsB base⟩
  unfold absMap
  rw [lookup_mergeFold g fsB hn base k]
  cases lookup fsB k <;> rfl

example : (keysOf (c06H.fields 2)).Nodup ∧ (keysOf (c06H.fields 0)).Nodup := by decide
example : (c06H.fields 2).foldl (fun acc kv => setKV acc kv.1 (c06H.getVal kv.2)) (c06H.fields 0)
    = [([], .int 7), (['a'], .int 1), (['z'], .list ⟨1, 0⟩)] := by decide

/-- `Merge`: once the receiver has been cloned into the fresh cell `r` (heap `h1`), the result is
that cell updated with the argument's fields; only that cell changes. -/
theorem C06_merge (h : Heap) (a another : Nat) (h1 : Heap) (r : Ref)
    (hc : O.clone h (.obj ⟨a, 0⟩) = some (h1, .obj r)) (ho : h1.isObj r.addr = true)
    (hn : (keysOf (h1.fields another)).Nodup) :
    ∃ h', O.merge h a another = some (h', r) ∧
      h'.length = h1.length ∧ (∀ b, b ≠ r.addr → h'[b]? = h1[b]?) ∧
      ∀ k, absMap (h'.fields r.addr) k
        = match absMap (h1.fields another) k with
          | some w => some (h1.getVal w)
          | none => absMap (h1.fields r.addr) k := by
  refine ⟨h1.setFields r.addr ((h1.fields another).foldl
      (fun acc kv => setKV acc kv.1 (h1.getVal kv.2)) (h1.fields r.addr)),
    by unfold O.merge; simp only [hc], length_setFields _ _ _,
    fun b hb => getElem?_setFields_ne _ _ _ hb, fun k => ?_⟩
  rw [fields_setFields_self ho]
  unfold absMap
  rw [lookup_mergeFold h1.getVal _ hn _ k]
  cases lookup (h1.fields another) k <;> rfl

example : O.clone c06H (.obj ⟨0, 0⟩)
      = some (c06H ++ [.obj [([], .int 7), (['a'], .bool true)] 0], .obj ⟨3, 0⟩) ∧
    O.merge c06H 0 2
      = some (c06H ++ [.obj [([], .int 7), (['a'], .int 1), (['z'], .list ⟨1, 0⟩)] 0], ⟨3, 0⟩) :=
  ⟨by simp [O.clone, reifyF, reify, reifyFields, build, buildFields, c06H],
   by simp [O.merge, O.clone, reifyF, reify, reifyFields, build, buildFields, c06H, Heap.fields,
      Heap.setFields, setKV, Heap.getVal, Heap.ego]⟩

/-! ### 13. frame: only the receiver changes; containers are held by reference -/

/-- `Set` with arbitrary arguments (nested slices / maps, unsupported values, non-string keys,
odd count — panicking or not): every old cell other than the receiver is untouched -/
theorem C06_frame_set (h : Heap) (a : Nat) (pairs : O.Pairs) (odd : Bool) :
    h.length ≤ (O.set h a pairs odd).1.length ∧
    ∀ b, b < h.length → b ≠ a → (O.set h a pairs odd).1[b]? = h[b]? := by
  cases odd with
  | true => exact ⟨Nat.le_refl _, fun _ _ _ => rfl⟩
  | false => rw [set_fst]; exact setLoop_frame h a pairs

/-- with scalar arguments nothing is allocated -/
theorem C06_frame_set_scalar (h : Heap) (a : Nat) (ps : List (Str × GoVal))
    (hs : ∀ p ∈ ps, p.2.isScalar = true) :
    (O.set h a (toPairs ps) false).1.length = h.length ∧
    ∀ b, b ≠ a → (O.set h a (toPairs ps) false).1[b]? = h[b]? := by
  rw [set_fst, setLoop_scalar h a ps hs]
  exact ⟨length_setFields _ _ _, fun b hb => getElem?_setFields_ne _ _ _ hb⟩

theorem C06_frame_unset (h : Heap) (a : Nat) (ks : List Str) :
    (O.unset h a ks).1.length = h.length ∧ ∀ b, b ≠ a → (O.unset h a ks).1[b]? = h[b]? :=
  ⟨length_setFields _ _ _, fun _ hb => getElem?_setFields_ne _ _ _ hb⟩

theorem C06_frame_clear (h : Heap) (a : Nat) :
    (O.clear h a).1.length = h.length ∧ ∀ b, b ≠ a → (O.clear h a).1[b]? = h[b]? :=
  ⟨length_setFields _ _ _, fun _ hb => getElem?_setFields_ne _ _ _ hb⟩

/-- the receiver stays an object with the same embedding level -/
theorem C06_frame_kind (h : Heap) (a : Nat) (fs : List (Str × Val)) (b : Nat) :
    (h.setFields a fs).isObj b = h.isObj b ∧ (h.setFields a fs).ego b = h.ego b :=
  ⟨isObj_setFields h a fs b, ego_setFields h a fs b⟩

/-- `Get` of a stored container returns a reference to the stored cell (no copy) -/
theorem C06_get_by_ref (h : Heap) (a : Nat) (k : Str) (r : Ref) :
    (absMap (h.fields a) k = some (.list r) → O.get h a k = .ok (.list ⟨r.addr, h.ego r.addr⟩)) ∧
    (absMap (h.fields a) k = some (.obj r) → O.get h a k = .ok (.obj ⟨r.addr, h.ego r.addr⟩)) := by
  constructor <;> intro hl <;> rw [C06_get, hl] <;> rfl

/-- `Set(k, container)` then `Get(k)`: the very same cell -/
theorem C06_set_get_by_ref (h : Heap) (a : Nat) (k : Str) (r : Ref) (ho : h.isObj a = true) :
    O.get (O.set h a (toPairs [(k, .list r)]) false).1 a k = .ok (.list ⟨r.addr, h.ego r.addr⟩) ∧
    O.get (O.set h a (toPairs [(k, .obj r)]) false).1 a k = .ok (.obj ⟨r.addr, h.ego r.addr⟩) := by
  constructor
  · rw [(C06_set h a [(k, .list r)] ho (by simp [GoVal.isScalar])).1]
    simp only [C06_get, absMap, fields_setFields_self ho, applyPairs, List.foldl_cons, List.foldl_nil,
      lookup_setKV, if_true, scalarVal, Heap.getVal, ego_setFields]
  · rw [(C06_set h a [(k, .obj r)] ho (by simp [GoVal.isScalar])).1]
    simp only [C06_get, absMap, fields_setFields_self ho, applyPairs, List.foldl_cons, List.foldl_nil,
      lookup_setKV, if_true, scalarVal, Heap.getVal, ego_setFields]

example : O.get c06H 2 ['z'] = .ok (.list ⟨1, 0⟩) := rfl

/-! ### 14. programs -/

/-- the Go-map invariant (distinct keys in every object cell) holds after any program,
including programs with nested map / slice arguments and panicking steps -/
theorem C06_program (h : Heap) (hn : AllNodup h) (prog : List OOp) : AllNodup (runO h prog) :=
  runO_allNodup h hn prog

/-- in particular from the empty heap, where every object is born by `NewObject` -/
theorem C06_program_init (prog : List OOp) (a : Nat) : (keysOf ((runO [] prog).fields a)).Nodup :=
  runO_allNodup [] AllNodup.nil prog a

/-- any finite program of mutators acts on each object exactly like the corresponding program
of map updates (operations addressed to other objects do not affect it) -/
theorem C06_program_sim (h : Heap) (a : Nat) (ho : h.isObj a = true) (hn : AllNodup h)
    (prog : List OOp) (hs : ∀ op ∈ prog, op.scalar = true) :
    (runO h prog).isObj a = true ∧
    absMap ((runO h prog).fields a) = prog.foldl (absStep a) (absMap (h.fields a)) :=
  runO_sim h a ho hn prog hs

/-- a program on two objects: the empty key, a repeated key, unset of a missing key, clear -/
def c06Prog : List OOp :=
  [.new [([], .intw .int 1), ([], .intw .int 2)], .new [(['k'], .obj ⟨0, 0⟩)],
   .set 0 [(['a'], .nil), ([], .str [])], .unset 0 [['z', 'z'], ['a']], .set 1 [(['k'], .bool true)],
   .clear 1, .set 1 [(['n'], .slice .any [.nil, .unsupported])]]

example : runO [] c06Prog = [.obj [([], .str [])] 0, .obj [] 0, .list [.nil] 0] := by decide
example : ∀ op ∈ c06Prog.take 6, op.scalar = true := by decide

#print axioms C06_assoc_set
#print axioms C06_assoc_del
#print axioms C06_assoc_nodup_set
#print axioms C06_assoc_nodup_del
#print axioms C06_assoc_keys_set
#print axioms C06_assoc_keys_del
#print axioms C06_assoc_length_set
#print axioms C06_assoc_length_del
#print axioms C06_assoc_mem
#print axioms C06_assoc_dom
#print axioms C06_parse_scalar
#print axioms C06_set
#print axioms C06_set_absMap
#print axioms C06_set_last
#print axioms C06_set_nodup
#print axioms C06_set_panic_odd
#print axioms C06_set_panic_key
#print axioms C06_new
#print axioms C06_newFrom
#print axioms C06_unset
#print axioms C06_unset_missing
#print axioms C06_clear
#print axioms C06_get
#print axioms C06_get_panic_iff
#print axioms C06_getK
#print axioms C06_typeOf
#print axioms C06_typeOf_undefined_iff
#print axioms C06_keyExists
#print axioms C06_count
#print axioms C06_empty
#print axioms C06_keys
#print axioms C06_values
#print axioms C06_dict
#print axioms C06_contains
#print axioms C06_keyOf_ok
#print axioms C06_keyOf_panic
#print axioms C06_keyOf_contains
#print axioms C06_pluck
#print axioms C06_pluck_panic
#print axioms C06_merge_fold
#print axioms C06_merge
#print axioms C06_frame_set
#print axioms C06_frame_set_scalar
#print axioms C06_frame_unset
#print axioms C06_frame_clear
#print axioms C06_frame_kind
#print axioms C06_get_by_ref
#print axioms C06_set_get_by_ref
#print axioms C06_program
#print axioms C06_program_init
#print axioms C06_program_sim

end Anytype
