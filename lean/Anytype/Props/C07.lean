/-
C07: `Equals` is typed structural equality (objects as finite maps); on NaN-free data it is an
equivalence relation; it is a pure total Boolean function.

`equalsJ` is the model of the Go loops, `specEq` the specification (Spec/Equiv.lean).
-/
import Anytype.Lemmas.Equals
namespace Anytype

/-! ### small trees used in the non-vacuity examples -/

/-- `{"a":1,"":[1],"b":{"x":null}}` (the empty string is a key like any other) -/
def c07A : JVal := .obj [(['a'], .int 1), ([], .list [.int 1]), (['b'], .obj [(['x'], .null)])]
/-- the same object in another iteration order -/
def c07B : JVal := .obj [(['b'], .obj [(['x'], .null)]), (['a'], .int 1), ([], .list [.int 1])]
/-- `{"a":1}` and `{"a":1,"b":2}` -/
def c07S : JVal := .obj [(['a'], .int 1)]
def c07L : JVal := .obj [(['a'], .int 1), (['b'], .int 2)]

/-! ### 1. the Go loops compute the specification -/

/-- `Equals` returns true exactly when the specification says so. -/
theorem C07_spec (a b : JVal) (ha : keysNodup a = true) (hb : keysNodup b = true) :
    equalsJ a b = specEq a b :=
  equalsJ_eq_specEq a ha b hb

example : keysNodup c07A = true ∧ keysNodup c07B = true := by decide

/-- lists: same length and equal elements position by position -/
theorem C07_shape_list (xs ys : List JVal) (ha : keysNodup (.list xs) = true)
    (hb : keysNodup (.list ys) = true) :
    equalsJ (.list xs) (.list ys) = true ↔
      xs.length = ys.length ∧
      ∀ i (h : i < xs.length) (h' : i < ys.length), equalsJ xs[i] ys[i] = true := by
  rw [C07_spec _ _ ha hb]
  simp only [specEq, specEqList_iff]
  simp only [keysNodup, keysNodupList_iff] at ha hb
  refine and_congr_right fun _ => ?_
  constructor
  · intro h i h1 h2
    rw [C07_spec _ _ (ha _ (List.getElem_mem h1)) (hb _ (List.getElem_mem h2))]; exact h i h1 h2
  · intro h i h1 h2
    rw [← C07_spec _ _ (ha _ (List.getElem_mem h1)) (hb _ (List.getElem_mem h2))]; exact h i h1 h2

example : keysNodup (.list [c07A, .int 1]) = true := by decide

/-- objects: the same key set (whatever the insertion order) and equal values per key -/
theorem C07_shape_obj (kvs kvs' : List (Str × JVal)) (ha : keysNodup (.obj kvs) = true)
    (hb : keysNodup (.obj kvs') = true) :
    equalsJ (.obj kvs) (.obj kvs') = true ↔
      (∀ k, k ∈ keysOf kvs ↔ k ∈ keysOf kvs') ∧
      ∀ k v w, lookup kvs k = some v → lookup kvs' k = some w → equalsJ v w = true := by
  rw [C07_spec _ _ ha hb]
  rw [keysNodup_obj] at ha hb
  rw [specEq_obj_iff_lookup ha.1]
  refine and_congr_right fun _ => ?_
  constructor
  · intro h k v w hv hw
    rw [C07_spec _ _ (ha.2 _ (mem_of_lookup hv)) (hb.2 _ (mem_of_lookup hw))]; exact h k v w hv hw
  · intro h k v w hv hw
    rw [← C07_spec _ _ (ha.2 _ (mem_of_lookup hv)) (hb.2 _ (mem_of_lookup hw))]; exact h k v w hv hw

/-! ### 2. equivalence relation -/

/-- Go `==` on float64 is symmetric, and transitive on all values (NaN is related to nothing) -/
theorem C07_eqGo_symm (x y : F64) : F64.eqGo x y = F64.eqGo y x := F64.eqGo_symm x y
theorem C07_eqGo_trans (x y z : F64) (h1 : F64.eqGo x y = true) (h2 : F64.eqGo y z = true) :
    F64.eqGo x z = true := F64.eqGo_trans h1 h2

example : F64.eqGo F64.posZero F64.negZero = true ∧ F64.eqGo F64.negZero F64.posZero = true := by decide

theorem C07_refl (a : JVal) (hn : nanFree a = true) (hk : keysNodup a = true) : specEq a a = true :=
  specEq_refl a hn hk

example : nanFree c07A = true ∧ keysNodup c07A = true := by decide
/-- NaN-freeness is necessary -/
example : specEq (.float F64.nan) (.float F64.nan) = false := by decide

/-- symmetry (distinct keys are needed on the right-hand side only) -/
theorem C07_symm (a b : JVal) (hb : keysNodup b = true) (h : specEq a b = true) : specEq b a = true :=
  specEq_symm a b hb h

example : keysNodup c07B = true ∧ specEq c07A c07B = true := by decide

/-- transitivity, on all trees -/
theorem C07_trans (a b c : JVal) (h1 : specEq a b = true) (h2 : specEq b c = true) : specEq a c = true :=
  specEq_trans a b c h1 h2

example : specEq c07A c07B = true ∧ specEq c07B c07A = true := by decide

/-- the same three for the model of `Equals` -/
theorem C07_equals_refl (a : JVal) (hn : nanFree a = true) (hk : keysNodup a = true) :
    equalsJ a a = true := by
  rw [C07_spec a a hk hk]; exact C07_refl a hn hk

theorem C07_equals_symm (a b : JVal) (ha : keysNodup a = true) (hb : keysNodup b = true)
    (h : equalsJ a b = true) : equalsJ b a = true := by
  rw [C07_spec a b ha hb] at h
  rw [C07_spec b a hb ha]; exact C07_symm a b hb h

theorem C07_equals_trans (a b c : JVal) (ha : keysNodup a = true) (hb : keysNodup b = true)
    (hc : keysNodup c = true) (h1 : equalsJ a b = true) (h2 : equalsJ b c = true) :
    equalsJ a c = true := by
  rw [C07_spec a b ha hb] at h1
  rw [C07_spec b c hb hc] at h2
  rw [C07_spec a c ha hc]; exact C07_trans a b c h1 h2

example : equalsJ c07A c07B = true ∧ equalsJ c07B c07A = true ∧ equalsJ c07A c07A = true := by decide

/-! ### 3. strictness of kinds -/

/-- int 1 is not float 1.0 -/
theorem C07_strict_int_float : equalsJ (.int 1) (.float F64.one) = false := rfl
/-- … also inside a container -/
theorem C07_strict_nested : equalsJ (.list [.int 1]) (.list [.float F64.one]) = false := by decide
/-- nil equals only nil -/
theorem C07_strict_null (x : JVal) : equalsJ .null x = true ↔ x = .null := by
  cases x <;> simp [equalsJ]
theorem C07_strict_null' (x : JVal) : equalsJ x .null = true ↔ x = .null := by
  cases x <;> simp [equalsJ]
/-- a list is never equal to an object -/
theorem C07_strict_list_obj (xs : List JVal) (kvs : List (Str × JVal)) :
    equalsJ (.list xs) (.obj kvs) = false ∧ equalsJ (.obj kvs) (.list xs) = false := by
  simp [equalsJ]
/-- values of two different kinds are never equal -/
theorem C07_strict_kind (a b : JVal) (h : a.kind ≠ b.kind) : equalsJ a b = false := by
  cases a <;> cases b <;> first | exact absurd rfl h | simp [equalsJ]

example : (JVal.int 1).kind ≠ (JVal.float F64.one).kind := by decide

/-! ### 4. field order is irrelevant -/

/-- the same fields in another insertion / iteration order give an equal object -/
theorem C07_perm (kvs kvs' : List (Str × JVal)) (hp : kvs'.Perm kvs)
    (hn : nanFree (.obj kvs) = true) (hk : keysNodup (.obj kvs) = true) :
    specEq (.obj kvs) (.obj kvs') = true := by
  rw [specEq_perm_right hp ((hp.map _ : (keysOf kvs').Perm (keysOf kvs)).nodup_iff.2 (keysNodup_obj.1 hk).1)]
  exact C07_refl _ hn hk

example : nanFree c07A = true ∧ keysNodup c07A = true ∧
    [(['b'], JVal.obj [(['x'], .null)]), (['a'], .int 1), ([], .list [.int 1])].Perm
      [(['a'], .int 1), ([], .list [.int 1]), (['b'], .obj [(['x'], .null)])] := by
  refine ⟨by decide, by decide, ?_⟩
  exact List.perm_append_comm (l₁ := [_]) (l₂ := [_, _])

/-- `specEq` does not see the order of the fields of its left argument … -/
theorem C07_perm_left (kvs kvs₂ : List (Str × JVal)) (hp : kvs.Perm kvs₂) (b : JVal) :
    specEq (.obj kvs) b = specEq (.obj kvs₂) b := specEq_perm_left hp b

/-- … nor of its right argument (a Go map: distinct keys) -/
theorem C07_perm_right (kvs kvs₂ : List (Str × JVal)) (hp : kvs.Perm kvs₂)
    (hn : (keysOf kvs).Nodup) (a : JVal) :
    specEq a (.obj kvs) = specEq a (.obj kvs₂) := specEq_perm_right hp hn a

/-- and so `Equals` itself is invariant under the iteration order of both maps -/
theorem C07_equals_perm (k₁ k₁' k₂ k₂' : List (Str × JVal)) (hp₁ : k₁.Perm k₁') (hp₂ : k₂.Perm k₂')
    (h₁ : keysNodup (.obj k₁) = true) (h₁' : keysNodup (.obj k₁') = true)
    (h₂ : keysNodup (.obj k₂) = true) (h₂' : keysNodup (.obj k₂') = true) :
    equalsJ (.obj k₁) (.obj k₂) = equalsJ (.obj k₁') (.obj k₂') := by
  rw [C07_spec _ _ h₁ h₂, C07_spec _ _ h₁' h₂', specEq_perm_left hp₁,
    specEq_perm_right hp₂ (keysNodup_obj.1 h₂).1]

example : equalsJ c07A c07B = true := by decide

/-! ### 5. totality, purity, no panic

`equalsJ : JVal → JVal → Bool` is a total function that neither takes nor returns a heap, so it
cannot modify an operand and cannot panic. The "shorter / longer / lacks a key" cases give `false`. -/

theorem C07_total_length (xs ys : List JVal) (h : xs.length ≠ ys.length) :
    equalsJ (.list xs) (.list ys) = false := by
  have : (xs.length == ys.length) = false := by simpa using h
  simp [equalsJ, this]

example : [JVal.int 1].length ≠ [JVal.int 1, JVal.int 2].length := by decide

theorem C07_total_count (kvs kvs' : List (Str × JVal)) (h : kvs.length ≠ kvs'.length) :
    equalsJ (.obj kvs) (.obj kvs') = false := by
  have : (kvs.length == kvs'.length) = false := by simpa using h
  simp [equalsJ, this]

theorem C07_total_missing_key (kvs kvs' : List (Str × JVal))
    (h : ∃ k ∈ keysOf kvs, lookup kvs' k = none) : equalsJ (.obj kvs) (.obj kvs') = false := by
  obtain ⟨k, hk, hl⟩ := h
  obtain ⟨v, hv⟩ := mem_keysOf.1 hk
  cases hF : equalsFields kvs kvs' with
  | false => simp [equalsJ, hF]
  | true =>
    obtain ⟨w, hw, _⟩ := equalsFields_iff.1 hF (k, v) hv
    rw [hl] at hw; cases hw

example : ∃ k ∈ keysOf [(['a'], JVal.int 1), (['b'], .int 2)], lookup [(['a'], JVal.int 1)] k = none :=
  ⟨['b'], by decide, by decide⟩

/-- `{a:1}` vs `{a:1,b:2}`: false both ways, no panic -/
example : equalsJ c07S c07L = false ∧ equalsJ c07L c07S = false := by decide
example : equalsJ (.list [.int 1]) (.list [.int 1, .int 2]) = false ∧
    equalsJ (.list [.int 1, .int 2]) (.list [.int 1]) = false := by decide

#print axioms C07_spec
#print axioms C07_shape_list
#print axioms C07_shape_obj
#print axioms C07_eqGo_symm
#print axioms C07_eqGo_trans
#print axioms C07_refl
#print axioms C07_symm
#print axioms C07_trans
#print axioms C07_equals_refl
#print axioms C07_equals_symm
#print axioms C07_equals_trans
#print axioms C07_strict_int_float
#print axioms C07_strict_nested
#print axioms C07_strict_null
#print axioms C07_strict_null'
#print axioms C07_strict_list_obj
#print axioms C07_strict_kind
#print axioms C07_perm
#print axioms C07_perm_left
#print axioms C07_perm_right
#print axioms C07_equals_perm
#print axioms C07_total_length
#print axioms C07_total_count
#print axioms C07_total_missing_key

end Anytype
