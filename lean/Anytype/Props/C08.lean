/-
C08 — `Clone` returns a container that Equals the original while no List or Object reachable
from the clone (at any depth, itself included) is a container reachable from the original;
consequently any later sequence of mutations inside one of the two leaves the other observably
unchanged.

Vocabulary: `reify n h v` is the pure tree the value `v` denotes in heap `h` (fuel `n` bounds the
nesting depth that is followed; `reifyF` uses fuel `h.length + 1`); `reach n h v` lists the
addresses of the containers reachable from `v` (itself included) within `n` levels (`reachF`:
`h.length + 1` levels). "Observably unchanged" = the denoted tree is the same.
All statements about `reach n` / `reify n` hold for EVERY fuel `n`, in particular for
`reachF` / `reifyF`.
-/
import Anytype.Lemmas.TreeFormFrame
import Anytype.Lemmas.Acyclic
import Anytype.Lemmas.EqualsRefl
namespace Anytype
open Heap Rf

/-- cell 0: `[3, 1]`, cell 1: `{"k": <list 0>, "s": "x"}`, cell 2: `[<obj 1>, nil]`
(a list containing an object containing a list) -/
def c08H : Heap :=
  [.list [.int 3, .int 1] 0, .obj [(['k'], .list ⟨0, 0⟩), (['s'], .str ['x'])] 0,
   .list [.obj ⟨1, 0⟩, .nil] 0]

/-- the tree cell 2 denotes -/
def c08T : JVal := .list [.obj [(['k'], .list [.int 3, .int 1]), (['s'], .str ['x'])], .null]

theorem c08H_reify : reifyF c08H (.list ⟨2, 0⟩) = some c08T := by
  simp [reifyF, reify, reifyList, reifyFields, c08H, c08T]

theorem c08H_wf : HeapWF c08H := by
  intro a
  match a with
  | 0 => simp [c08H, Heap.items, Heap.fields, Val.okIn]
  | 1 => simp [c08H, Heap.items, Heap.fields, Val.okIn, Heap.isList]
  | 2 => simp [c08H, Heap.items, Heap.fields, Val.okIn, Heap.isObj]
  | (n + 3) => exact ⟨by simp [c08H, Heap.items], by simp [c08H, Heap.fields]⟩

/-! ## 1. fuel -/

/-- a successful reification is stable under more fuel -/
theorem C08_reify_mono (h : Heap) (v : Val) (t : JVal) (n m : Nat) (hnm : n ≤ m)
    (ht : reify n h v = some t) : reify m h v = some t := reify_mono hnm ht

/-- … and in any heap that still has all the cells (e.g. `h ++ extra`) -/
theorem C08_reify_ext (h extra : Heap) (v : Val) (t : JVal) (n m : Nat) (hnm : n ≤ m)
    (ht : reify n h v = some t) : reify m (h ++ extra) v = some t :=
  reify_mono_sub (Sub.append h extra) n m hnm v t ht

example : reify 4 c08H (.list ⟨2, 0⟩) = some c08T := c08H_reify

/-- the fuel that sufficed bounds the nesting depth of the tree -/
theorem C08_depth_le_fuel (h : Heap) (v : Val) (t : JVal) (n : Nat) (ht : reify n h v = some t) :
    depth t ≤ n := depth_le_of_reify n v t ht

/-- the executable fuel `h.length + 1` of `reifyF` suffices exactly for the acyclic values: in an
acyclic value the addresses along a chain of nested containers are valid and pairwise distinct,
so there are at most `h.length` of them (pigeonhole) -/
theorem C08_acyclic_reifyF (h : Heap) (v : Val) : Acyclic h v ↔ (reifyF h v).isSome = true :=
  acyclic_iff_reifyF h v

/-- `reifyF` agrees with every fuel that succeeds -/
theorem C08_reifyF_eq (h : Heap) (v : Val) (n : Nat) (t : JVal) (ht : reify n h v = some t) :
    reifyF h v = some t := reifyF_eq_of_reify ht

/-- for an acyclic value, `reachF` is the complete set of reachable containers -/
theorem C08_reachF_complete (h : Heap) (v : Val) (hv : Acyclic h v) (m a : Nat)
    (ha : a ∈ reach m h v) : a ∈ reachF h v := reachF_complete hv m a ha

example : Acyclic c08H (.list ⟨2, 0⟩) := ⟨4, by rw [show reify 4 c08H _ = _ from c08H_reify]; rfl⟩

/-- a cyclic heap: the list at address 0 contains itself; `reifyF` (and `Clone`) fail on it -/
example : ¬ Acyclic [.list [.list ⟨0, 0⟩] 0] (.list ⟨0, 0⟩) := by
  rw [C08_acyclic_reifyF]
  simp [reifyF, reify, reifyList]

/-- locality: the tree (and the reachable set) of `v` only depends on the cells reachable from `v` -/
theorem C08_reify_local (h h2 : Heap) (n : Nat) (v : Val)
    (hag : ∀ a ∈ reach n h v, h2[a]? = h[a]?) :
    reify n h2 v = reify n h v ∧ reach n h2 v = reach n h v :=
  ⟨reify_congr n v hag, reach_congr n v hag⟩

/-! ## 2. `build` followed by `reify` is the identity -/

theorem C08_build_reify (h : Heap) (t : JVal) (n : Nat) (hn : depth t ≤ n) :
    reify n (build h t).1 (build h t).2 = some t :=
  (build_spec h t).2.2.reify _ (AgreeOn.refl _ _ _) n hn

/-- also with the executable fuel -/
theorem C08_build_reifyF (h : Heap) (t : JVal) : reifyF (build h t).1 (build h t).2 = some t :=
  C08_build_reify h t _ (by have := (build_spec h t).2.1; omega)

example : depth c08T = 3 := by simp [depth, depthList, depthFields, c08T]

/-! ## 3. the clone equals the original -/

/-- the clone denotes the identical tree -/
theorem C08_equal (h h' : Heap) (v c : Val) (hc : O.clone h v = some (h', c)) :
    reifyF h' c = reifyF h v ∧ (reifyF h v).isSome := by
  obtain ⟨t, ht, hb⟩ := clone_inv hc
  have := C08_build_reifyF h t
  rw [hb] at this
  rw [this, ht]; exact ⟨rfl, rfl⟩

/-- hence `Equals` (the library's deep comparison, `equalsJ` on the denoted trees) holds, both ways,
whenever the content is NaN-free with distinct keys (`JVal.WF`; `NaN ≠ NaN` also in Go) -/
theorem C08_equals (h h' : Heap) (v c : Val) (hc : O.clone h v = some (h', c)) :
    ∃ t, reifyF h v = some t ∧ reifyF h' c = some t ∧ (t.WF → equalsJ t t = true) := by
  obtain ⟨t, ht, _⟩ := clone_inv hc
  exact ⟨t, ht, by rw [(C08_equal h h' v c hc).1, ht], RT.equalsJ_refl t⟩

/-- the NaN-freeness is needed (also in Go, where `NaN != NaN`): a list holding NaN does not
`Equals` its clone — nor itself -/
example : equalsJ (.list [.float F64.nan]) (.list [.float F64.nan]) = false := by
  simp [equalsJ, equalsList, F64.eqGo, F64.isNaN, F64.nan, F64.expBits, F64.frac]

/-- `Clone` succeeds on every value that reifies -/
theorem C08_clone_total (h : Heap) (v : Val) (hv : (reifyF h v).isSome) : (O.clone h v).isSome := by
  unfold O.clone; cases hr : reifyF h v <;> simp_all

example : (O.clone c08H (.list ⟨2, 0⟩)).isSome :=
  C08_clone_total _ _ (by rw [c08H_reify]; rfl)

/-! ## 4. the clone lives in new cells only -/

/-- old cells are untouched: the new heap is the old one plus appended cells -/
theorem C08_prefix (h h' : Heap) (v c : Val) (hc : O.clone h v = some (h', c)) :
    (∃ extra, h' = h ++ extra) ∧ ∀ b, b < h.length → h'[b]? = h[b]? := by
  obtain ⟨t, _, hb⟩ := clone_inv hc
  obtain ⟨extra, he⟩ := (build_spec h t).1
  rw [hb] at he
  simp only at he
  exact ⟨⟨extra, he⟩, fun b hb' => by rw [he, List.getElem?_append_left hb']⟩

/-- every container reachable from the clone (itself included, at any depth) is a new cell -/
theorem C08_fresh (h h' : Heap) (v c : Val) (hc : O.clone h v = some (h', c)) (n : Nat) :
    ∀ a ∈ reach n h' c, h.length ≤ a ∧ a < h'.length := by
  obtain ⟨t, _, hb⟩ := clone_inv hc
  have d := (build_spec h t).2.2
  rw [hb] at d
  exact fun a ha => d.reach h' (AgreeOn.refl _ _ _) n a ha

theorem C08_fresh_reachF (h h' : Heap) (v c : Val) (hc : O.clone h v = some (h', c)) :
    ∀ a ∈ reachF h' c, h.length ≤ a := fun a ha => (C08_fresh h h' v c hc _ a ha).1

/-- in a well-formed heap, everything reachable from the original is an old cell, also after the clone -/
theorem C08_original_old (h h' : Heap) (v c : Val) (wf : HeapWF h) (hv : v.okIn h)
    (hc : O.clone h v = some (h', c)) (n : Nat) : ∀ a ∈ reach n h' v, a < h.length := by
  obtain ⟨⟨extra, he⟩, _⟩ := C08_prefix h h' v c hc
  rw [he]
  exact reach_old wf (Sub.append h extra) n v hv

/-- no container reachable from the clone is a container reachable from the original -/
theorem C08_disjoint (h h' : Heap) (v c : Val) (wf : HeapWF h) (hv : v.okIn h)
    (hc : O.clone h v = some (h', c)) (n m : Nat) :
    ∀ a, a ∈ reach n h' c → a ∉ reach m h' v := by
  intro a ha hm
  have h1 := (C08_fresh h h' v c hc n a ha).1
  have h2 := C08_original_old h h' v c wf hv hc m a hm
  omega

theorem C08_disjoint_reachF (h h' : Heap) (v c : Val) (wf : HeapWF h) (hv : v.okIn h)
    (hc : O.clone h v = some (h', c)) : ∀ a, a ∈ reachF h' c → a ∉ reachF h' v :=
  C08_disjoint h h' v c wf hv hc _ _

example : (Val.list ⟨2, 0⟩).okIn c08H := by simp [Val.okIn, c08H, Heap.isList]

/-! ## 5. independence

"A mutation" is, abstractly, ANY change `h1 ↦ h2` of the heap that keeps every cell outside a
set `S` (cells may be appended). A value that reaches no cell of `S` denotes the same tree
before and after. -/

theorem C08_independent_abstract (h1 h2 : Heap) (S : Nat → Prop) (n : Nat) (v : Val)
    (hf : ∀ b, ¬ S b → h2[b]? = h1[b]?) (hd : ∀ a ∈ reach n h1 v, ¬ S a) :
    reify n h2 v = reify n h1 v ∧ reach n h2 v = reach n h1 v :=
  C08_reify_local h1 h2 n v (fun a ha => hf a (hd a ha))

/-- any change confined to the cells reachable from the clone (or to cells allocated later) leaves
the original observably unchanged -/
theorem C08_independent_original_abstract (h h' h2 : Heap) (v c : Val) (wf : HeapWF h) (hv : v.okIn h)
    (hc : O.clone h v = some (h', c)) (hf : ∀ b, b < h.length → h2[b]? = h'[b]?) (n : Nat) :
    reify n h2 v = reify n h v ∧ reach n h2 v = reach n h v := by
  have hp := (C08_prefix h h' v c hc).2
  have hold := reach_old wf (Sub.refl h) n v hv
  exact C08_reify_local h h2 n v (fun a ha => by rw [hf a (hold a ha), hp a (hold a ha)])

/-- any change that keeps the clone's cells (the interval `[h.length, h'.length)`) leaves the
clone observably unchanged: it still denotes the tree of the original at clone time -/
theorem C08_independent_clone_abstract (h h' h2 : Heap) (v c : Val)
    (hc : O.clone h v = some (h', c))
    (hf : ∀ b, h.length ≤ b → b < h'.length → h2[b]? = h'[b]?) (hlen : h'.length ≤ h2.length) :
    reifyF h2 c = reifyF h v ∧ ∀ n, ∀ a ∈ reach n h2 c, h.length ≤ a ∧ a < h'.length := by
  obtain ⟨t, ht, hb⟩ := clone_inv hc
  have d := (build_spec h t).2.2
  have hd := (build_spec h t).2.1
  rw [hb] at d hd
  simp only at d hd
  refine ⟨?_, fun n a ha => d.reach h2 hf n a ha⟩
  rw [ht]; exact d.reify h2 hf _ (by omega)

/-! ### programs of the concrete mutators

`MOp` (in `Lemmas/Mutators.lean`): `Add, Insert, Replace, Delete, Pop, Clear, Reverse, Sort` on a
list cell and `Set, Unset, Clear` on an object cell, with ARBITRARY arguments (scalars, nested
native slices / maps, references to existing containers; also calls that panic).
`runM h ops` executes them in order. Each changes at most its receiver's cell and appends cells
(`C05_frame`, `C06_frame_*`, here `stepM_ext`). -/

/-- a program all of whose receivers are cells of the clone or cells created later (address
`≥ h.length`) leaves the original observably unchanged -/
theorem C08_independent_original (h h' : Heap) (v c : Val) (wf : HeapWF h) (hv : v.okIn h)
    (hc : O.clone h v = some (h', c)) (ops : List MOp) (ht : ∀ op ∈ ops, h.length ≤ op.target)
    (n : Nat) :
    reify n (runM h' ops) v = reify n h v ∧ reach n (runM h' ops) v = reach n h v := by
  obtain ⟨⟨extra, he⟩, _⟩ := C08_prefix h h' v c hc
  have ag := runM_agreeOn 0 h.length h' ops (by rw [he]; simp) (fun op ho => Or.inr (ht op ho))
  exact C08_independent_original_abstract h h' _ v c wf hv hc (fun b hb => ag b (Nat.zero_le _) hb) n

/-- a program none of whose receivers is a cell of the clone leaves the clone observably unchanged -/
theorem C08_independent_clone (h h' : Heap) (v c : Val)
    (hc : O.clone h v = some (h', c)) (ops : List MOp)
    (ht : ∀ op ∈ ops, op.target < h.length ∨ h'.length ≤ op.target) :
    reifyF (runM h' ops) c = reifyF h v ∧
    ∀ n, ∀ a ∈ reach n (runM h' ops) c, h.length ≤ a ∧ a < h'.length :=
  C08_independent_clone_abstract h h' _ v c hc
    (runM_agreeOn h.length h'.length h' ops (Nat.le_refl _) ht) (runM_len h' ops)

example : runM c08H [.add 0 [.nil], .oset 1 [(some ['z'], .slice .any [.nil])] false] =
    [.list [.int 3, .int 1, .nil] 0,
     .obj [(['k'], .list ⟨0, 0⟩), (['s'], .str ['x']), (['z'], .list ⟨3, 0⟩)] 0,
     .list [.obj ⟨1, 0⟩, .nil] 0, .list [.nil] 0] := by
  simp [runM, stepM, L.add, O.set, O.setLoop, addEach, parseVal, c08H, Heap.setItems, Heap.items,
    Heap.setFields, Heap.fields, setKV, Heap.egoRef, Heap.ego]

/-! ### "inside": receivers reachable from one of the two

`GOp` (in `Lemmas/TreeFormFrame.lean`): a method mutator (`.m op`, `op : MOp`) or one of the
tree-form mutators `SetTF` / `UnsetTF` on a list / an object (`.setL`, `.setO`, `.unsetL`,
`.unsetO`: they walk a path of nested containers, create missing intermediate containers and
change the container at the end of the path). `runG h ops` executes a program.
`ProgInside P root h ops`: every call of the program has a receiver that is reachable from `root`
in the heap the call is executed in (top level or nested at any depth), and the container
references among its arguments (at any depth of nested native slices / maps) all lie in the
address set `P`. Arguments that are scalars or native trees satisfy this for every `P`. -/

/-- any program of mutations inside the clone — receivers reachable from the clone at the time of
the call, via methods or tree-form paths; arguments: scalars, native trees, and references only
to new containers (parts of the clone, results of later calls), never to containers of the
original — leaves the original observably unchanged; and everything reachable from the clone is
still new afterwards -/
theorem C08_independent_inside_clone (h h' : Heap) (v c : Val) (wf : HeapWF h) (hv : v.okIn h)
    (hc : O.clone h v = some (h', c)) (ops : List GOp)
    (hp : ProgInside (fun a => h.length ≤ a) c h' ops) (n : Nat) :
    (reify n (runG h' ops) v = reify n h v ∧ reach n (runG h' ops) v = reach n h v) ∧
    ∀ a ∈ reach n (runG h' ops) c, h.length ≤ a := by
  obtain ⟨t, _, hb⟩ := clone_inv hc
  obtain ⟨⟨extra, he⟩, _⟩ := C08_prefix h h' v c hc
  have hlen : h.length ≤ h'.length := by rw [he]; simp
  have cb := build_closed (fun a => h.length ≤ a) h t (closed_of_ge (fun a ha => ha)) (fun a ha => ha)
  rw [hb] at cb
  obtain ⟨cf, cl⟩ := runG_inside (fun a => h.length ≤ a) c cb.2 ops h' cb.1
    (fun a ha => Nat.le_trans hlen ha) hp
  exact ⟨C08_independent_original_abstract h h' _ v c wf hv hc
    (fun b hb' => cf.same b (by omega) (by omega)) n, fun a ha => reach_closed cl n c cb.2 a ha⟩

/-- any program of mutations inside the original — receivers reachable from the original at the
time of the call, via methods or tree-form paths; arguments: scalars, native trees, and
references to any containers except the clone's — leaves the clone observably unchanged -/
theorem C08_independent_inside_original (h h' : Heap) (v c : Val) (wf : HeapWF h) (hv : v.okIn h)
    (hc : O.clone h v = some (h', c)) (ops : List GOp)
    (hp : ProgInside (fun a => a < h.length ∨ h'.length ≤ a) v h' ops) :
    reifyF (runG h' ops) c = reifyF h v ∧
    ∀ n, ∀ a ∈ reach n (runG h' ops) c, h.length ≤ a ∧ a < h'.length := by
  obtain ⟨⟨extra, he⟩, _⟩ := C08_prefix h h' v c hc
  have e0 : Ext0 h h' := by rw [he]; exact ext0_of_append h extra
  obtain ⟨cf, _⟩ := runG_inside (fun a => a < h.length ∨ h'.length ≤ a) v
    (refP_of_okIn (fun _ hb => Or.inl hb) hv) ops h' (closed_old wf e0) (fun a ha => Or.inr ha) hp
  exact C08_independent_clone_abstract h h' _ v c hc
    (fun b h1 h2 => cf.same b h2 (by omega)) cf.len

/-- non-vacuity: clone cell 2 of `c08H`; the clone is `<list 6>` = `[<obj 5>, nil]`,
`<obj 5>` = `{"k": <list 4>, "s": "x"}`, `<list 4>` = `[3, 1]` -/
theorem c08H_clone : O.clone c08H (.list ⟨2, 0⟩) =
    some (c08H ++ [.list [.int 3, .int 1] 0, .obj [(['k'], .list ⟨3, 0⟩), (['s'], .str ['x'])] 0,
      .list [.obj ⟨4, 0⟩, .nil] 0], .list ⟨5, 0⟩) := by
  rw [O.clone, c08H_reify]
  simp [c08T, build, buildList, buildFields, c08H]

/-- a program inside the clone: `Add` to the nested list (address 3) a native slice, then `Set` on
the nested object (address 4) a reference to the clone's own list -/
example : ProgInside (fun a => c08H.length ≤ a) (.list ⟨5, 0⟩)
    (c08H ++ [.list [.int 3, .int 1] 0, .obj [(['k'], .list ⟨3, 0⟩), (['s'], .str ['x'])] 0,
      .list [.obj ⟨4, 0⟩, .nil] 0])
    [.m (.add 3 [.slice .any [.nil]]), .m (.oset 4 [(some ['q'], .list ⟨3, 0⟩)] false)] := by
  refine ⟨⟨3, by simp [reach, reachList, c08H, Heap.items, Heap.fields, MOp.target, GOp.target]⟩,
    by simp [GOp.refP, MOp.refP, refPList, GoVal.refP], ⟨3, ?_⟩, ?_, trivial⟩
  · simp [stepG, stepM, L.add, addEach, parseVal, reach, reachList, c08H, Heap.items, Heap.fields,
      Heap.setItems, MOp.target, GOp.target]
  · simp [GOp.refP, MOp.refP, GoVal.refP, c08H]

/-- a tree-form mutation inside the clone: `clone.SetTF("#0.q", nil)` (receiver: the clone itself) -/
example : ProgInside (fun a => c08H.length ≤ a) (.list ⟨5, 0⟩)
    (c08H ++ [.list [.int 3, .int 1] 0, .obj [(['k'], .list ⟨3, 0⟩), (['s'], .str ['x'])] 0,
      .list [.obj ⟨4, 0⟩, .nil] 0])
    [.setL 4 5 ['#', '0', '.', 'q'] .nil] :=
  ⟨⟨1, by simp [reach, GOp.target]⟩, by simp [GOp.refP, GoVal.refP], trivial⟩

/-- a program inside the original: `Pop` on the nested list 0, `Unset` on the nested object 1 -/
example : ProgInside (fun a => a < c08H.length ∨ 6 ≤ a) (.list ⟨2, 0⟩)
    (c08H ++ [.list [.int 3, .int 1] 0, .obj [(['k'], .list ⟨3, 0⟩), (['s'], .str ['x'])] 0,
      .list [.obj ⟨4, 0⟩, .nil] 0])
    [.m (.pop 0), .m (.ounset 1 [['s']])] := by
  refine ⟨⟨3, by simp [reach, reachList, c08H, Heap.items, Heap.fields, MOp.target, GOp.target]⟩,
    by simp [GOp.refP, MOp.refP], ⟨2, ?_⟩, by simp [GOp.refP, MOp.refP], trivial⟩
  simp [stepG, stepM, L.pop, L.delete, L.deleteLoop, L.count, reach, reachList, c08H, Heap.items,
    Heap.fields, Heap.setItems, MOp.target, GOp.target]

/-! instances of the theorems above on the concrete clone -/

example := C08_equal c08H _ _ _ c08H_clone
example := C08_equals c08H _ _ _ c08H_clone
example := C08_prefix c08H _ _ _ c08H_clone
example := C08_fresh_reachF c08H _ _ _ c08H_clone
example := C08_disjoint_reachF c08H _ _ _ c08H_wf (by simp [Val.okIn, c08H, Heap.isList]) c08H_clone
example := C08_independent_original c08H _ _ _ c08H_wf (by simp [Val.okIn, c08H, Heap.isList])
  c08H_clone [.add 3 [.slice .any [.nil]], .oclear 4, .sort 7] (by simp [MOp.target, c08H])
example := C08_independent_clone c08H _ _ _ c08H_clone [.pop 0, .ounset 1 [['s']], .clear 2, .add 9 []]
  (by simp [MOp.target, c08H])
example : c08T.WF := by
  simp [c08T, JVal.WF, WFList, WFFields, InRange]

#print axioms C08_reify_mono
#print axioms C08_reify_ext
#print axioms C08_depth_le_fuel
#print axioms C08_acyclic_reifyF
#print axioms C08_reifyF_eq
#print axioms C08_reachF_complete
#print axioms C08_reify_local
#print axioms C08_build_reify
#print axioms C08_build_reifyF
#print axioms C08_equal
#print axioms C08_equals
#print axioms C08_clone_total
#print axioms C08_prefix
#print axioms C08_fresh
#print axioms C08_fresh_reachF
#print axioms C08_original_old
#print axioms C08_disjoint
#print axioms C08_disjoint_reachF
#print axioms C08_independent_abstract
#print axioms C08_independent_original_abstract
#print axioms C08_independent_clone_abstract
#print axioms C08_independent_original
#print axioms C08_independent_clone
#print axioms C08_independent_inside_clone
#print axioms C08_independent_inside_original

end Anytype
