/-
C09 — operations documented as producing a new container or a plain Go value leave their
receiver and their arguments observably unchanged; the result has its own top-level storage:
later mutators on the receiver, the argument, the result or another result derived from the
same receiver never change any of the others (nested containers may be shared by reference,
top-level slots never are).

`DOp` / `derive` (in `Lemmas/Deriving.lean`) is the alphabet of the heap-returning deriving
operations; `MOp` / `stepM` / `runM` (in `Lemmas/Mutators.lean`) the alphabet of the mutators.
-/
import Anytype.Lemmas.Deriving
import Anytype.Lemmas.Slices
import Anytype.Spec.Json
namespace Anytype
open Heap Rf

/-- cell 0: `[3, "s", <list 1>]`, cell 1: `[1.5?]` (here `[nil]`), cell 2: `{"k": <list 1>, "n": 7}` -/
def c09H : Heap :=
  [.list [.int 3, .str ['s'], .list ⟨1, 0⟩] 0, .list [.nil] 0,
   .obj [(['k'], .list ⟨1, 0⟩), (['n'], .int 7)] 0]

/-! ## 0. what `derive` stands for: one line per documented operation -/

theorem C09_derive_table (h : Heap) (a b : Nat) (r : Ref) (s e : Int) (p : Val → Bool) (k : Kind)
    (fi : Int → Val → GoVal) (fv : Val → GoVal) (fk : Str → Val → GoVal) (ks : List Str) (v : Val) :
    derive h (.concat a r) = outRef (L.concat h a r) ∧
    derive h (.subList a s e) = outRef (L.subList h a s e) ∧
    derive h (.filter a p) = ((L.filter h a p).1, some (L.filter h a p).2) ∧
    derive h (.filterK a k p) = ((L.filterK h a k p).1, some (L.filterK h a k p).2) ∧
    derive h (.map a fi) = outRef (L.map h a fi) ∧
    derive h (.mapValues a fv) = outRef (L.mapValues h a fv) ∧
    derive h (.mapK a k fv) = outRef (L.mapK h a k fv) ∧
    derive h (.keys a) = ((O.keys h a).1, some (O.keys h a).2) ∧
    derive h (.values a) = ((O.values h a).1, some (O.values h a).2) ∧
    derive h (.pluck a ks) = outRef (O.pluck h a ks) ∧
    derive h (.omap a fk) = outRef (O.map h a fk) ∧
    derive h (.omapValues a fv) = outRef (O.mapValues h a fv) ∧
    derive h (.omapK a k fv) = outRef (O.mapK h a k fv) ∧
    derive h (.merge a b) = (match O.merge h a b with | some (h1, q) => (h1, some q) | none => (h, none)) ∧
    derive h (.clone v) = (match O.clone h v with | some (h1, c) => (h1, valRef c) | none => (h, none)) :=
  ⟨rfl, rfl, rfl, rfl, rfl, rfl, rfl, rfl, rfl, rfl, rfl, rfl, rfl, rfl, rfl⟩

/-- `outRef` keeps the heap and turns `ok r` into `some r`, a panic into `none` -/
theorem C09_outRef (h : Heap) (r : Ref) (p : PanicKind) :
    outRef (h, .ok r) = (h, some r) ∧ outRef (h, .panic p) = (h, none) := ⟨rfl, rfl⟩

/-! ## 1. purity: no existing cell changes -/

/-- every deriving operation, with any receiver, arguments and callbacks, also when it panics
(MapAsync runs the same callbacks; its result is the one of `Map`): no cell is lost and every cell
that existed before — the receiver, every argument, every nested container — is identical afterwards -/
theorem C09_pure (h : Heap) (op : DOp) :
    h.length ≤ (derive h op).1.length ∧ ∀ b, b < h.length → (derive h op).1[b]? = h[b]? :=
  ⟨(derive_spec h op).ext0.len, (derive_spec h op).ext0.same⟩

/-- consequently every value valid in a well-formed heap denotes the same tree before and after -/
theorem C09_pure_observable (h : Heap) (op : DOp) (wf : HeapWF h) (v : Val) (hv : v.okIn h) (n : Nat) :
    reify n (derive h op).1 v = reify n h v := by
  have hold := reach_old wf (Sub.refl h) n v hv
  exact reify_congr n v (fun a ha => (C09_pure h op).2 a (hold a ha))

theorem c09H_wf : HeapWF c09H := by
  intro a
  match a with
  | 0 => simp [c09H, Heap.items, Heap.fields, Val.okIn, Heap.isList]
  | 1 => simp [c09H, Heap.items, Heap.fields, Val.okIn]
  | 2 => simp [c09H, Heap.items, Heap.fields, Val.okIn, Heap.isList]
  | (n + 3) => exact ⟨by simp [c09H, Heap.items], by simp [c09H, Heap.fields]⟩

example := C09_pure_observable c09H (.omap 2 (fun _ v => .slice .any [v.toGo])) c09H_wf
  (.obj ⟨2, 0⟩) (by simp [Val.okIn, c09H, Heap.isObj])

/- The operations that return plain Go values — `L.slice`, `L.sliceK`, `L.reduce`, `L.reduceK`,
`L.contains`, `L.indexOf`, `O.dict`, `O.contains`, `O.keyOf`, `Equals` (`equalsJ` of the reified
trees), `String` (`ser` of the reified tree), `FormatString` — are functions FROM the heap that
do not return a heap at all: in the model there is no heap after the call other than the one
before it. The trivial formal counterpart: -/

/-- an observer `f` seen as a heap transformer is the identity on the heap -/
def observe {α : Type} (f : Heap → α) (h : Heap) : Heap × α := (h, f h)

theorem C09_pure_values {α : Type} (f : Heap → α) (h : Heap) : (observe f h).1 = h := rfl

example (a : Nat) : Heap → List Val := fun h => L.slice h a
example (a : Nat) (k : Kind) : Heap → List Val := fun h => L.sliceK h a k
example (a : Nat) (v : Val) : Heap → Bool := fun h => L.contains h a v
example (a : Nat) (v : Val) : Heap → Int := fun h => L.indexOf h a v
example (a : Nat) (f : Int → Val → Int) : Heap → Int := fun h => L.reduce h a 0 f
example (a : Nat) (k : Kind) (f : Int → Val → Int) : Heap → Int := fun h => L.reduceK h a k 0 f
example (a : Nat) : Heap → List (Str × Val) := fun h => O.dict h a
example (a : Nat) (v : Val) : Heap → Bool := fun h => O.contains h a v
example (a : Nat) (v : Val) : Heap → Out Str := fun h => O.keyOf h a v
example (v w : Val) : Heap → Option Bool := fun h =>
  (reifyF h v).bind (fun t => (reifyF h w).map (fun u => equalsJ t u))

/-! ## 2. the result has its own top-level storage -/

/-- the result container is a cell that did not exist before the call -/
theorem C09_fresh (h : Heap) (op : DOp) (r : Ref) (hr : (derive h op).2 = some r) :
    h.length ≤ r.addr ∧ r.addr < (derive h op).1.length :=
  (derive_spec h op).fresh r hr

example : derive c09H (.filter 0 (fun v => v.kind == .int)) =
    (c09H ++ [.list [.int 3] 0], some ⟨3, 0⟩) := by
  simp [derive, L.filter, L.filterLoop, c09H, Heap.items, Heap.getVal, Val.kind]

example : derive c09H (.keys 2) = (c09H ++ [.list [.str ['k'], .str ['n']] 0], some ⟨3, 0⟩) := by
  simp [derive, O.keys, c09H, Heap.fields]

/-- sharing of nested containers is by reference: the `Filter` result holds the very reference
`<list 1>` the receiver holds (top-level slots are separate cells 0 and 3) -/
example : (derive c09H (.filter 0 (fun _ => true))).1.items 3 = c09H.items 0 := by
  simp [derive, L.filter, L.filterLoop, c09H, Heap.items, Heap.getVal, Heap.ego]

/-! ## 3. independence of receiver, argument and results -/

/-- two derivations one after the other (`h → h1 → h2`, any two operations, the second from any
receiver — the same one, the first result, …): the receiver / arguments (old cells `a`, `b`),
the first and the second result are pairwise distinct cells … -/
theorem C09_distinct (h : Heap) (op1 op2 : DOp) (r1 r2 : Ref)
    (h1 : (derive h op1).2 = some r1) (h2 : (derive (derive h op1).1 op2).2 = some r2)
    (a : Nat) (ha : a < h.length) :
    a < r1.addr ∧ r1.addr < r2.addr ∧ r2.addr < (derive (derive h op1).1 op2).1.length := by
  have f1 := C09_fresh h op1 r1 h1
  have f2 := C09_fresh _ op2 r2 h2
  omega

/-- … and any mutator (any arguments, also a panicking call) applied to one cell `t` leaves every
other existing cell — in particular the top-level slots of the other three of
`{receiver, argument, result₁, result₂}` — exactly as it was -/
theorem C09_frame (hh : Heap) (m : MOp) (x : Nat) (hx : x < hh.length) (hne : x ≠ m.target) :
    (stepM hh m)[x]? = hh[x]? ∧ (stepM hh m).items x = hh.items x ∧
    (stepM hh m).fields x = hh.fields x := by
  have e := (stepM_ext hh m).other x hx hne
  exact ⟨e, items_congr e, fields_congr e⟩

/-- the statement of C09 in one piece: after `h → h1 → h2` with results `r1`, `r2`, for old cells
`a` (the receiver) and `b` (the argument), a mutator on any one of the four leaves the slots of
the (other) three unchanged -/
theorem C09_independent (h : Heap) (op1 op2 : DOp) (r1 r2 : Ref)
    (hr1 : (derive h op1).2 = some r1) (hr2 : (derive (derive h op1).1 op2).2 = some r2)
    (a b : Nat) (ha : a < h.length) (hb : b < h.length) (m : MOp)
    (ht : m.target = a ∨ m.target = b ∨ m.target = r1.addr ∨ m.target = r2.addr)
    (x : Nat) (hx : x = a ∨ x = b ∨ x = r1.addr ∨ x = r2.addr) (hne : x ≠ m.target) :
    let h2 := (derive (derive h op1).1 op2).1
    (stepM h2 m).items x = h2.items x ∧ (stepM h2 m).fields x = h2.fields x ∧
    (stepM h2 m)[x]? = h2[x]? := by
  intro h2
  have d := C09_distinct h op1 op2 r1 r2 hr1 hr2
  have hx2 : x < (derive (derive h op1).1 op2).1.length := by
    have := d a ha
    have := d b hb
    rcases hx with rfl | rfl | rfl | rfl <;> omega
  have := C09_frame h2 m x hx2 hne
  exact ⟨this.2.1, this.2.2, this.1⟩

/-- the same for a whole program of mutators all applied to the one cell `t` -/
theorem C09_independent_program (hh : Heap) (ops : List MOp) (t x : Nat) (hx : x < hh.length)
    (hne : x ≠ t) (ht : ∀ op ∈ ops, op.target = t) :
    (runM hh ops)[x]? = hh[x]? ∧ (runM hh ops).items x = hh.items x ∧
    (runM hh ops).fields x = hh.fields x := by
  have ag := runM_agreeOn x (x + 1) hh ops (by omega)
    (fun op ho => by rw [ht op ho]; omega) x (Nat.le_refl _) (by omega)
  exact ⟨ag, items_congr ag, fields_congr ag⟩

/-- non-vacuity of `C09_independent`: `Filter` then `SubList` from list 0 of `c09H`, then `Add`
(with a nested native argument) on the first result -/
example :
    let h2 := (derive (derive c09H (.filter 0 (fun _ => true))).1 (.subList 0 0 2)).1
    (stepM h2 (.add 3 [.slice .any [.nil]])).items 0 = h2.items 0 ∧
    (stepM h2 (.add 3 [.slice .any [.nil]])).items 4 = h2.items 4 := by
  have hr1 : (derive c09H (.filter 0 (fun _ => true))).2 = some ⟨3, 0⟩ := by
    simp [derive, L.filter, c09H]
  have hr2 : (derive (derive c09H (.filter 0 (fun _ => true))).1 (.subList 0 0 2)).2 = some ⟨4, 0⟩ := by
    simp [derive, L.filter, L.subList, L.count, c09H, Heap.items, outRef]
  intro h2
  exact ⟨(C09_independent c09H _ _ _ _ hr1 hr2 0 0 (by decide) (by decide) (.add 3 [.slice .any [.nil]])
      (Or.inr (Or.inr (Or.inl rfl))) 0 (Or.inl rfl) (by decide)).1,
    (C09_independent c09H _ _ _ _ hr1 hr2 0 0 (by decide) (by decide) (.add 3 [.slice .any [.nil]])
      (Or.inr (Or.inr (Or.inl rfl))) 4 (Or.inr (Or.inr (Or.inr rfl))) (by decide)).1⟩

/-! ## Storage level: a derived list owns a new array

The statements above are about cells of the heap model, where a list is a plain sequence.  At the level of
backing arrays (`Model/Slices`): a list made by `Concat`, `SubList`, `Clone`, `NewList*` lives in an array that
did not exist before the call (so nothing that existed can reach it), the call leaves every existing list as it
was, and whatever is later done to any other list never shows in it. -/

theorem C09_slice_fresh {α : Type} (cfg : Slices.Cfg α) (sorted : List α → List α) (σ : Slices.SHeap α)
    (hw : σ.WF) (op : Slices.Op α) (c : Nat) (h : (Slices.step cfg sorted σ op).2 = .made c) :
    c = σ.cells.length ∧ ∃ s, (Slices.step cfg sorted σ op).1.cells[c]? = some s ∧ σ.mem.length ≤ s.arr :=
  Slices.made_fresh cfg sorted σ hw op c h

/-- a deriving operation (one that is not called *on* a list to change it) leaves every existing list as it was -/
theorem C09_slice_pure {α : Type} (cfg : Slices.Cfg α) (sorted : List α → List α) (σ : Slices.SHeap α)
    (hw : σ.WF) (op : Slices.Op α) (hop : op.tgt = none) (d : Nat) (hd : d < σ.cells.length) :
    (Slices.step cfg sorted σ op).1.abs[d]? = σ.abs[d]? :=
  Slices.step_frame cfg sorted σ hw op d hd (by rw [hop]; exact fun h => nomatch h)

/-- after a derivation, any operation on any other list (the receiver, the argument, another result) leaves the
derived list as it is — whatever the capacities and the growth policy -/
theorem C09_slice_independent {α : Type} (cfg : Slices.Cfg α) (sorted : List α → List α) (σ : Slices.SHeap α)
    (hw : σ.WF) (op : Slices.Op α) (c : Nat) (h : (Slices.step cfg sorted σ op).2 = .made c)
    (op2 : Slices.Op α) (hne : op2.tgt ≠ some c) :
    (Slices.step cfg sorted (Slices.step cfg sorted σ op).1 op2).1.abs[c]? = (Slices.step cfg sorted σ op).1.abs[c]? := by
  have hw1 := Slices.step_wf cfg sorted σ hw op
  obtain ⟨hc, s, hs, _⟩ := Slices.made_fresh cfg sorted σ hw op c h
  have hlt : c < (Slices.step cfg sorted σ op).1.cells.length := by
    rcases Nat.lt_or_ge c (Slices.step cfg sorted σ op).1.cells.length with h1 | h1
    · exact h1
    · rw [List.getElem?_eq_none h1] at hs; cases hs
  exact Slices.step_frame cfg sorted _ hw1 op2 c hlt hne


#print axioms C09_derive_table
#print axioms C09_outRef
#print axioms C09_pure
#print axioms C09_pure_observable
#print axioms C09_pure_values
#print axioms C09_fresh
#print axioms C09_distinct
#print axioms C09_frame
#print axioms C09_independent
#print axioms C09_independent_program
#print axioms C09_slice_fresh
#print axioms C09_slice_pure
#print axioms C09_slice_independent

end Anytype
