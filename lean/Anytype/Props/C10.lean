/-
C10 — GetTF / TypeOfTF.

"For every container tree and every tree-form path made of '.key' segments (objects) and
'#index' segments (lists), with non-empty keys free of '.' and '#' and non-negative decimal
indices, GetTF returns exactly what applying Get segment by segment returns (the identical nested
container, or the equal scalar) and TypeOfTF returns that value's kind. If some step cannot be taken
(missing key, index out of range, a scalar or the other container kind in the way, wrong leading
sigil, empty or non-numeric segment) TypeOfTF returns TypeUndefined without panicking and GetTF
panics, and neither call modifies the tree."

Vocabulary (`Anytype/Lemmas/TreeForm.lean`, namespace `TFP`):
`Seg`, `render : List Seg → Str`, `segments : Str → Option (List Seg)` (the grammar),
`navigate h v p` (Get segment by segment), `ValidPath p` (keys non-empty and sigil-free, indices
`< 2^63`), `getTF h v s` / `typeTF h v s` (the calls on a root value `v`, fuel `len(s)+1`).
The theorems hold for EVERY heap (also cyclic or dangling ones) and every root value.
-/
import Anytype.Lemmas.TreeFormMalformed
namespace Anytype
open TFP

namespace C10
/-- cell 0: `{"a": <list 1>, "n": 7}`, cell 1: `[5, <object 2>]`, cell 2: `{"k": "v"}` -/
def exT : Heap :=
  [.obj [(['a'], .list ⟨1, 0⟩), (['n'], .int 7)] 0,
   .list [.int 5, .obj ⟨2, 0⟩] 0,
   .obj [(['k'], .str ['v'])] 0]
def root : Val := .obj ⟨0, 0⟩
/-- `.a#1.k` -/
def exP : List Seg := [.key ['a'], .idx 1, .key ['k']]
/-- `.a#1` -/
def exQ : List Seg := [.key ['a'], .idx 1]
/-- `.a#7.k`: index out of range -/
def exBad : List Seg := [.key ['a'], .idx 7, .key ['k']]
/-- finding K1: `NewObject(".a", 1)` and the text `..a` -/
def k1H : Heap := [.obj [(['.', 'a'], .int 1)] 0]
end C10
open C10

/-! ## 0. the grammar is exactly the image of `render` -/

theorem C10_grammar_render (p : List Seg) (hne : p ≠ [])
    (hk : ∀ s ∈ p, ∀ k, s = .key k → ValidKey k) : segments (render p) = some p :=
  segments_render p hne hk

example : exP ≠ [] ∧ (∀ s ∈ exP, ∀ k, s = .key k → ValidKey k) ∧
    render exP = ['.', 'a', '#', '1', '.', 'k'] :=
  ⟨by decide, fun s hs k e => by subst e; exact (by decide : ValidPath exP) _ hs, by decide⟩

theorem C10_grammar_iff (s : Str) (p : List Seg) :
    segments s = some p ↔ s = render p ∧ p ≠ [] ∧ ∀ x ∈ p, ∀ k, x = .key k → ValidKey k :=
  segments_iff s p

/-- a '#'-segment of the grammar is a canonical decimal numeral: non-empty, only digits, no leading
zero except "0" itself; its index is the decimal value -/
theorem C10_grammar_canonical (b : Str) (n : Nat) :
    canonNat b = some n ↔
      (b ≠ [] ∧ (∀ c ∈ b, isDigit c = true) ∧ (b = ['0'] ∨ b.head? ≠ some '0')) ∧ n = decVal b 0 :=
  canonNat_iff b n

example : canonNat ['1', '0'] = some 10 ∧ canonNat ['0', '1'] = none ∧ canonNat ['0'] = some 0 ∧
    canonNat ['+', '1'] = none ∧ canonNat [] = none := by decide

/-! ## 1. fuel: the results do not depend on the fuel once `fuel > len(tf)` -/

theorem C10_fuel_get (h : Heap) (a : Nat) (tf : Str) (n : Nat) (hn : tf.length < n) :
    TF.getL n h a tf = TF.getL (tf.length + 1) h a tf ∧ TF.getO n h a tf = TF.getO (tf.length + 1) h a tf :=
  get_fuel h n (tf.length + 1) a tf hn (Nat.lt_succ_self _)

theorem C10_fuel_type (h : Heap) (a : Nat) (tf : Str) (n : Nat) (hn : tf.length < n) :
    TF.typeL n h a tf = TF.typeL (tf.length + 1) h a tf ∧
    TF.typeO n h a tf = TF.typeO (tf.length + 1) h a tf :=
  type_fuel h n (tf.length + 1) a tf hn (Nat.lt_succ_self _)

example : (['#', '0'] : Str).length < 5 := by decide

/-! ## 2. the arithmetic of one step -/

theorem C10_parse_canonical (n : Nat) (hn : n < 2 ^ 63) :
    parseIntBase0 (Nat.toDigits 10 n) = some (n : Int) := parseIdx_toDigits n hn

example : (12 : Nat) < 2 ^ 63 ∧ Nat.toDigits 10 12 = ['1', '2'] ∧ Nat.toDigits 10 0 = ['0'] := by decide

/-- `TF.split` on a rendered path minus its leading sigil: the first segment's text, and the
rendering of the remaining segments (`leaf` when there are none) -/
theorem C10_split_render (s : Seg) (q : List Seg) (hs : s.Valid) :
    TF.split (s.text ++ render q) =
      match q with
      | [] => .leaf s.text
      | .key _ :: _ => .dot s.text (render q)
      | .idx _ :: _ => .hash s.text (render q) := split_render s q hs

theorem C10_strip_render (c : Char) (s : Seg) (q : List Seg) (hs : s.Valid) :
    TF.strip c (render (s :: q)) = if s.sigil = c then some (s.text ++ render q) else none :=
  strip_render c s q hs

example : (Seg.key ['a']).Valid ∧ (Seg.idx 3).Valid := by decide

/-! ## 3. resolved paths -/

/-- GetTF returns exactly what Get applied segment by segment returns (for a container: the
reference `h.getVal` gives, i.e. the identical nested container) and TypeOfTF its kind -/
theorem C10_resolved (h : Heap) (v r : Val) (p : List Seg) (hne : p ≠ []) (hv : ValidPath p)
    (hn : navigate h v p = some r) :
    getTF h v (render p) = .ok r ∧ typeTF h v (render p) = r.kind :=
  resolved_V h p hne hv _ v r (Nat.lt_succ_self _) hn

example : exP ≠ [] ∧ ValidPath exP ∧ navigate exT root exP = some (.str ['v']) := by decide
example : getTF exT root (render exP) = .ok (.str ['v']) ∧ typeTF exT root (render exP) = .string :=
  C10_resolved exT root _ exP (by decide) (by decide) (by decide)
/-- a container result is the reference itself -/
example : navigate exT root exQ = some (.obj ⟨2, 0⟩) := by decide

/-- the same over the grammar -/
theorem C10_resolved_text (h : Heap) (v r : Val) (s : Str) (p : List Seg) (hs : segments s = some p)
    (hi : ∀ n, Seg.idx n ∈ p → n < 2 ^ 63) (hn : navigate h v p = some r) :
    getTF h v s = .ok r ∧ typeTF h v s = r.kind := by
  obtain ⟨rfl, hne, hk⟩ := segments_some hs
  refine C10_resolved h v r p hne ?_ hn
  intro x hx
  cases x with
  | key k => exact hk _ hx k rfl
  | idx n => exact hi n hx

example : segments ['.', 'a', '#', '1', '.', 'k'] = some exP := by decide

/-! ## 4. unresolved paths -/

theorem C10_unresolved (h : Heap) (v : Val) (p : List Seg) (hne : p ≠ []) (hv : ValidPath p)
    (hn : navigate h v p = none) :
    typeTF h v (render p) = .undefined ∧ (getTF h v (render p)).isPanic = true :=
  unresolved_V h p hne hv _ v (Nat.lt_succ_self _) hn

example : exBad ≠ [] ∧ ValidPath exBad ∧ navigate exT root exBad = none := by decide
/-- wrong leading sigil for the root kind -/
example : navigate exT root [.idx 0] = none := by decide
/-- a scalar in the way -/
example : navigate exT root [.key ['n'], .key ['x']] = none := by decide
/-- the other container kind in the way -/
example : navigate exT root [.key ['a'], .key ['x']] = none := by decide

theorem C10_unresolved_text (h : Heap) (v : Val) (s : Str) (p : List Seg) (hs : segments s = some p)
    (hi : ∀ n, Seg.idx n ∈ p → n < 2 ^ 63) (hn : navigate h v p = none) :
    typeTF h v s = .undefined ∧ (getTF h v s).isPanic = true := by
  obtain ⟨rfl, hne, hk⟩ := segments_some hs
  refine C10_unresolved h v p hne ?_ hn
  intro x hx
  cases x with
  | key k => exact hk _ hx k rfl
  | idx n => exact hi n hx

example : segments ['.', 'a', '#', '7', '.', 'k'] = some exBad ∧ (∀ n, Seg.idx n ∈ exBad → n < 2 ^ 63) := by
  refine ⟨by decide, ?_⟩
  intro n hn
  have : n = 7 := by simpa [exBad] using hn
  subst this; decide

/-- an index that does not fit a Go `int` is a parse error (`ParseInt` fails) -/
theorem C10_parse_overflow (n : Nat) (hn : 2 ^ 63 ≤ n) :
    parseIntBase0 (Nat.toDigits 10 n) = none := parseIdx_toDigits_big n hn

example : (2 : Nat) ^ 63 ≤ 9223372036854775808 := by decide

/-- a path through an index that does not fit a Go `int` (prefix well-formed, anything after it):
`ParseInt` fails, so undefined / panic -/
theorem C10_overflow (h : Heap) (v : Val) (pre post : List Seg) (m : Nat) (hpre : ValidPath pre)
    (hm : 2 ^ 63 ≤ m) :
    typeTF h v (render (pre ++ .idx m :: post)) = .undefined ∧
    (getTF h v (render (pre ++ .idx m :: post))).isPanic = true := by
  have ht := overflow_V h m hm post pre hpre ((render (pre ++ .idx m :: post)).length + 1) v
  exact ⟨ht, (type_undefined_iff_get_panic h _ v _).1 ht⟩

example : ValidPath [Seg.key ['a']] ∧ (2 : Nat) ^ 63 ≤ 9223372036854775808 := by decide

/-! ## 5. texts outside the grammar -/

/-- Full statement. The two exclusions are exactly the places where the property is silent
(`NonCanonicalNumeral`: a '#'-segment that is not a canonical decimal but that
`strconv.ParseInt(·, 0, 64)` accepts as a non-negative number, e.g. `#010`, `#0x2`, `#+1`, `#1_0`)
or known to fail (`SigilLeafKey`, finding K1: after an EMPTY segment the whole rest of the text,
sigils included, is looked up as one key of the object reached so far). -/
theorem C10_malformed (h : Heap) (v : Val) (s : Str) (hs : segments s = none)
    (hnc : ¬ NonCanonicalNumeral s) (hk1 : ¬ SigilLeafKey h v s) :
    typeTF h v s = .undefined ∧ (getTF h v s).isPanic = true :=
  malformed_V h _ v s hs hnc hk1

/-- the same with decidable sufficient checks for the two exclusions: no '#' is followed by a
non-canonical numeral that ParseInt accepts (`ncCheck`), and the text has no empty segment
(`hasEmptySeg`: a sigil directly followed by a sigil) -/
theorem C10_malformed_checked (h : Heap) (v : Val) (s : Str) (hs : segments s = none)
    (hnc : ncCheck s = false) (he : hasEmptySeg s = false) :
    typeTF h v s = .undefined ∧ (getTF h v s).isPanic = true :=
  C10_malformed h v s hs (not_nonCanonical_of_check hnc) (not_sigilLeafKey_of_check he)

/-- (a) the empty text and single characters; (b) a wrong leading sigil / no sigil at all;
(c) a trailing sigil; (d) a '#'-segment that is not a number; a negative index -/
example : ∀ s ∈ ([[], ['.'], ['#'], ['a'], ['a', '.', 'b'], ['.', 'a', '.'], ['.', 'a', '#'],
      ['.', 'a', '#', 'x'], ['.', 'a', '#', '1', 'x', '.', 'k'], ['.', 'a', '#', '-', '1']] : List Str),
    segments s = none ∧ ncCheck s = false ∧ hasEmptySeg s = false := by decide

example : typeTF exT root ['.', 'a', '#', 'x'] = .undefined ∧ (getTF exT root ['.', 'a', '#', 'x']).isPanic = true :=
  C10_malformed_checked exT root _ (by decide) (by decide) (by decide)

/-- an empty segment that is NOT followed by a key of the object there: undefined / panic
(here `.a..k`: the receiver of the empty segment is a list) -/
example : segments ['.', 'a', '.', '.', 'k'] = none ∧ ncCheck ['.', 'a', '.', '.', 'k'] = false ∧
    typeTF exT root ['.', 'a', '.', '.', 'k'] = .undefined := by decide

/-- the texts the first exclusion is about -/
example : ∀ s ∈ ([['#', '0', '1', '0'], ['#', '0', 'x', '2'], ['#', '+', '1'], ['#', '1', '_', '0'],
      ['#', '-', '0']] : List Str), segments s = none ∧ ncCheck s = true := by decide

/-- the K1 exclusion is tight: EVERY instance of `SigilLeafKey` is a text outside the grammar on
which TypeOfTF is not `undefined` and GetTF does not panic -/
theorem C10_sigil_leaf_exact (h : Heap) (v : Val) (s : Str) (hk : SigilLeafKey h v s) :
    segments s = none ∧ typeTF h v s ≠ .undefined ∧ (getTF h v s).isPanic = false :=
  ⟨segments_none_of_sigilLeafKey hk, (sigilLeafKey_resolves hk).1, (sigilLeafKey_resolves hk).2⟩

/-- K1 documented: a text outside the grammar that resolves -/
theorem C10_sigil_leaf_counterexample :
    ∃ (h : Heap) (v : Val) (s : Str), segments s = none ∧ typeTF h v s ≠ .undefined :=
  ⟨k1H, .obj ⟨0, 0⟩, ['.', '.', 'a'], by decide, by decide⟩

/-- … and it is an instance of `SigilLeafKey` -/
example : SigilLeafKey k1H (.obj ⟨0, 0⟩) ['.', '.', 'a'] :=
  ⟨[], ['.', 'a'], ⟨0, 0⟩, rfl, ⟨'.', ['a'], rfl, rfl⟩, by decide, rfl, rfl⟩

/-- K1 is not confined to the last segment: after the empty segment the WHOLE rest of the text is
the key (`NewObject(".a.b", 1).TypeOfTF("..a.b") == TypeInt`) -/
theorem C10_sigil_leaf_counterexample_deep :
    segments ['.', '.', 'a', '.', 'b'] = none ∧
    typeTF [.obj [(['.', 'a', '.', 'b'], .int 1)] 0] (.obj ⟨0, 0⟩) ['.', '.', 'a', '.', 'b'] = .int := by
  decide

/-! ## 6. totality, no modification -/

/-- `TF.typeL/typeO` return a `Kind` and `TF.getL/getO` an `Out Val`: by their types TypeOfTF cannot
panic and neither call returns a heap, so the tree is not modified. On EVERY text (inside the
grammar or not) TypeOfTF answers `undefined` exactly when GetTF panics. -/
theorem C10_total (h : Heap) (v : Val) (s : Str) :
    typeTF h v s = .undefined ↔ (getTF h v s).isPanic = true :=
  type_undefined_iff_get_panic h _ v s

/-- for a well-formed path: undefined / panic exactly when Get segment by segment fails -/
theorem C10_total_path (h : Heap) (v : Val) (p : List Seg) (hne : p ≠ []) (hv : ValidPath p) :
    (typeTF h v (render p) = .undefined ↔ navigate h v p = none) ∧
    ((getTF h v (render p)).isPanic = true ↔ navigate h v p = none) := by
  cases hn : navigate h v p with
  | none =>
    obtain ⟨h1, h2⟩ := C10_unresolved h v p hne hv hn
    simp [h1, h2]
  | some r =>
    obtain ⟨h1, h2⟩ := C10_resolved h v r p hne hv hn
    simp [h1, h2, Out.isPanic, val_kind_ne_undefined]

end Anytype

#print axioms Anytype.C10_grammar_render
#print axioms Anytype.C10_grammar_iff
#print axioms Anytype.C10_grammar_canonical
#print axioms Anytype.C10_fuel_get
#print axioms Anytype.C10_fuel_type
#print axioms Anytype.C10_parse_canonical
#print axioms Anytype.C10_split_render
#print axioms Anytype.C10_strip_render
#print axioms Anytype.C10_resolved
#print axioms Anytype.C10_resolved_text
#print axioms Anytype.C10_unresolved
#print axioms Anytype.C10_unresolved_text
#print axioms Anytype.C10_parse_overflow
#print axioms Anytype.C10_overflow
#print axioms Anytype.C10_malformed
#print axioms Anytype.C10_malformed_checked
#print axioms Anytype.C10_sigil_leaf_exact
#print axioms Anytype.C10_sigil_leaf_counterexample_deep
#print axioms Anytype.C10_sigil_leaf_counterexample
#print axioms Anytype.C10_total
#print axioms Anytype.C10_total_path
