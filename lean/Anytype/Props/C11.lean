/-
C11 — SetTF / UnsetTF.

"For every tree, well-formed path p (as in C10) and value v, SetTF(p, v) succeeds and afterwards
GetTF(p) yields v: missing or wrong-kind intermediates are replaced by new containers of the kind
the next segment requires, lists are padded with nil up to the requested index, existing
intermediates of the right kind are reused (not copied), and every entry that is not on the path or
inside a replaced intermediate keeps its previous value. UnsetTF(p) on a resolvable path removes
exactly the addressed object field or list element (later elements of that list shift down by one)
and changes nothing else; on a path that does not resolve the tree is left unchanged."

Vocabulary: as in C10 (`Seg`, `render`, `navigate`, `ValidPath`), plus
`setTF h v s g` / `unsetTF h v s` (the calls on a root value, fuel `len(s)+1`),
`trail h v p` — the addresses of the EXISTING cells SetTF is called on (it follows containers of
the right kind; after the first newly created container only new cells are visited),
`putAt xs i x` — write `x` at index `i`, padding with nil beyond the end,
`mkCell b` / `mkRef b n` — the empty object (`b = true`) or list cell and the reference to cell `n`.
"Tree" enters as `Acyclic h v` (some fuel reifies the value); the sharper hypothesis actually used
is `(trail h v p).Nodup`: no cell is visited twice. On a cyclic heap set-then-get can fail
(`C11_set_get_needs_tree`).
-/
import Anytype.Lemmas.TreeFormAcyclic
import Anytype.Lemmas.Slices
namespace Anytype
open TFP Heap

namespace C11
/-- cell 0: `{"a": <list 1>, "n": 7}`, cell 1: `[5, <object 2>]`, cell 2: `{"k": "v"}` -/
def exT : Heap :=
  [.obj [(['a'], .list ⟨1, 0⟩), (['n'], .int 7)] 0,
   .list [.int 5, .obj ⟨2, 0⟩] 0,
   .obj [(['k'], .str ['v'])] 0]
def root : Val := .obj ⟨0, 0⟩
/-- `.a#1.k` (all intermediates exist) -/
def exP : List Seg := [.key ['a'], .idx 1, .key ['k']]
/-- `.n#3.z`: a scalar in the way, then padding, then a new object -/
def exNew : List Seg := [.key ['n'], .idx 3, .key ['z']]

theorem exT_wf : HeapWF exT := by
  intro a
  rcases a with _ | _ | _ | a <;>
    simp [exT, Heap.items, Heap.fields, Val.okIn, Heap.isList, Heap.isObj]

theorem exT_acyclic : Acyclic exT root :=
  ⟨4, by simp [reify, reifyList, reifyFields, exT, root]⟩

theorem root_ok : Val.okIn exT root := (by decide : exT.isObj 0 = true)

/-- a cyclic heap: cell 0 `[<object 1>]`, cell 1 `{"k": <list 0>}` -/
def cyc : Heap := [.list [.obj ⟨1, 0⟩] 0, .obj [(['k'], .list ⟨0, 0⟩)] 0]
theorem cyc_wf : HeapWF cyc := by
  intro a
  rcases a with _ | _ | a <;>
    simp [cyc, Heap.items, Heap.fields, Val.okIn, Heap.isList, Heap.isObj]
end C11
open C11

/-! ## 0. fuel -/

theorem C11_fuel_set (g : GoVal) (h : Heap) (a : Nat) (tf : Str) (n : Nat) (hn : tf.length < n) :
    TF.setL n h a tf g = TF.setL (tf.length + 1) h a tf g ∧
    TF.setO n h a tf g = TF.setO (tf.length + 1) h a tf g :=
  set_fuel g n (tf.length + 1) h a tf hn (Nat.lt_succ_self _)

theorem C11_fuel_unset (h : Heap) (a : Nat) (tf : Str) (n : Nat) (hn : tf.length < n) :
    TF.unsetL n h a tf = TF.unsetL (tf.length + 1) h a tf ∧
    TF.unsetO n h a tf = TF.unsetO (tf.length + 1) h a tf :=
  unset_fuel n (tf.length + 1) h a tf hn (Nat.lt_succ_self _)

example : (['#', '0'] : Str).length < 5 := by decide

/-! ## 7. the shape of one descent step (the twelve cases: 2 wanted kinds × 6) -/

/-- list, index beyond the end: a new cell of the wanted kind at address `h.length`; the list is
padded with `i - count` nils, then comes the new reference -/
theorem C11_step_shape_list_pad (h : Heap) (a : Nat) (i : Int) (wantObj : Bool)
    (hl : h.isList a = true) (hi : ((h.items a).length : Int) ≤ i) :
    TF.stepL h a i wantObj =
      ((h ++ [mkCell wantObj]).setItems a
        (h.items a ++ List.replicate (i.toNat - (h.items a).length) .nil ++ [mkRef wantObj h.length]),
       .ok h.length) :=
  stepL_pad h a i wantObj hl hi

example : exT.isList 1 = true ∧ ((exT.items 1).length : Int) ≤ 4 := by decide

/-- list, element of the wanted kind: the heap is unchanged and the existing address is returned
(reused, not copied) -/
theorem C11_step_shape_list_reuse (h : Heap) (a : Nat) (i : Int) (wantObj : Bool) (x : Val) (h0 : 0 ≤ i)
    (hx : (h.items a)[i.toNat]? = some x) (hk : x.kind = wantKind wantObj) :
    TF.stepL h a i wantObj = (h, .ok (addrOf x)) :=
  stepL_reuse h a i wantObj x h0 hx hk

example : (0 : Int) ≤ 1 ∧ (exT.items 1)[(1 : Int).toNat]? = some (.obj ⟨2, 0⟩) ∧
    (Val.obj ⟨2, 0⟩).kind = wantKind true := by decide

/-- list, element of another kind (scalar, nil, the other container kind): a new cell at
`h.length`, element `i` replaced by the reference, all other elements unchanged -/
theorem C11_step_shape_list_replace (h : Heap) (a : Nat) (i : Int) (wantObj : Bool) (x : Val) (h0 : 0 ≤ i)
    (hx : (h.items a)[i.toNat]? = some x) (hk : x.kind ≠ wantKind wantObj) :
    TF.stepL h a i wantObj =
      ((h ++ [mkCell wantObj]).setItems a ((h.items a).set i.toNat (mkRef wantObj h.length)),
       .ok h.length) :=
  stepL_replace h a i wantObj x h0 hx hk

example : (0 : Int) ≤ 0 ∧ (exT.items 1)[(0 : Int).toNat]? = some (.int 5) ∧
    (Val.int 5).kind ≠ wantKind true := by decide

/-- object, key of the wanted kind: reused -/
theorem C11_step_shape_obj_reuse (h : Heap) (a : Nat) (k : Str) (wantObj : Bool) (x : Val)
    (hx : lookup (h.fields a) k = some x) (hk : x.kind = wantKind wantObj) :
    TF.stepO h a k wantObj = (h, addrOf x) :=
  stepO_reuse h a k wantObj x hx hk

example : lookup (exT.fields 0) ['a'] = some (.list ⟨1, 0⟩) ∧ (Val.list ⟨1, 0⟩).kind = wantKind false := by
  decide

/-- object, key missing or holding another kind: a new cell at `h.length`, stored under the key -/
theorem C11_step_shape_obj_new (h : Heap) (a : Nat) (k : Str) (wantObj : Bool)
    (hx : ∀ x, lookup (h.fields a) k = some x → x.kind ≠ wantKind wantObj) :
    TF.stepO h a k wantObj =
      ((h ++ [mkCell wantObj]).setFields a (setKV (h.fields a) k (mkRef wantObj h.length)), h.length) :=
  stepO_new h a k wantObj hx

example : ∀ x, lookup (exT.fields 0) ['n'] = some x → x.kind ≠ wantKind false := by
  intro x hx; cases hx; decide
example : ∀ x, lookup (exT.fields 0) ['q'] = some x → x.kind ≠ wantKind true := by
  intro x hx; cases hx

/-- in all cases only cell `a` and the (at most one) new cell differ from `h`, and no cell
changes its kind -/
theorem C11_step_shape_frame_list (h : Heap) (a : Nat) (i : Int) (wantObj : Bool)
    (hl : h.isList a = true) (h0 : 0 ≤ i) :
    FrameAt h (TF.stepL h a i wantObj).1 a ∧ (TF.stepL h a i wantObj).1.length ≤ h.length + 1 :=
  ⟨FrameAt.of_ext (stepL_ext h a i wantObj hl h0).1, (stepL_ext h a i wantObj hl h0).2⟩

theorem C11_step_shape_frame_obj (h : Heap) (a : Nat) (k : Str) (wantObj : Bool) :
    FrameAt h (TF.stepO h a k wantObj).1 a ∧ (TF.stepO h a k wantObj).1.length ≤ h.length + 1 :=
  ⟨FrameAt.of_ext (stepO_ext h a k wantObj).1, (stepO_ext h a k wantObj).2⟩

example : exT.isList 1 = true ∧ (0 : Int) ≤ 5 := by decide

/-- how SetTF on a path uses these steps (`setV` is `TF.setL/setO` dispatched on the receiver value,
with explicit fuel): the last segment stores the value (`setLeaf`: `Add` after padding / `Replace` /
`Set`), every other segment makes one descent step asking for the kind the NEXT segment needs
(`stepV` is `TF.stepL` / `TF.stepO`) and continues in the container it returns -/
theorem C11_set_unfold (n : Nat) (h : Heap) (v : Val) (s : Seg) (q : List Seg) (g : GoVal) (hs : s.Valid) :
    setV (n + 1) h v (render (s :: q)) g =
      match q with
      | [] => setLeaf h v s g
      | s' :: _ =>
        match stepV h v s s'.isKey with
        | (h1, .panic p) => (h1, .panic p)
        | (h1, .ok c) => setV n h1 (mkRef s'.isKey c) (render q) g :=
  setV_cons n h v s q g hs

/-- the step in terms of Get: if `Get` yields a container of the wanted kind it is reused and the
heap is untouched; in every other case (missing key, index beyond the end, nil, scalar, the other
container kind) a new empty container is allocated at `h.length` and stored in the slot
(`leafHeap … = putAt` / `setKV` on the receiver cell) -/
theorem C11_set_step (h : Heap) (v : Val) (s : Seg) (wantObj : Bool) (wf : HeapWF h) (hok : v.okIn h)
    (hk : v.kind = s.kind) :
    (∃ w, navStep h v s = some w ∧ w.kind = wantKind wantObj ∧ w.okIn h ∧
        stepV h v s wantObj = (h, .ok (addrOf w))) ∨
    ((∀ w, navStep h v s = some w → w.kind ≠ wantKind wantObj) ∧
        stepV h v s wantObj =
          (leafHeap (h ++ [mkCell wantObj]) v s (mkRef wantObj h.length), .ok h.length)) :=
  stepV_cases wf ⟨hok, hk⟩ wantObj

example : Val.okIn exT root ∧ root.kind = (Seg.key ['n']).kind := ⟨root_ok, by decide⟩

/-- the last segment with a scalar value (or an existing container passed by reference) -/
theorem C11_set_leaf (h : Heap) (v : Val) (s : Seg) (g : GoVal) (hok : v.okIn h) (hk : v.kind = s.kind)
    (hg : g.isScalar = true) : setLeaf h v s g = (leafHeap h v s (scalarVal g), .ok ()) :=
  setLeaf_scalar ⟨hok, hk⟩ hg

/-! ## 8. set, then get -/

/-- SetTF succeeds and afterwards GetTF yields the stored value (for a scalar the equal scalar,
for a container reference the identical container) — provided no cell is visited twice -/
theorem C11_set_get (h : Heap) (v : Val) (p : List Seg) (g : GoVal) (hne : p ≠ []) (hv : ValidPath p)
    (wf : HeapWF h) (hok : v.okIn h) (hk : ∀ s ∈ p.head?, v.kind = s.kind)
    (hg : g.isScalar = true) (hnd : (trail h v p).Nodup) :
    (setTF h v (render p) g).2 = .ok () ∧
    getTF (setTF h v (render p) g).1 v (render p) =
      .ok ((setTF h v (render p) g).1.getVal (scalarVal g)) :=
  set_get_V g hg p hne hv _ h v wf hok hk hnd (Nat.lt_succ_self _)

example : exP ≠ [] ∧ ValidPath exP ∧ Val.okIn exT root ∧ (∀ s ∈ exP.head?, root.kind = s.kind) ∧
    (GoVal.str ['w']).isScalar = true ∧ (trail exT root exP).Nodup := by
  refine ⟨by decide, by decide, root_ok, by decide, by decide, by decide⟩

/-- the statement for trees (and DAGs): `Acyclic h v` -/
theorem C11_set_get_tree (h : Heap) (v : Val) (p : List Seg) (g : GoVal) (hne : p ≠ []) (hv : ValidPath p)
    (wf : HeapWF h) (hok : v.okIn h) (hk : ∀ s ∈ p.head?, v.kind = s.kind)
    (hg : g.isScalar = true) (hac : Acyclic h v) :
    (setTF h v (render p) g).2 = .ok () ∧
    getTF (setTF h v (render p) g).1 v (render p) =
      .ok ((setTF h v (render p) g).1.getVal (scalarVal g)) := by
  refine C11_set_get h v p g hne hv wf hok hk hg (trail_nodup_of_acyclic h p v ?_ hac)
  cases p with
  | nil => exact absurd rfl hne
  | cons s q => exact isContainer_of_kind (hk s (by simp))

example : getTF (setTF exT root (render exNew) (.str ['w'])).1 root (render exNew) = .ok (.str ['w']) :=
  (C11_set_get_tree exT root exNew (.str ['w']) (by decide) (by decide) exT_wf root_ok (by decide)
    (by decide) exT_acyclic).2

/-- the tree hypothesis is needed: on the cyclic heap `cyc` the path `#0.k#0` comes back to the
root list and overwrites the element the path goes through -/
theorem C11_set_get_needs_tree :
    HeapWF cyc ∧ (setTF cyc (.list ⟨0, 0⟩) ['#', '0', '.', 'k', '#', '0'] (.str ['x'])).2.isPanic = false ∧
    (getTF (setTF cyc (.list ⟨0, 0⟩) ['#', '0', '.', 'k', '#', '0'] (.str ['x'])).1 (.list ⟨0, 0⟩)
      ['#', '0', '.', 'k', '#', '0']).isPanic = true :=
  ⟨cyc_wf, by decide, by decide⟩

/-! ## 9. frame of SetTF -/

/-- no cell is lost, no cell changes its kind, and every existing cell that is not on the trail is
identical afterwards (any value `g`, also one that is converted into new containers) -/
theorem C11_set_frame (h : Heap) (v : Val) (p : List Seg) (g : GoVal) (hne : p ≠ []) (hv : ValidPath p)
    (wf : HeapWF h) (hok : v.okIn h) :
    h.length ≤ (setTF h v (render p) g).1.length ∧
    (∀ b, b < h.length → ((setTF h v (render p) g).1.isList b = h.isList b ∧
        (setTF h v (render p) g).1.isObj b = h.isObj b ∧ (setTF h v (render p) g).1.ego b = h.ego b)) ∧
    ∀ b, b < h.length → b ∉ trail h v p → (setTF h v (render p) g).1[b]? = h[b]? := by
  obtain ⟨m, fr⟩ := set_frame_V g p hne hv _ h v wf hok (Nat.lt_succ_self _)
  exact ⟨m.len, fun b hb => ⟨isList_of_shape (m.shape b hb), isObj_of_shape (m.shape b hb),
    ego_of_shape (m.shape b hb)⟩, fr⟩

example : exNew ≠ [] ∧ ValidPath exNew ∧ HeapWF exT ∧ Val.okIn exT root :=
  ⟨by decide, by decide, exT_wf, root_ok⟩
example : trail exT root exP = [0, 1, 2] ∧ trail exT root exNew = [0] := by decide

/-- inside every existing cell the path goes through (`p = pre ++ s :: post`, `pre` resolves to a
container `c` of the kind `s` applies to) only the slot `s` addresses changes: for a list every
other position that existed keeps its element, for an object every other key keeps its value -/
theorem C11_set_frame_slots (h : Heap) (v c : Val) (pre : List Seg) (s : Seg) (post : List Seg) (g : GoVal)
    (hv : ValidPath (pre ++ s :: post)) (wf : HeapWF h) (hok : v.okIn h) (hg : g.isScalar = true)
    (hn : navigate h v pre = some c) (hk : c.kind = s.kind)
    (hnd : (trail h v (pre ++ s :: post)).Nodup) :
    SlotsKept h (setTF h v (render (pre ++ s :: post)) g).1 c s :=
  set_slot_path g hg s post pre hv _ h v c wf hok hn hk hnd (Nat.lt_succ_self _)

/-- `SlotsKept` spelled out -/
theorem C11_slotsKept_idx (h h' : Heap) (c : Val) (i : Nat) :
    SlotsKept h h' c (.idx i) ↔ ∀ j, j ≠ i → j < (h.items (addrOf c)).length →
      (h'.items (addrOf c))[j]? = (h.items (addrOf c))[j]? := Iff.rfl
theorem C11_slotsKept_key (h h' : Heap) (c : Val) (k : Str) :
    SlotsKept h h' c (.key k) ↔ ∀ k', k' ≠ k →
      lookup (h'.fields (addrOf c)) k' = lookup (h.fields (addrOf c)) k' := Iff.rfl

example : ValidPath ([Seg.key ['a']] ++ Seg.idx 1 :: [Seg.key ['k']]) ∧
    navigate exT root [.key ['a']] = some (.list ⟨1, 0⟩) ∧
    (Val.list ⟨1, 0⟩).kind = (Seg.idx 1).kind ∧
    (trail exT root ([Seg.key ['a']] ++ Seg.idx 1 :: [Seg.key ['k']])).Nodup := by decide

/-! ## 10. UnsetTF on a resolvable path -/

/-- `p = q ++ [last]`, `q` resolves to the container `c` and `last` resolves in `c`: UnsetTF
succeeds and the heap is `h` with exactly that field / element removed -/
theorem C11_unset_ok (h : Heap) (v c x : Val) (q : List Seg) (last : Seg) (hv : ValidPath (q ++ [last]))
    (hq : navigate h v q = some c) (hx : navStep h c last = some x) :
    unsetTF h v (render (q ++ [last])) = (unsetSpec h c last, .ok ()) :=
  unset_ok_V h last (hv last (by simp)) q (fun s hs => hv s (by simp [hs])) _ v c x
    (Nat.lt_succ_self _) hq hx

/-- the same from `navigate h v p = some _` -/
theorem C11_unset_ok_path (h : Heap) (v x : Val) (q : List Seg) (last : Seg) (hv : ValidPath (q ++ [last]))
    (hn : navigate h v (q ++ [last]) = some x) :
    ∃ c, navigate h v q = some c ∧ unsetTF h v (render (q ++ [last])) = (unsetSpec h c last, .ok ()) := by
  rw [navigate_append] at hn
  cases hq : navigate h v q with
  | none => simp [hq] at hn
  | some c =>
    simp only [hq, navigate] at hn
    cases hx : navStep h c last with
    | none => simp [hx] at hn
    | some y => exact ⟨c, rfl, C11_unset_ok h v c y q last hv hq hx⟩

example : ValidPath ([Seg.key ['a']] ++ [Seg.idx 0]) ∧
    navigate exT root [Seg.key ['a']] = some (.list ⟨1, 0⟩) ∧
    navStep exT (.list ⟨1, 0⟩) (.idx 0) = some (.int 5) ∧
    navigate exT root ([Seg.key ['a']] ++ [Seg.idx 0]) = some (.int 5) := by decide

/-- what `unsetSpec` is: a removed field -/
theorem C11_unset_ok_key (h : Heap) (r : Ref) (k : Str) (x : Val)
    (hx : navStep h (.obj r) (.key k) = some x) :
    (unsetSpec h (.obj r) (.key k)).fields r.addr = delKV (h.fields r.addr) k ∧
    (unsetSpec h (.obj r) (.key k)).length = h.length ∧
    ∀ b, b ≠ r.addr → (unsetSpec h (.obj r) (.key k))[b]? = h[b]? := by
  have hl : h.isObj r.addr = true := by
    cases hl : h.isObj r.addr with
    | true => rfl
    | false =>
      rw [navStep_key_obj, fields_of_not_isObj hl] at hx
      simp [lookup] at hx
  exact ⟨fields_setFields_same _ hl, length_setFields _ _ _, fun b hb => getElem?_setFields_ne h _ hb⟩

/-- … a removed element: the later elements shift down by one (`List.eraseIdx`) -/
theorem C11_unset_ok_idx (h : Heap) (r : Ref) (i : Nat) (x : Val)
    (hx : navStep h (.list r) (.idx i) = some x) :
    (unsetSpec h (.list r) (.idx i)).items r.addr = (h.items r.addr).eraseIdx i ∧
    (unsetSpec h (.list r) (.idx i)).length = h.length ∧
    ∀ b, b ≠ r.addr → (unsetSpec h (.list r) (.idx i))[b]? = h[b]? := by
  have hl : h.isList r.addr = true := by
    cases hl : h.isList r.addr with
    | true => rfl
    | false =>
      rw [navStep_idx_list, items_of_not_isList hl] at hx
      simp at hx
  exact ⟨items_setItems_same _ hl, length_setItems _ _ _, fun b hb => getElem?_setItems_ne h _ hb⟩

example : navStep exT (.list ⟨1, 0⟩) (.idx 0) = some (.int 5) ∧
    navStep exT (.obj ⟨2, 0⟩) (.key ['k']) = some (.str ['v']) := by decide

/-! ## 11. UnsetTF on a path that does not resolve -/

/-- the heap is unchanged (the call panics, or — a missing last key of an existing object — is a
no-op) -/
theorem C11_unset_no (h : Heap) (v : Val) (p : List Seg) (hne : p ≠ []) (hv : ValidPath p)
    (hn : navigate h v p = none) : (unsetTF h v (render p)).1 = h :=
  unset_no_V h p hne hv _ v (Nat.lt_succ_self _) hn

example : ValidPath [.key ['a'], .idx 9] ∧ navigate exT root [.key ['a'], .idx 9] = none ∧
    navigate exT root [.key ['z', 'z']] = none := by decide


/-! ## Storage level -/

/-- a tree-form write at a leaf of a list, at storage level: inside the list the slot is overwritten in place; at or behind the
end the list grows by the gap of `nil`s and the value — whatever was left behind the length by earlier removals never shows,
for every capacity and growth policy (the padded shape is the one `C11_step_shape_list_pad` gives for the heap model) -/
theorem C11_slice_leaf_write {α : Type} (cfg : Slices.Cfg α) (sorted : List α → List α) (nilv : α) (σ : Slices.SHeap α)
    (hw : σ.WF) (c i : Nat) (v : α) (s : Slices.Slice) (hc : σ.cells[c]? = some s) :
    (Slices.step cfg sorted σ (Slices.leafWrite nilv σ c i v)).1.abs[c]?
      = some (if i < s.len then (Slices.view σ.mem s).set i v
              else Slices.view σ.mem s ++ List.replicate (i - s.len) nilv ++ [v]) := by
  have habs : σ.abs[c]? = some (Slices.view σ.mem s) := by
    simp [Slices.SHeap.abs, hc]
  have hlt : c < σ.abs.length := by
    rcases Nat.lt_or_ge c σ.abs.length with h2 | h2
    · exact h2
    · rw [List.getElem?_eq_none h2] at habs; cases habs
  have hlen : (Slices.view σ.mem s).length = s.len := by
    have := (hw.1 s (List.mem_of_getElem? hc)).2
    simp only [Slices.view, Slices.cap] at *
    rw [List.length_take]; omega
  have hr : (Slices.step cfg sorted σ (Slices.leafWrite nilv σ c i v)).1.abs
      = (Slices.astep sorted σ.abs (Slices.leafWrite nilv σ c i v)).1 := by
    rw [← Slices.step_refines cfg sorted σ hw]
  rw [hr]
  simp only [Slices.leafWrite, hc]
  split
  · rename_i hi
    have hi' : i < (Slices.view σ.mem s).length := by omega
    simp only [Slices.astep, habs, hi', if_true, List.getElem?_set_self hlt]
  · simp only [Slices.astep, habs, List.getElem?_set_self hlt, List.append_assoc]

end Anytype

#print axioms Anytype.C11_fuel_set
#print axioms Anytype.C11_fuel_unset
#print axioms Anytype.C11_step_shape_list_pad
#print axioms Anytype.C11_step_shape_list_reuse
#print axioms Anytype.C11_step_shape_list_replace
#print axioms Anytype.C11_step_shape_obj_reuse
#print axioms Anytype.C11_step_shape_obj_new
#print axioms Anytype.C11_step_shape_frame_list
#print axioms Anytype.C11_step_shape_frame_obj
#print axioms Anytype.C11_set_unfold
#print axioms Anytype.C11_set_step
#print axioms Anytype.C11_set_leaf
#print axioms Anytype.C11_set_get
#print axioms Anytype.C11_set_get_tree
#print axioms Anytype.C11_set_get_needs_tree
#print axioms Anytype.C11_set_frame
#print axioms Anytype.C11_set_frame_slots
#print axioms Anytype.C11_slotsKept_idx
#print axioms Anytype.C11_slotsKept_key
#print axioms Anytype.C11_unset_ok
#print axioms Anytype.C11_unset_ok_path
#print axioms Anytype.C11_unset_ok_key
#print axioms Anytype.C11_unset_ok_idx
#print axioms Anytype.C11_unset_no
#print axioms Anytype.C11_slice_leaf_write
