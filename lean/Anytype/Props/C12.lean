/-
C12 — every value accepted by a constructor or mutator is stored as exactly one of seven kinds;
`Get` returns the matching Go type, `TypeOf` reports the kind, exactly the matching typed getter
succeeds; integer widths become `int`, float32 becomes the exactly equal float64, supported maps and
slices become fresh nested Objects / Lists with recursively normalised content, and a value of any
other Go type is rejected with a panic and is not stored.

All constructors and mutators convert their arguments with `parseVal` (`L.add/insert/replace/new/
newOf/newFrom`, `O.set/new/newFrom`, the `Map*` results), so the statements are about `parseVal`
and about the readers `L.get/getK/typeOf`, `O.get/getK/typeOf`.
-/
import Anytype.Lemmas.Normalize
import Anytype.Lemmas.Float32
namespace Anytype
open Heap

/-- decidable equality of results, for the evaluated examples of this file only -/
local instance C12.outDecEq {α : Type} [DecidableEq α] : DecidableEq (Out α)
  | .ok a, .ok b => if h : a = b then isTrue (by rw [h]) else isFalse (fun e => by cases e; exact h rfl)
  | .panic a, .panic b => if h : a = b then isTrue (by rw [h]) else isFalse (fun e => by cases e; exact h rfl)
  | .ok _, .panic _ => isFalse (fun e => by cases e)
  | .panic _, .ok _ => isFalse (fun e => by cases e)

/-- cell 0: `[nil, true, -7, 1.0, "s", <list 1>, <object 2>]`, cell 1: `[]` registered at level 2,
cell 2: `{"k": nil, "n": 5}` -/
def exN : Heap :=
  [.list [.nil, .bool true, .int (-7), .float F64.one, .str ['s'], .list ⟨1, 0⟩, .obj ⟨2, 0⟩] 0,
   .list [] 2, .obj [(['k'], .nil), (['n'], .int 5)] 0]

/-! ## 1. seven kinds -/

/-- an accepted value is stored with the kind determined by its Go type: nil, bool, every integer
width → int, float32/float64 → float, string, List / slices → list, Object / maps → object -/
theorem C12_kind (h h' : Heap) (g : GoVal) (x : Val) (hp : parseVal h g = (h', .ok x)) :
    some x.kind = kindOfGo g := parseVal_kind h h' g x hp

example : parseVal exN (.intw .u8 200) = (exN, .ok (.int 200)) := by decide
example : kindOfGo (.intw .u8 200) = some .int ∧ kindOfGo (.f32 0) = some .float ∧
    kindOfGo (.slice .string []) = some .list ∧ kindOfGo (.map .any []) = some .object ∧
    kindOfGo .unsupported = none := by decide

/-- a stored value has exactly one of the seven kinds (never `undefined`), and what `Get` hands back
(`getVal`) has the same kind — i.e. the matching Go type -/
theorem C12_seven (h : Heap) (x : Val) :
    x.kind ∈ [Kind.nil, .object, .list, .string, .bool, .int, .float] ∧ (h.getVal x).kind = x.kind := by
  refine ⟨?_, getVal_kind h x⟩
  cases x <;> simp [Val.kind]

/-! ## 2. `Get`, `TypeOf` and the typed getters -/

/-- list: for the value `x` stored at index `i` — `Get` returns it (containers as the registered
outer value), `TypeOf` reports its kind, the typed getter for kind `k` returns the same value iff
`k` is the kind of `x` and panics otherwise; for nil no typed getter succeeds -/
theorem C12_getters_list (h : Heap) (a : Nat) (i : Int) (x : Val) (h0 : 0 ≤ i)
    (hx : (h.items a)[i.toNat]? = some x) :
    L.get h a i = .ok (h.getVal x) ∧ L.typeOf h a i = x.kind ∧
    (∀ k, L.getK h a k i = if k = x.kind then .ok (h.getVal x) else .panic .notKind) ∧
    (∀ k, k.isGetter = true → ((∃ v, L.getK h a k i = .ok v) ↔ k = x.kind)) ∧
    (x = .nil → ∀ k, k.isGetter = true → L.getK h a k i = .panic .notKind) := by
  have hk := fun k => L.getK_stored h a k i x h0 hx
  refine ⟨L.get_stored h a i x h0 hx, L.typeOf_stored h a i x h0 hx, hk, ?_, ?_⟩
  · intro k _
    rw [hk k]
    by_cases e : k = x.kind <;> simp [e]
  · intro hn k hg
    rw [hk k, hn]
    cases k <;> simp_all [Kind.isGetter, Val.kind]

example : (exN.items 0)[(2 : Int).toNat]? = some (.int (-7)) := by decide
example : L.getK exN 0 .int 2 = .ok (.int (-7)) ∧ L.getK exN 0 .float 2 = .panic .notKind ∧
    L.getK exN 0 .list 5 = .ok (.list ⟨1, 2⟩) ∧ L.typeOf exN 0 0 = .nil ∧
    L.getK exN 0 .string 0 = .panic .notKind := by decide

/-- object: the same for the value stored under `key` -/
theorem C12_getters_obj (h : Heap) (a : Nat) (key : Str) (x : Val)
    (hx : lookup (h.fields a) key = some x) :
    O.get h a key = .ok (h.getVal x) ∧ O.typeOf h a key = x.kind ∧
    (∀ k, O.getK h a k key = if k = x.kind then .ok (h.getVal x) else .panic .notKind) ∧
    (∀ k, k.isGetter = true → ((∃ v, O.getK h a k key = .ok v) ↔ k = x.kind)) ∧
    (x = .nil → ∀ k, k.isGetter = true → O.getK h a k key = .panic .notKind) := by
  have hk := fun k => O.getK_stored h a k key x hx
  refine ⟨O.get_stored h a key x hx, O.typeOf_stored h a key x hx, hk, ?_, ?_⟩
  · intro k _
    rw [hk k]
    by_cases e : k = x.kind <;> simp [e]
  · intro hn k hg
    rw [hk k, hn]
    cases k <;> simp_all [Kind.isGetter, Val.kind]

example : lookup (exN.fields 2) ['n'] = some (.int 5) := by decide
example : O.getK exN 2 .int ['n'] = .ok (.int 5) ∧ O.getK exN 2 .bool ['n'] = .panic .notKind ∧
    O.typeOf exN 2 ['k'] = .nil ∧ O.getK exN 2 .object ['k'] = .panic .notKind := by decide

/-! ## 3. integer widths -/

/-- a value of any integer type that is representable as `int` is stored as the same number -/
theorem C12_int (h : Heap) (w : IntW) (v : Int) (hv : InRange v) :
    parseVal h (.intw w v) = (h, .ok (.int v)) := by
  simp only [parseVal, wrap64_of_inRange v hv]

/-- every value of a signed type and of `uint8/16/32` is representable -/
theorem C12_int_widths (w : IntW) (v : Int) (hw : w ≠ .uint ∧ w ≠ .u64) (h : w.inRange v = true) :
    InRange v := IntW.inRange_signed w v hw h

/-- `uint` / `uint64` values beyond the `int` range are stored as their two's-complement
reinterpretation `int(v)` (Go's conversion), not rejected -/
theorem C12_int_unsigned_big (h : Heap) (w : IntW) (v : Int) (h1 : (2:Int)^63 ≤ v) (h2 : v < (2:Int)^64) :
    parseVal h (.intw w v) = (h, .ok (.int (v - (2:Int)^64))) := by
  simp only [parseVal, wrap64_unsigned_big v h1 h2]

example : InRange (-128) ∧ IntW.inRange .i8 (-128) = true ∧ IntW.u32 ≠ .uint ∧ IntW.u32 ≠ .u64 := by decide
example : IntW.inRange .u64 18446744073709551615 = true ∧
    parseVal exN (.intw .u64 18446744073709551615) = (exN, .ok (.int (-1))) := by decide

/-! ## 4. float32 → float64 is exact

`F32.val1074 b = |b|·2^1074` and `F64.val1074 x = |x|·2^1074` are the exact magnitudes as natural
numbers (`mant · 2^(exp2+1074)`; the smallest exponents are −149 and −1074). -/

theorem C12_f32_stored (h : Heap) (b : UInt32) : parseVal h (.f32 b) = (h, .ok (.float (f32to64 b))) := by
  simp only [parseVal]

/-- finite values (zeros, subnormals, normals): finite, same sign, same magnitude -/
theorem C12_f32 (b : UInt32) (hfin : F32.isFinite b = true) :
    (f32to64 b).isFinite = true ∧ (f32to64 b).signBit = F32.sign b ∧
    (f32to64 b).val1074 = F32.val1074 b := F32.f32to64_finite b hfin

/-- ±0 ↦ ±0, ±Inf ↦ ±Inf, NaN ↦ NaN -/
theorem C12_f32_special (b : UInt32) :
    (F32.expo b = 0 → F32.frac b = 0 → f32to64 b = F64.withSign (F32.sign b) F64.posZero) ∧
    (F32.isInf b = true → (f32to64 b).isInf = true ∧ (f32to64 b).signBit = F32.sign b) ∧
    (F32.isNaN b = true → (f32to64 b).isNaN = true) :=
  ⟨F32.f32to64_zero b, F32.f32to64_inf b, F32.f32to64_nan b⟩

-- 1.5f, the smallest and the largest subnormal, -0, +Inf, a NaN
example : f32to64 0x3FC00000 = ⟨0x3FF8000000000000⟩ ∧ f32to64 1 = ⟨0x36A0000000000000⟩ ∧
    f32to64 0x007FFFFF = ⟨0x380FFFFFC0000000⟩ ∧ f32to64 0x80000000 = F64.negZero ∧
    f32to64 0x7F800000 = F64.posInf ∧ (f32to64 0x7FC00001).isNaN = true := by decide
example : F32.isFinite 0x007FFFFF = true ∧ F32.isInf 0xFF800000 = true ∧ F32.isNaN 0x7FC00001 = true := by decide

/-! ## 5. maps and slices become fresh nested Objects / Lists

`Stored h' lo g v` (Lemmas/Normalize.lean): `v` is the normal form of `g` in `h'` — scalars and
existing containers as themselves, a slice as a reference (level 0) to a list cell with address
`≥ lo` whose items are, in order, the normal forms of the elements, a map as a reference to an
object cell `≥ lo` whose fields are `m[k] = normal form` for each pair (`setAll`), recursively. -/

/-- a slice: the result is the new list cell `h.length`; no old cell differs; the cell is a plain
list; its items are the recursively normalised elements, every nested cell being new as well -/
theorem C12_nested_slice (h h' : Heap) (fl : Flavour) (xs : List GoVal) (v : Val)
    (hp : parseVal h (.slice fl xs) = (h', .ok v)) :
    v = .list ⟨h.length, 0⟩ ∧
    (h.length < h'.length ∧ ∀ b, b < h.length → h'[b]? = h[b]?) ∧
    h'.isList h.length = true ∧ h'.ego h.length = 0 ∧
    StoredList h' h.length xs (h'.items h.length) := by
  have hv : v = .list ⟨h.length, 0⟩ := L.parseVal_slice_ok h fl xs (by rw [hp])
  have e := parseVal_ext0 h (.slice fl xs)
  rw [hp] at e
  have hs := parseVal_stored h _ h' v hp
  simp only [Stored] at hs
  obtain ⟨b, hb, _, hl, he, hx⟩ := hs
  rw [hv] at hb
  cases hb
  exact ⟨hv, ⟨isList_lt hl, e.same⟩, hl, he, hx⟩

/-- a map: the same with an object cell; with distinct keys (a Go map) the fields are exactly the
pairs `(key, normal form)` -/
theorem C12_nested_map (h h' : Heap) (fl : Flavour) (kvs : List (Str × GoVal)) (v : Val)
    (hp : parseVal h (.map fl kvs) = (h', .ok v)) :
    v = .obj ⟨h.length, 0⟩ ∧
    (h.length < h'.length ∧ ∀ b, b < h.length → h'[b]? = h[b]?) ∧
    h'.isObj h.length = true ∧ h'.ego h.length = 0 ∧
    ∃ ps, StoredFields h' h.length kvs ps ∧ h'.fields h.length = setAll [] ps ∧
      ((ps.map Prod.fst).Nodup → h'.fields h.length = ps) := by
  have e := parseVal_ext0 h (.map fl kvs)
  rw [hp] at e
  have hs := parseVal_stored h _ h' v hp
  simp only [Stored] at hs
  obtain ⟨b, ps, hb, _, hl, he, hx, hf⟩ := hs
  have hv : v = .obj ⟨h.length, 0⟩ := by
    rw [parseVal] at hp
    split at hp <;> cases hp
    rfl
  rw [hv] at hb
  cases hb
  exact ⟨hv, ⟨isObj_lt hl, e.same⟩, hl, he, ps, hx, hf,
    fun hn => by rw [hf, setAll_nodup [] ps (by simpa using hn)]; rfl⟩

/-- the general form, for a value nested at any depth inside any argument -/
theorem C12_nested (h h' : Heap) (g : GoVal) (v : Val) (hp : parseVal h g = (h', .ok v)) :
    Stored h' h.length g v ∧ h.length ≤ h'.length ∧ ∀ b, b < h.length → h'[b]? = h[b]? := by
  have e := parseVal_ext0 h g
  rw [hp] at e
  exact ⟨parseVal_stored h g h' v hp, e.len, e.same⟩

/-- it is accepted whenever no value of an unsupported type occurs in it -/
theorem C12_nested_accepts (h : Heap) (g : GoVal) (hs : hasUnsupported g = false) :
    ∃ h' v, parseVal h g = (h', .ok v) := by
  obtain ⟨v, hv⟩ := parseVal_ok_of_supported h g hs
  exact ⟨(parseVal h g).1, v, by rw [← hv]⟩

example : parseVal exN (.slice .any [.intw .i8 1, .map .string [(['a'], .str ['x'])], .slice .int []]) =
    (exN ++ [.list [.int 1, .obj ⟨4, 0⟩, .list ⟨5, 0⟩] 0, .obj [(['a'], .str ['x'])] 0, .list [] 0],
     .ok (.list ⟨3, 0⟩)) := by decide
example : hasUnsupported (.slice .any [.intw .i8 1, .map .string [(['a'], .str ['x'])]]) = false := by decide

/-! ## 6. any other Go type is rejected -/

theorem C12_reject (h : Heap) : parseVal h .unsupported = (h, .panic .unsupported) := by
  simp only [parseVal]

/-- `parseVal` panics exactly on the values that contain (at any depth of maps / slices) a value of
an unsupported type, always with the "unsupported type" panic, and no old cell differs -/
theorem C12_reject_iff (h : Heap) (g : GoVal) :
    ((parseVal h g).2.isPanic = true ↔ hasUnsupported g = true) ∧
    (∀ k, (parseVal h g).2 = .panic k → k = .unsupported) ∧
    (h.length ≤ (parseVal h g).1.length ∧ ∀ b, b < h.length → (parseVal h g).1[b]? = h[b]?) :=
  ⟨(parseVal_panic_iff h g).1, (parseVal_panic_iff h g).2,
   (parseVal_ext0 h g).len, (parseVal_ext0 h g).same⟩

/-- the single-value entry points: the call panics (with the "unsupported type" panic whenever the
index / count is in range) and every old cell — the receiver included — is unchanged, so nothing
was stored -/
theorem C12_reject_entry (h : Heap) (a : Nat) (i : Int) (key : Str) (c : Int) (g : GoVal)
    (hs : hasUnsupported g = true) :
    ((L.add h a [g]).2 = .panic .unsupported ∧ Frame0 h (L.add h a [g]).1) ∧
    ((∃ k, (L.insert h a i g).2 = .panic k ∧ ((0 ≤ i ∧ i ≤ (h.items a).length) → k = .unsupported)) ∧
      Frame0 h (L.insert h a i g).1) ∧
    ((∃ k, (L.replace h a i g).2 = .panic k ∧ ((0 ≤ i ∧ i < (h.items a).length) → k = .unsupported)) ∧
      Frame0 h (L.replace h a i g).1) ∧
    ((∃ k, (L.newOf h g c).2 = .panic k ∧ (0 ≤ c → k = .unsupported)) ∧ Frame0 h (L.newOf h g c).1) ∧
    ((O.set h a [(some key, g)] false).2 = .panic .unsupported ∧
      Frame0 h (O.set h a [(some key, g)] false).1) :=
  ⟨⟨(L.add_single_reject h a g hs).1, .of_ext0 (L.add_single_reject h a g hs).2⟩,
   ⟨(L.insert_reject h a i g hs).1, .of_ext0 (L.insert_reject h a i g hs).2⟩,
   ⟨(L.replace_reject h a i g hs).1, .of_ext0 (L.replace_reject h a i g hs).2⟩,
   ⟨(L.newOf_reject h g c hs).1, .of_ext0 (L.newOf_reject h g c hs).2⟩,
   ⟨(O.set_single_reject h a key g hs).1, .of_ext0 (O.set_single_reject h a key g hs).2⟩⟩

example : hasUnsupported (.slice .any [.nil, .map .any [(['k'], .unsupported)]]) = true := by decide
example : (L.insert exN 0 1 (.slice .any [.nil, .unsupported])).2 = .panic .unsupported := by decide
example : (O.set exN 2 [(some ['z'], .unsupported)] false) = (exN, .panic .unsupported) := by decide

end Anytype

#print axioms Anytype.C12_kind
#print axioms Anytype.C12_seven
#print axioms Anytype.C12_getters_list
#print axioms Anytype.C12_getters_obj
#print axioms Anytype.C12_int
#print axioms Anytype.C12_int_widths
#print axioms Anytype.C12_int_unsigned_big
#print axioms Anytype.C12_f32_stored
#print axioms Anytype.C12_f32
#print axioms Anytype.C12_f32_special
#print axioms Anytype.C12_nested_slice
#print axioms Anytype.C12_nested_map
#print axioms Anytype.C12_nested
#print axioms Anytype.C12_nested_accepts
#print axioms Anytype.C12_reject
#print axioms Anytype.C12_reject_iff
#print axioms Anytype.C12_reject_entry
