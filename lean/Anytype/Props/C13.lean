/-
C13 — `NativeDict` / `NativeSlice` return plain Go maps and slices (no anytype container at any
depth) deep-equal to the container's content; `NewObjectFrom(m).NativeDict()` /
`NewListFrom(s).NativeSlice()` reproduce `m` / `s`; `Dict()` / `Slice()` are one-level snapshots
holding exactly what `Get` returns per key / index; none of them shares storage with the container.

`NVal` (plain Go data) has the constructors nil / bool / int / float / str / slice / dict and NO
constructor holding a `Ref`: "no container at any depth" holds by typing. Likewise `L.slice`
returns a `List Val`, `O.dict` an association list and `nativeM` an `Option NVal` — plain values
that contain no heap, so no later change of the heap can change them.
-/
import Anytype.Lemmas.Native
import Anytype.Lemmas.Mutators
namespace Anytype
open Heap Rf

/-- cell 0: `[3, 1]`, cell 1: `{"k": <list 0>, "s": "x"}`, cell 2: `[<obj 1>, nil]` -/
def c13H : Heap :=
  [.list [.int 3, .int 1] 0, .obj [(['k'], .list ⟨0, 0⟩), (['s'], .str ['x'])] 0,
   .list [.obj ⟨1, 0⟩, .nil] 0]

/-- a native tree: `[{"k": [3, 1], "s": "x"}, nil]` -/
def c13N : NVal := .slice [.dict [(['k'], .slice [.int 3, .int 1]), (['s'], .str ['x'])], .nil]

/-! ## 1. `native` is the content, as plain data -/

/-- `NativeSlice` / `NativeDict` / `native`: the denoted tree, translated constructor by constructor -/
theorem C13_native (h : Heap) (v : Val) : nativeM h v = (reifyF h v).map toNative := rfl

/-- the translation is a bijection between value trees and native trees ("deep-equal to the
container's content" = the same tree) -/
theorem C13_native_iso :
    (∀ t : JVal, fromNative (toNative t) = t) ∧ (∀ n : NVal, toNative (fromNative n) = n) ∧
    (∀ t u : JVal, toNative t = toNative u → t = u) :=
  ⟨fromNative_toNative, toNative_fromNative, fun _ _ e => toNative_injective e⟩

/-- hence: the native value is `n` iff the container denotes the tree `fromNative n` -/
theorem C13_native_iff (h : Heap) (v : Val) (n : NVal) :
    nativeM h v = some n ↔ reifyF h v = some (fromNative n) := by
  unfold nativeM
  cases hr : reifyF h v with
  | none => simp
  | some t =>
    simp only [Option.map_some, Option.some.injEq]
    constructor
    · intro e; rw [← e, fromNative_toNative]
    · intro e; rw [e, toNative_fromNative]

/-- structure is preserved level by level: a list becomes a slice of the same length with the
natives of its elements, an object a map with the same keys in the same order -/
theorem C13_native_shape (xs : List JVal) (kvs : List (Str × JVal)) :
    toNative (.list xs) = .slice (toNativeList xs) ∧ (toNativeList xs).length = xs.length ∧
    toNative (.obj kvs) = .dict (toNativeFields kvs) ∧
    (toNativeFields kvs).map (·.1) = kvs.map (·.1) :=
  ⟨by simp only [toNative], toNativeList_length xs, by simp only [toNative], toNativeFields_keys kvs⟩

example : nativeM c13H (.list ⟨2, 0⟩) = some c13N := by
  simp [nativeM, reifyF, reify, reifyList, reifyFields, c13H, c13N, toNative, toNativeList,
    toNativeFields]

/-! ## 2. round trip: `NewListFrom(s).NativeSlice() = s`, `NewObjectFrom(m).NativeDict() = m` -/

/-- canonical scalars are stored as they are -/
theorem C13_canonical_int (i : Int) (hi : InRange i) : wrap64 i = i := wrap64_of_inRange hi

/-- for every supported native tree `n` (ints in range, map keys distinct; any depth and
branching): converting it (`parseVal`, what `NewListFrom` / `NewObjectFrom` / `Add` / `Set` do with
a `[]any` / `map[string]any`) succeeds; no existing cell changes; every cell reachable from the
result is new; the result denotes `fromNative n`; and `native` of the result is `n` again -/
theorem C13_roundtrip (n : NVal) (wf : n.WF) (h : Heap) :
    ∃ h' v, parseVal h n.toGo = (h', .ok v) ∧
      nativeM h' v = some n ∧
      (∀ k, depth (fromNative n) ≤ k → reify k h' v = some (fromNative n)) ∧
      h.length ≤ h'.length ∧ (∀ b, b < h.length → h'[b]? = h[b]?) ∧
      (∀ k, ∀ a ∈ reach k h' v, h.length ≤ a ∧ a < h'.length) := by
  obtain ⟨h', v, hp, e, hd, d⟩ := parseVal_native n wf h
  refine ⟨h', v, hp, ?_, fun k hk => d.reify h' (AgreeOn.refl _ _ _) k hk, e.len, e.same,
    fun k a ha => d.reach h' (AgreeOn.refl _ _ _) k a ha⟩
  rw [C13_native_iff]
  exact d.reify h' (AgreeOn.refl _ _ _) _ (by omega)

example : c13N.WF := by
  simp [c13N, NVal.WF, WFNList, WFNFields, InRange]

/-- `NewListFrom(s).NativeSlice() = s` -/
theorem C13_roundtrip_list (xs : List NVal) (wf : (NVal.slice xs).WF) (h : Heap) :
    ∃ h' r, L.newFrom h (NVal.slice xs).toGo = (h', .ok r) ∧ r = ⟨h.length, 0⟩ ∧
      nativeM h' (.list r) = some (.slice xs) ∧ ∀ b, b < h.length → h'[b]? = h[b]? := by
  obtain ⟨h', v, hp, hn, _, _, hs, _⟩ := C13_roundtrip (.slice xs) wf h
  have hv : v = .list ⟨h.length, 0⟩ := by
    have := L.parseVal_slice_ok h .any (nvalsToGo xs) (v := v) (by
      simp only [NVal.toGo] at hp; rw [hp])
    exact this
  subst hv
  refine ⟨h', ⟨h.length, 0⟩, ?_, rfl, hn, hs⟩
  simp only [NVal.toGo] at hp ⊢
  simp only [L.newFrom, hp]

/-- `NewObjectFrom(m).NativeDict() = m` -/
theorem C13_roundtrip_object (kvs : List (Str × NVal)) (wf : (NVal.dict kvs).WF) (h : Heap) :
    ∃ h' r, O.newFrom h (NVal.dict kvs).toGo = (h', .ok r) ∧ r = ⟨h.length, 0⟩ ∧
      nativeM h' (.obj r) = some (.dict kvs) ∧ ∀ b, b < h.length → h'[b]? = h[b]? := by
  obtain ⟨h', v, hp, hn, _, _, hs, _⟩ := C13_roundtrip (.dict kvs) wf h
  have hv : v = .obj ⟨h.length, 0⟩ := by
    simp only [NVal.toGo, parseVal] at hp
    split at hp
    · cases hp; rfl
    · cases hp
  subst hv
  refine ⟨h', ⟨h.length, 0⟩, ?_, rfl, hn, hs⟩
  simp only [NVal.toGo] at hp ⊢
  simp only [O.newFrom, hp]

/-- the element-type flavour of the Go slice / map (`[]any`, `[]string`, `map[string]int`, …) is
irrelevant for the conversion: the typed flavours are normalised to the same content -/
theorem C13_flavour (h : Heap) (fl : Flavour) (xs : List GoVal) (kvs : List (Str × GoVal)) :
    parseVal h (.slice fl xs) = parseVal h (.slice .any xs) ∧
    parseVal h (.map fl kvs) = parseVal h (.map .any kvs) := by
  constructor <;> simp only [parseVal]

/-- numeric widths are normalised to Go `int` (two's complement wrap, C12) -/
theorem C13_width (h : Heap) (w : IntW) (i : Int) :
    parseVal h (.intw w i) = (h, .ok (.int (wrap64 i))) ∧
    (InRange i → parseVal h (.intw w i) = parseVal h (NVal.int i).toGo) := by
  refine ⟨by simp only [parseVal], fun _ => by simp only [parseVal, NVal.toGo]⟩

/-! ## 3. `Slice()` / `Dict()` are one-level snapshots of what `Get` returns -/

/-- `Slice()`: element `i` is exactly what `Get(i)` returns (a scalar by value, a nested container
as the reference to the identical container), and `Get` panics exactly beyond its length -/
theorem C13_snapshot_slice (h : Heap) (a : Nat) :
    L.slice h a = (h.items a).map h.getVal ∧
    ((L.slice h a).length : Int) = L.count h a ∧
    (∀ i : Nat, i < (L.slice h a).length →
      ∃ v, (L.slice h a)[i]? = some v ∧ L.get h a (i : Int) = .ok v) ∧
    (∀ i : Int, ¬ (0 ≤ i ∧ i < ((L.slice h a).length : Int)) → L.get h a i = .panic .indexRange) := by
  refine ⟨rfl, by simp [L.slice, L.count], fun i hi => ?_, fun i hi => ?_⟩
  · have hi' : i < (h.items a).length := by simpa [L.slice] using hi
    refine ⟨h.getVal ((h.items a)[i]), by simp [L.slice, hi'], ?_⟩
    have := L.get_in h a (i : Int) (by omega) (by simpa using hi')
    simpa using this
  · exact L.get_out h a i (by simpa [L.slice] using hi)

/-- `Dict()`: the same keys (in the same iteration order), and under each key exactly what
`Get(key)` returns; `Get` panics exactly on the keys the dict does not have -/
theorem C13_snapshot_dict (h : Heap) (a : Nat) :
    O.dict h a = (h.fields a).map (fun kv => (kv.1, h.getVal kv.2)) ∧
    (O.dict h a).map (·.1) = (h.fields a).map (·.1) ∧
    (∀ k : Str, O.get h a k =
      match lookup (O.dict h a) k with
      | some v => .ok v
      | none => .panic .missingKey) := by
  refine ⟨rfl, by simp [O.dict], fun k => ?_⟩
  unfold O.get O.dict
  rw [lookup_map_snd]
  cases lookup (h.fields a) k <;> rfl

example : L.slice c13H 2 = [.obj ⟨1, 0⟩, .nil] := by decide
example : O.dict c13H 1 = [(['k'], .list ⟨0, 0⟩), (['s'], .str ['x'])] := by decide

/-! ## 4. no shared storage

By typing: `L.slice h a : List Val`, `O.dict h a : List (Str × Val)`, `nativeM h v : Option NVal`
and the constructor argument `n : NVal` / `g : GoVal` are VALUES. No heap operation takes them
by reference, so modifying the Go slice / map afterwards (a different value) cannot change the
heap, and a later heap change cannot change a value already computed. The content-level facts: -/

/-- the container built from `n` keeps denoting `n` under ANY later change of the heap that does
not touch its own (new) cells `[h.length, h'.length)` — in particular whatever happens to the
Go value `n` was read from, which the heap does not reference -/
theorem C13_noalias_built (n : NVal) (wf : n.WF) (h : Heap) :
    ∃ h' v, parseVal h n.toGo = (h', .ok v) ∧
      ∀ H : Heap, h'.length ≤ H.length → (∀ b, h.length ≤ b → b < h'.length → H[b]? = h'[b]?) →
        nativeM H v = some n := by
  obtain ⟨h', v, hp, e, hd, d⟩ := parseVal_native n wf h
  refine ⟨h', v, hp, fun H hl ag => ?_⟩
  rw [C13_native_iff]
  exact d.reify H ag _ (by omega)

/-- e.g. any program of mutators on other containers (old ones, or ones created later) -/
theorem C13_noalias_built_program (n : NVal) (wf : n.WF) (h : Heap) :
    ∃ h' v, parseVal h n.toGo = (h', .ok v) ∧
      ∀ ops : List MOp, (∀ op ∈ ops, op.target < h.length ∨ h'.length ≤ op.target) →
        nativeM (runM h' ops) v = some n := by
  obtain ⟨h', v, hp, hH⟩ := C13_noalias_built n wf h
  exact ⟨h', v, hp, fun ops ht => hH _ (runM_len h' ops)
    (runM_agreeOn h.length h'.length h' ops (Nat.le_refl _) ht)⟩

/-- a snapshot / native value taken before a mutation is, as a value, what it was: it equals the
content at the time it was taken whatever is done to the heap afterwards -/
theorem C13_noalias_snapshot (h : Heap) (a : Nat) (v : Val) (ops : List MOp) :
    (let s := L.slice h a; let _h' := runM h ops; s) = (h.items a).map h.getVal ∧
    (let d := O.dict h a; let _h' := runM h ops; d) = (h.fields a).map (fun kv => (kv.1, h.getVal kv.2)) ∧
    (let n := nativeM h v; let _h' := runM h ops; n) = (reifyF h v).map toNative :=
  ⟨rfl, rfl, rfl⟩

/-- while the container itself does change: the snapshot and the container are different things -/
example : L.slice (stepM c13H (.add 0 [.nil])) 0 ≠ L.slice c13H 0 := by
  simp [stepM, L.add, addEach, parseVal, L.slice, c13H, Heap.items, Heap.setItems, Heap.getVal]

#print axioms C13_native
#print axioms C13_native_iso
#print axioms C13_native_iff
#print axioms C13_native_shape
#print axioms C13_canonical_int
#print axioms C13_roundtrip
#print axioms C13_roundtrip_list
#print axioms C13_roundtrip_object
#print axioms C13_flavour
#print axioms C13_width
#print axioms C13_snapshot_slice
#print axioms C13_snapshot_dict
#print axioms C13_noalias_built
#print axioms C13_noalias_built_program
#print axioms C13_noalias_snapshot

end Anytype
