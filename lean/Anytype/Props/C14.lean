/-
C14. For every list and every kind X among object, list, string, bool, int and float, each
typed variant the API offers (XSlice, ForEachX, MapX, FilterX, ReduceX) operates on exactly the
elements whose TypeOf is X, in index order, each exactly once, and AllX (AllNumeric) holds
exactly when every element has kind X (is int or float), vacuously on the empty list. The
untyped ForEach, ForEachValue, Map, MapValues, Filter and Reduce visit every element once, in
order, with its index and the value Get returns; for objects, ForEach/Map and their typed
variants visit exactly the fields (of that kind), each once, and Map variants store the result
under the same key.

All theorems hold for every heap `h`, every receiver address `a`, every kind `k` (not only the
six the API offers) and every callback. The `Map` theorems come in two forms: closed formulas
for callbacks whose results on the visited elements are *scalar* (`GoVal.isScalar`: anything but
a Go slice / map / unsupported dynamic type, so that `parseVal` allocates nothing), sections 5
and 7; and the general, relational statements for arbitrary callbacks (results may allocate
nested cells or make the call panic), section 8 (`C14_*_general*`).
-/
import Anytype.Lemmas.Views
import Anytype.Lemmas.MapGeneral
namespace Anytype

/-- the selection of the typed list variant for kind `k` -/
abbrev selK (h : Heap) (k : Kind) (v : Val) : Option Val := L.sel h (L.viaGetValL k) k v

/-! ### what is selected -/

/-- an element is selected iff its kind is `k`; what is handed on is the element itself
(`item`, containers) or `item.getVal()` (scalars) -/
theorem C14_sel_iff (h : Heap) (b : Bool) (k : Kind) (v w : Val) :
    L.sel h b k v = some w ↔ v.kind = k ∧ w = L.pick h b v :=
  L.sel_eq_some_iff

/-- `TypeOf(i)` of a valid index is the kind of the i-th stored element … -/
theorem C14_typeOf (h : Heap) (a : Nat) (i : Nat) (hi : i < (h.items a).length) :
    L.typeOf h a i = ((h.items a)[i]).kind := L.typeOf_of_lt h a i hi

/-- … and `Get(i)` returns `getVal()` of it -/
theorem C14_get (h : Heap) (a : Nat) (i : Nat) (hi : i < (h.items a).length) :
    L.get h a i = .ok (h.getVal ((h.items a)[i])) := L.get_of_lt h a i hi

/-- selecting by kind is selecting the indexes whose `TypeOf` is `k` -/
theorem C14_select_typeOf (h : Heap) (a : Nat) (k : Kind) (b : Bool) :
    (h.items a).filterMap (L.sel h b k)
      = (((h.items a).zipIdx).filter (fun p => L.typeOf h a (p.2 : Int) == k)).map
          (fun p => L.pick h b p.1) := L.filterMap_sel_typeOf h a k b

/-! ### 1. XSlice -/

theorem C14_slice (h : Heap) (a : Nat) (k : Kind) :
    L.sliceK h a k = (h.items a).filterMap (selK h k) := by
  simp [L.sliceK, L.sliceKLoop_eq]

/-- exactly the elements of kind `k`, in order, each once -/
theorem C14_slice_kind (h : Heap) (a : Nat) (k : Kind) :
    L.sliceK h a k
      = ((h.items a).filter (fun v => v.kind == k)).map (L.pick h (L.viaGetValL k)) := by
  rw [C14_slice]; exact L.filterMap_sel _ _ _ _

/-- exactly the elements whose `TypeOf` is `k`, in index order, each once -/
theorem C14_slice_typeOf (h : Heap) (a : Nat) (k : Kind) :
    L.sliceK h a k
      = (((h.items a).zipIdx).filter (fun p => L.typeOf h a (p.2 : Int) == k)).map
          (fun p => L.pick h (L.viaGetValL k) p.1) := by
  rw [C14_slice]; exact C14_select_typeOf _ _ _ _

theorem C14_slice_length (h : Heap) (a : Nat) (k : Kind) :
    (L.sliceK h a k).length = ((h.items a).filter (fun v => v.kind == k)).length := by
  rw [C14_slice_kind, List.length_map]

/-- the i-th selected element comes from the i-th element of kind `k` -/
theorem C14_slice_getElem (h : Heap) (a : Nat) (k : Kind) (i : Nat)
    (hi : i < (L.sliceK h a k).length) :
    (L.sliceK h a k)[i]
      = L.pick h (L.viaGetValL k)
          (((h.items a).filter (fun v => v.kind == k))[i]'(by rw [← C14_slice_length]; exact hi)) := by
  simp [C14_slice_kind]

/-- every element of the typed slice has kind `k` -/
theorem C14_slice_all_kind (h : Heap) (a : Nat) (k : Kind) :
    ∀ w ∈ L.sliceK h a k, w.kind = k := by
  intro w hw
  rw [C14_slice_kind, List.mem_map] at hw
  obtain ⟨v, hv, rfl⟩ := hw
  simpa using (List.mem_filter.mp hv).2

/-! ### 2. ForEachX, ForEach, ForEachValue -/

/-- the invocation log of `ForEachX` -/
theorem C14_foreach (h : Heap) (a : Nat) (k : Kind) :
    L.forEachK h a k = (h.items a).filterMap (selK h k) := by
  simp [L.forEachK, L.forEachKLoop_eq]

theorem C14_foreach_typeOf (h : Heap) (a : Nat) (k : Kind) :
    L.forEachK h a k
      = (((h.items a).zipIdx).filter (fun p => L.typeOf h a (p.2 : Int) == k)).map
          (fun p => L.pick h (L.viaGetValL k) p.1) := by
  rw [C14_foreach]; exact C14_select_typeOf _ _ _ _

/-- every element once, in order, with its index and `getVal()` of it -/
theorem C14_foreach_untyped (h : Heap) (a : Nat) :
    L.forEach h a = ((h.items a).zipIdx).map (fun p => ((p.2 : Int), h.getVal p.1)) := by
  have := L.forEachLoop_eq h (h.items a) 0 []
  simpa [L.forEach] using this

theorem C14_foreach_untyped_length (h : Heap) (a : Nat) :
    (L.forEach h a).length = (h.items a).length := by
  simp [C14_foreach_untyped]

/-- the i-th invocation is `f(i, Get(i))` -/
theorem C14_foreach_untyped_get (h : Heap) (a : Nat) (i : Nat) (hi : i < (L.forEach h a).length) :
    ((L.forEach h a)[i]).1 = (i : Int) ∧ L.get h a i = .ok ((L.forEach h a)[i]).2 := by
  have hi' : i < (h.items a).length := by rw [← C14_foreach_untyped_length]; exact hi
  rw [C14_get h a i hi']
  simp [C14_foreach_untyped]

theorem C14_foreachValue (h : Heap) (a : Nat) :
    L.forEachValue h a = (h.items a).map h.getVal := by
  rw [L.forEachValue, C14_foreach_untyped, List.map_map]
  conv => rhs; rw [← List.zipIdx_map_fst 0 (h.items a), List.map_map]
  rfl

/-! ### 3. FilterX, Filter -/

/-- the heap after `FilterX(p)` is the old heap plus one fresh list cell holding the selected
elements that satisfy `p`; the result is that cell -/
theorem C14_filter (h : Heap) (a : Nat) (k : Kind) (p : Val → Bool) :
    L.filterK h a k p
      = (h ++ [.list (((h.items a).filterMap (selK h k)).filter p) 0], ⟨h.length, 0⟩) := by
  simp [L.filterK, L.filterKLoop_eq]

theorem C14_filter_items (h : Heap) (a : Nat) (k : Kind) (p : Val → Bool) :
    (L.filterK h a k p).1.items (L.filterK h a k p).2.addr
      = ((h.items a).filterMap (selK h k)).filter p := by
  simp [C14_filter, Heap.items]

theorem C14_filter_untyped (h : Heap) (a : Nat) (p : Val → Bool) :
    L.filter h a p = (h ++ [.list (((h.items a).map h.getVal).filter p) 0], ⟨h.length, 0⟩) := by
  simp [L.filter, L.filterLoop_eq]

theorem C14_filter_untyped_items (h : Heap) (a : Nat) (p : Val → Bool) :
    (L.filter h a p).1.items (L.filter h a p).2.addr = ((h.items a).map h.getVal).filter p := by
  simp [C14_filter_untyped, Heap.items]

/-! ### 4. ReduceX, Reduce -/

theorem C14_reduce {α} (h : Heap) (a : Nat) (k : Kind) (init : α) (f : α → Val → α) :
    L.reduceK h a k init f = ((h.items a).filterMap (L.sel h true k)).foldl f init := by
  simp [L.reduceK, L.reduceKLoop_eq]

theorem C14_reduce_typeOf {α} (h : Heap) (a : Nat) (k : Kind) (init : α) (f : α → Val → α) :
    L.reduceK h a k init f
      = ((((h.items a).zipIdx).filter (fun p => L.typeOf h a (p.2 : Int) == k)).map
          (fun p => h.getVal p.1)).foldl f init := by
  rw [C14_reduce, C14_select_typeOf]; rfl

theorem C14_reduce_untyped {α} (h : Heap) (a : Nat) (init : α) (f : α → Val → α) :
    L.reduce h a init f = ((h.items a).map h.getVal).foldl f init := by
  simp [L.reduce, L.reduceLoop_eq]

/-! ### 5. MapX, Map, MapValues (scalar callback results: closed formulas)

For a callback returning Go slices / maps, `parseVal` allocates further fresh cells between the
additions to the result list; the general statements are in section 8.
-/

/-- a scalar result is stored by value; `parseVal` allocates nothing -/
theorem C14_parseVal_scalar (h : Heap) (g : GoVal) (hg : g.isScalar = true) :
    parseVal h g = (h, .ok (scalarVal g)) := parseVal_scalar h hg

/-- `MapX(f)`: the heap afterwards is the old heap (all old cells unchanged) plus one fresh list
cell at address `h.length` holding the converted results for the selected elements, in order -/
theorem C14_map (h : Heap) (a : Nat) (k : Kind) (f : Val → GoVal)
    (hf : ∀ v ∈ (h.items a).filterMap (selK h k), (f v).isScalar = true) :
    L.mapK h a k f
      = (h ++ [.list (((h.items a).filterMap (selK h k)).map (fun v => scalarVal (f v))) 0],
          .ok ⟨h.length, 0⟩) := by
  simp only [L.mapK]
  rw [L.mapKLoop_scalar h h.length k f 0 (h.items a) (h ++ [Cell.list [] 0]) [] (by simp)
    (Heap.ego_append_list0 h []) hf]
  simp

/-- the fresh result cell and the untouched old cells, spelled out -/
theorem C14_map_cells (h : Heap) (a : Nat) (k : Kind) (f : Val → GoVal)
    (hf : ∀ v ∈ (h.items a).filterMap (selK h k), (f v).isScalar = true) :
    ∃ h1, L.mapK h a k f = (h1, .ok ⟨h.length, 0⟩) ∧
      h1.items h.length = ((h.items a).filterMap (selK h k)).map (fun v => scalarVal (f v)) ∧
      h1.length = h.length + 1 ∧ ∀ b, b < h.length → h1[b]? = h[b]? := by
  refine ⟨_, C14_map h a k f hf, ?_, ?_, ?_⟩
  · simp [Heap.items]
  · simp
  · intro b hb; simp [List.getElem?_append_left hb]

theorem C14_map_untyped (h : Heap) (a : Nat) (f : Int → Val → GoVal)
    (hf : ∀ p ∈ (h.items a).zipIdx, (f (p.2 : Int) (h.getVal p.1)).isScalar = true) :
    L.map h a f
      = (h ++ [.list (((h.items a).zipIdx).map
            (fun p => scalarVal (f (p.2 : Int) (h.getVal p.1)))) 0], .ok ⟨h.length, 0⟩) := by
  simp only [L.map]
  have := L.mapLoop_scalar h h.length f 0 (h.items a) (h ++ [Cell.list [] 0]) [] 0 (by simp)
    (Heap.ego_append_list0 h []) hf
  simp only [Int.natCast_zero] at this
  rw [this]
  simp

theorem C14_mapValues (h : Heap) (a : Nat) (f : Val → GoVal)
    (hf : ∀ v ∈ h.items a, (f (h.getVal v)).isScalar = true) :
    L.mapValues h a f
      = (h ++ [.list ((h.items a).map (fun v => scalarVal (f (h.getVal v)))) 0],
          .ok ⟨h.length, 0⟩) := by
  unfold L.mapValues
  rw [C14_map_untyped h a (fun _ v => f v)
    (fun p hp => hf p.1 (by
      obtain ⟨v, i⟩ := p
      exact List.mem_of_getElem? (by simpa using List.mem_zipIdx_iff_getElem?.mp hp)))]
  congr 3
  conv => rhs; rw [← List.zipIdx_map_fst 0 (h.items a), List.map_map]
  rfl

/-! ### 6. AllX, AllNumeric -/

theorem C14_all (h : Heap) (a : Nat) (k : Kind) :
    L.allK h a k = (h.items a).all (fun v => v.kind == k) := by
  simp only [L.allK, L.allKLoop_eq]

theorem C14_all_iff (h : Heap) (a : Nat) (k : Kind) :
    L.allK h a k = true ↔ ∀ v ∈ h.items a, v.kind = k := by
  simp [C14_all]

theorem C14_allNumeric (h : Heap) (a : Nat) :
    L.allNumeric h a = (h.items a).all (fun v => v.kind == .int || v.kind == .float) := by
  simp only [L.allNumeric, L.allNumericLoop_eq]

theorem C14_allNumeric_iff (h : Heap) (a : Nat) :
    L.allNumeric h a = true ↔ ∀ v ∈ h.items a, v.kind = .int ∨ v.kind = .float := by
  simp [C14_allNumeric]

/-- vacuously true on the empty list -/
theorem C14_all_empty (h : Heap) (a : Nat) (k : Kind) (he : h.items a = []) :
    L.allK h a k = true ∧ L.allNumeric h a = true := by
  simp [C14_all, C14_allNumeric, he]

/-! ### 7. objects -/

theorem C14_obj_foreach (h : Heap) (a : Nat) :
    O.forEach h a = (h.fields a).map (fun kv => (kv.1, h.getVal kv.2)) := rfl

/-- every field once, with its key and the value `Get(key)` returns (distinct keys) -/
theorem C14_obj_foreach_get (h : Heap) (a : Nat) (hnd : ((h.fields a).map (·.1)).Nodup) :
    ∀ p ∈ O.forEach h a, O.get h a p.1 = .ok p.2 := by
  intro p hp
  rw [C14_obj_foreach, List.mem_map] at hp
  obtain ⟨kv, hkv, rfl⟩ := hp
  have hl := lookup_of_mem_nodup (h.fields a) hnd kv hkv
  simp [O.get, hl]

theorem C14_obj_foreachK (h : Heap) (a : Nat) (kd : Kind) :
    O.forEachK h a kd = ((h.fields a).map (·.2)).filterMap (L.sel h true kd) := by
  simp [O.forEachK, O.forEachKLoop_eq]

/-- another iteration order of the same map (same fields, same `ego` table) gives a
permutation of the log -/
theorem C14_obj_foreach_perm (h h' : Heap) (a : Nat) (hp : (h'.fields a).Perm (h.fields a))
    (he : ∀ b, h'.ego b = h.ego b) :
    (O.forEach h' a).Perm (O.forEach h a) := by
  rw [C14_obj_foreach, C14_obj_foreach]
  have : (fun kv : Str × Val => (kv.1, h'.getVal kv.2)) = fun kv => (kv.1, h.getVal kv.2) := by
    funext kv; rw [Heap.getVal_congr he]
  rw [this]
  exact hp.map _

theorem C14_obj_foreachK_perm (h h' : Heap) (a : Nat) (kd : Kind)
    (hp : (h'.fields a).Perm (h.fields a)) (he : ∀ b, h'.ego b = h.ego b) :
    (O.forEachK h' a kd).Perm (O.forEachK h a kd) := by
  rw [C14_obj_foreachK, C14_obj_foreachK]
  have : L.sel h' true kd = L.sel h true kd := by funext v; exact L.sel_congr he _ _ _
  rw [this]
  exact (hp.map _).filterMap _

/-- in particular: re-ordering the fields of the receiver cell itself -/
theorem C14_obj_foreachK_reorder (h : Heap) (a : Nat) (kd : Kind) (fs' : List (Str × Val))
    (hp : fs'.Perm (h.fields a)) :
    (O.forEachK (h.setFields a fs') a kd).Perm (O.forEachK h a kd) ∧
    (O.forEach (h.setFields a fs') a).Perm (O.forEach h a) := by
  obtain ⟨hf, he⟩ := Heap.setFields_perm h a fs' hp
  exact ⟨C14_obj_foreachK_perm h _ a kd hf he, C14_obj_foreach_perm h _ a hf he⟩

/-- `Map(f)` on an object with scalar callback results: one fresh object cell holding, for every
field, the converted result under the same key -/
theorem C14_obj_map (h : Heap) (a : Nat) (f : Str → Val → GoVal)
    (hnd : ((h.fields a).map (·.1)).Nodup)
    (hf : ∀ kv ∈ h.fields a, (f kv.1 (h.getVal kv.2)).isScalar = true) :
    O.map h a f
      = (h ++ [.obj ((h.fields a).map (fun kv => (kv.1, scalarVal (f kv.1 (h.getVal kv.2))))) 0],
          .ok ⟨h.length, 0⟩) := by
  simp only [O.map]
  rw [O.mapLoop_scalar h h.length f 0 (h.fields a) (h ++ [Cell.obj [] 0]) [] (by simp)
    (Heap.ego_append_obj0 h []) hf hnd (by simp)]
  simp

/-- `MapX(f)` on an object -/
theorem C14_obj_mapK (h : Heap) (a : Nat) (kd : Kind) (f : Val → GoVal)
    (hnd : ((h.fields a).map (·.1)).Nodup)
    (hf : ∀ v ∈ ((h.fields a).map (·.2)).filterMap (selK h kd), (f v).isScalar = true) :
    O.mapK h a kd f
      = (h ++ [.obj ((h.fields a).filterMap (O.mapKEntry h kd f)) 0], .ok ⟨h.length, 0⟩) := by
  simp only [O.mapK]
  rw [O.mapKLoop_scalar h h.length kd f 0 (h.fields a) (h ++ [Cell.obj [] 0]) [] (by simp)
    (Heap.ego_append_obj0 h []) hf hnd (by simp)]
  simp

/-- stated through `lookup`: the result has a field `k` exactly when the receiver has a field
`k` of kind `kd`, and it holds the converted callback result for that field -/
theorem C14_obj_mapK_lookup (h : Heap) (a : Nat) (kd : Kind) (f : Val → GoVal)
    (hnd : ((h.fields a).map (·.1)).Nodup)
    (hf : ∀ v ∈ ((h.fields a).map (·.2)).filterMap (selK h kd), (f v).isScalar = true) :
    ∃ h1, O.mapK h a kd f = (h1, .ok ⟨h.length, 0⟩) ∧ (∀ b, b < h.length → h1[b]? = h[b]?) ∧
      ∀ k, lookup (h1.fields h.length) k
        = ((lookup (h.fields a) k).bind (selK h kd)).map (fun x => scalarVal (f x)) := by
  refine ⟨_, C14_obj_mapK h a kd f hnd hf, ?_, ?_⟩
  · intro b hb; simp [List.getElem?_append_left hb]
  · intro k
    rw [Heap.fields_append_self]
    exact O.lookup_mapKEntry h kd f (h.fields a) hnd k

theorem C14_obj_map_lookup (h : Heap) (a : Nat) (f : Str → Val → GoVal)
    (hnd : ((h.fields a).map (·.1)).Nodup)
    (hf : ∀ kv ∈ h.fields a, (f kv.1 (h.getVal kv.2)).isScalar = true) :
    ∃ h1, O.map h a f = (h1, .ok ⟨h.length, 0⟩) ∧ (∀ b, b < h.length → h1[b]? = h[b]?) ∧
      ∀ k, lookup (h1.fields h.length) k
        = (lookup (h.fields a) k).map (fun v => scalarVal (f k (h.getVal v))) := by
  refine ⟨_, C14_obj_map h a f hnd hf, ?_, ?_⟩
  · intro b hb; simp [List.getElem?_append_left hb]
  · intro k
    rw [Heap.fields_append_self]
    exact lookup_map_val (fun k v => scalarVal (f k (h.getVal v))) (h.fields a) k

/-! ### 8. Map variants with arbitrary callback results

`f` is arbitrary: its results may be native slices / maps (nested fresh cells) or unsupported
values (`parseVal` panics). Vocabulary (`Anytype/Lemmas/MapGeneral.lean`):

* `MapSteps store g h₀ [x₀,…,xₙ₋₁] [v₀,…,vₙ₋₁] hₙ`: there are heaps with
  `parseVal hᵢ (g xᵢ) = (hᵢ', .ok vᵢ)` and `hᵢ₊₁ = store hᵢ' xᵢ vᵢ` — every listed element is
  visited once, in order, and its normalised result is stored before the next one is visited;
* `storeL res` is `result.Add(v)`, `storeO res key` is `result.Set(key x, v)` on cell `res`;
* `runL h g xs` / `runO h key g xs`: allocate the empty result cell at address `h.length`, run
  the loop over `xs`, hand the cell back (or the panic).
-/

/-- `MapX(f)` visits exactly the selected elements (selection made on the heap before the call:
nothing the callback results allocate changes what is selected) -/
theorem C14_map_general_eq (h : Heap) (a : Nat) (k : Kind) (f : Val → GoVal) :
    L.mapK h a k f = runL h f ((h.items a).filterMap (selK h k)) :=
  L.mapK_eq_runL h a k f

/-- success: the result is the fresh cell, every old cell is unchanged, and the items of the
result cell are, in order, the normalised results for the selected elements -/
theorem C14_map_general (h : Heap) (a : Nat) (k : Kind) (f : Val → GoVal) (h' : Heap) (r : Ref)
    (hm : L.mapK h a k f = (h', .ok r)) :
    r = ⟨h.length, 0⟩ ∧ (∀ b, b < h.length → h'[b]? = h[b]?) ∧ (∀ b, h'.ego b = h.ego b) ∧
    ∃ vs, MapSteps (storeL h.length) f (h ++ [.list [] 0]) ((h.items a).filterMap (selK h k)) vs h' ∧
      h'.items r.addr = vs ∧ vs.length = ((h.items a).filterMap (selK h k)).length := by
  rw [C14_map_general_eq] at hm; exact runL_ok_facts hm

/-- … and conversely: the call succeeds exactly when every `parseVal` along the chain does -/
theorem C14_map_general_iff (h : Heap) (a : Nat) (k : Kind) (f : Val → GoVal) (h' : Heap)
    (r : Ref) :
    L.mapK h a k f = (h', .ok r) ↔ r = ⟨h.length, 0⟩ ∧
      ∃ vs, MapSteps (storeL h.length) f (h ++ [.list [] 0])
        ((h.items a).filterMap (selK h k)) vs h' := by
  rw [C14_map_general_eq]; exact runL_ok_iff _ _ _ _ _

/-- panic: exactly when, after a successful run over a prefix of the selected elements, the
next result makes `parseVal` panic; the call panics with that kind -/
theorem C14_map_general_panic_iff (h : Heap) (a : Nat) (k : Kind) (f : Val → GoVal) (h' : Heap)
    (p : PanicKind) :
    L.mapK h a k f = (h', .panic p) ↔
      ∃ xs₁ x xs₂ vs h₁, (h.items a).filterMap (selK h k) = xs₁ ++ x :: xs₂ ∧
        MapSteps (storeL h.length) f (h ++ [.list [] 0]) xs₁ vs h₁ ∧
        parseVal h₁ (f x) = (h', .panic p) := by
  rw [C14_map_general_eq]; exact runL_panic_iff _ _ _ _ _

/-- success or panic: all old cells are unchanged (and so is the `ego` table) -/
theorem C14_map_general_frame (h : Heap) (a : Nat) (k : Kind) (f : Val → GoVal) :
    h.length ≤ (L.mapK h a k f).1.length ∧ (∀ b, b < h.length → (L.mapK h a k f).1[b]? = h[b]?) ∧
    ∀ b, (L.mapK h a k f).1.ego b = h.ego b := by
  rw [C14_map_general_eq]
  exact ⟨(runL_fr _ _ _).len, (runL_fr _ _ _).old, (runL_fr _ _ _).ego⟩

/-- `Map(f)` visits exactly the invocations of `ForEach`: every element once, in order, with its
index and `getVal()` of it -/
theorem C14_map_untyped_general_eq (h : Heap) (a : Nat) (f : Int → Val → GoVal) :
    L.map h a f = runL h (fun q : Int × Val => f q.1 q.2) (L.forEach h a) :=
  L.map_eq_runL h a f

theorem C14_map_untyped_general (h : Heap) (a : Nat) (f : Int → Val → GoVal) (h' : Heap) (r : Ref)
    (hm : L.map h a f = (h', .ok r)) :
    r = ⟨h.length, 0⟩ ∧ (∀ b, b < h.length → h'[b]? = h[b]?) ∧ (∀ b, h'.ego b = h.ego b) ∧
    ∃ vs, MapSteps (storeL h.length) (fun q : Int × Val => f q.1 q.2) (h ++ [.list [] 0])
        (L.forEach h a) vs h' ∧
      h'.items r.addr = vs ∧ vs.length = (h.items a).length := by
  rw [C14_map_untyped_general_eq] at hm
  have := runL_ok_facts hm
  rwa [C14_foreach_untyped_length] at this

theorem C14_map_untyped_general_iff (h : Heap) (a : Nat) (f : Int → Val → GoVal) (h' : Heap)
    (r : Ref) :
    L.map h a f = (h', .ok r) ↔ r = ⟨h.length, 0⟩ ∧
      ∃ vs, MapSteps (storeL h.length) (fun q : Int × Val => f q.1 q.2) (h ++ [.list [] 0])
        (L.forEach h a) vs h' := by
  rw [C14_map_untyped_general_eq]; exact runL_ok_iff _ _ _ _ _

theorem C14_map_untyped_general_panic_iff (h : Heap) (a : Nat) (f : Int → Val → GoVal)
    (h' : Heap) (p : PanicKind) :
    L.map h a f = (h', .panic p) ↔
      ∃ xs₁ x xs₂ vs h₁, L.forEach h a = xs₁ ++ x :: xs₂ ∧
        MapSteps (storeL h.length) (fun q : Int × Val => f q.1 q.2) (h ++ [.list [] 0]) xs₁ vs h₁ ∧
        parseVal h₁ (f x.1 x.2) = (h', .panic p) := by
  rw [C14_map_untyped_general_eq]; exact runL_panic_iff _ _ _ _ _

theorem C14_map_untyped_general_frame (h : Heap) (a : Nat) (f : Int → Val → GoVal) :
    h.length ≤ (L.map h a f).1.length ∧ (∀ b, b < h.length → (L.map h a f).1[b]? = h[b]?) ∧
    ∀ b, (L.map h a f).1.ego b = h.ego b := by
  rw [C14_map_untyped_general_eq]
  exact ⟨(runL_fr _ _ _).len, (runL_fr _ _ _).old, (runL_fr _ _ _).ego⟩

/-- `MapValues(f)` visits exactly the values `ForEachValue` hands out -/
theorem C14_mapValues_general_eq (h : Heap) (a : Nat) (f : Val → GoVal) :
    L.mapValues h a f = runL h f (L.forEachValue h a) :=
  L.mapValues_eq_runL h a f

theorem C14_mapValues_general (h : Heap) (a : Nat) (f : Val → GoVal) (h' : Heap) (r : Ref)
    (hm : L.mapValues h a f = (h', .ok r)) :
    r = ⟨h.length, 0⟩ ∧ (∀ b, b < h.length → h'[b]? = h[b]?) ∧ (∀ b, h'.ego b = h.ego b) ∧
    ∃ vs, MapSteps (storeL h.length) f (h ++ [.list [] 0]) ((h.items a).map h.getVal) vs h' ∧
      h'.items r.addr = vs ∧ vs.length = (h.items a).length := by
  rw [C14_mapValues_general_eq, C14_foreachValue] at hm
  have := runL_ok_facts hm
  rwa [List.length_map] at this

theorem C14_mapValues_general_iff (h : Heap) (a : Nat) (f : Val → GoVal) (h' : Heap) (r : Ref) :
    L.mapValues h a f = (h', .ok r) ↔ r = ⟨h.length, 0⟩ ∧
      ∃ vs, MapSteps (storeL h.length) f (h ++ [.list [] 0]) ((h.items a).map h.getVal) vs h' := by
  rw [C14_mapValues_general_eq, C14_foreachValue]; exact runL_ok_iff _ _ _ _ _

theorem C14_mapValues_general_panic_iff (h : Heap) (a : Nat) (f : Val → GoVal) (h' : Heap)
    (p : PanicKind) :
    L.mapValues h a f = (h', .panic p) ↔
      ∃ xs₁ x xs₂ vs h₁, (h.items a).map h.getVal = xs₁ ++ x :: xs₂ ∧
        MapSteps (storeL h.length) f (h ++ [.list [] 0]) xs₁ vs h₁ ∧
        parseVal h₁ (f x) = (h', .panic p) := by
  rw [C14_mapValues_general_eq, C14_foreachValue]; exact runL_panic_iff _ _ _ _ _

theorem C14_mapValues_general_frame (h : Heap) (a : Nat) (f : Val → GoVal) :
    h.length ≤ (L.mapValues h a f).1.length ∧
    (∀ b, b < h.length → (L.mapValues h a f).1[b]? = h[b]?) ∧
    ∀ b, (L.mapValues h a f).1.ego b = h.ego b :=
  C14_map_untyped_general_frame h a _

/-- object `Map(f)` visits exactly the invocations of the object `ForEach`: every field once,
with its key and `getVal()` of its value -/
theorem C14_obj_map_general_eq (h : Heap) (a : Nat) (f : Str → Val → GoVal) :
    O.map h a f = runO h Prod.fst (fun q : Str × Val => f q.1 q.2) (O.forEach h a) :=
  O.map_eq_runO h a f

/-- success (distinct keys): fresh object cell, old cells unchanged, and the i-th normalised
result is stored under the key of the i-th field; no other key is present -/
theorem C14_obj_map_general (h : Heap) (a : Nat) (f : Str → Val → GoVal)
    (hnd : ((h.fields a).map (·.1)).Nodup) (h' : Heap) (r : Ref)
    (hm : O.map h a f = (h', .ok r)) :
    r = ⟨h.length, 0⟩ ∧ (∀ b, b < h.length → h'[b]? = h[b]?) ∧ (∀ b, h'.ego b = h.ego b) ∧
    ∃ vs, MapSteps (storeO h.length Prod.fst) (fun q : Str × Val => f q.1 q.2) (h ++ [.obj [] 0])
        (O.forEach h a) vs h' ∧
      vs.length = (O.forEach h a).length ∧
      h'.fields r.addr = ((O.forEach h a).map Prod.fst).zip vs ∧
      (∀ (i : Nat) (hi : i < (O.forEach h a).length) (hv : i < vs.length),
        lookup (h'.fields r.addr) ((O.forEach h a)[i]).1 = some vs[i]) ∧
      (∀ k, k ∉ (O.forEach h a).map Prod.fst → lookup (h'.fields r.addr) k = none) := by
  rw [C14_obj_map_general_eq] at hm
  exact runO_ok_facts (by rw [O.forEach_keys]; exact hnd) hm

theorem C14_obj_map_general_iff (h : Heap) (a : Nat) (f : Str → Val → GoVal) (h' : Heap)
    (r : Ref) :
    O.map h a f = (h', .ok r) ↔ r = ⟨h.length, 0⟩ ∧
      ∃ vs, MapSteps (storeO h.length Prod.fst) (fun q : Str × Val => f q.1 q.2)
        (h ++ [.obj [] 0]) (O.forEach h a) vs h' := by
  rw [C14_obj_map_general_eq]; exact runO_ok_iff _ _ _ _ _ _

theorem C14_obj_map_general_panic_iff (h : Heap) (a : Nat) (f : Str → Val → GoVal) (h' : Heap)
    (p : PanicKind) :
    O.map h a f = (h', .panic p) ↔
      ∃ xs₁ x xs₂ vs h₁, O.forEach h a = xs₁ ++ x :: xs₂ ∧
        MapSteps (storeO h.length Prod.fst) (fun q : Str × Val => f q.1 q.2) (h ++ [.obj [] 0])
          xs₁ vs h₁ ∧
        parseVal h₁ (f x.1 x.2) = (h', .panic p) := by
  rw [C14_obj_map_general_eq]; exact runO_panic_iff _ _ _ _ _ _

theorem C14_obj_map_general_frame (h : Heap) (a : Nat) (f : Str → Val → GoVal) :
    h.length ≤ (O.map h a f).1.length ∧ (∀ b, b < h.length → (O.map h a f).1[b]? = h[b]?) ∧
    ∀ b, (O.map h a f).1.ego b = h.ego b := by
  rw [C14_obj_map_general_eq]
  exact ⟨(runO_fr _ _ _ _).len, (runO_fr _ _ _ _).old, (runO_fr _ _ _ _).ego⟩

/-- the fields the object `MapX` visits: exactly the fields of kind `kd`, each with its key and
what the selection hands on, in field order -/
theorem C14_obj_visitsK (h : Heap) (a : Nat) (kd : Kind) :
    O.visitsK h kd (h.fields a)
      = (h.fields a).filterMap (fun kv => (selK h kd kv.2).map (fun x => (kv.1, x))) ∧
    (O.visitsK h kd (h.fields a)).map Prod.snd = ((h.fields a).map (·.2)).filterMap (selK h kd) := by
  refine ⟨rfl, ?_⟩
  unfold O.visitsK
  induction h.fields a with
  | nil => rfl
  | cons p fs ih =>
    cases hs : L.sel h (L.viaGetValL kd) kd p.2 with
    | none =>
      simp only [List.filterMap_cons, List.map_cons, selK, hs, Option.map_none]; exact ih
    | some x =>
      simp only [List.filterMap_cons, List.map_cons, selK, hs, Option.map_some]
      exact congrArg _ ih

theorem C14_obj_mapK_general_eq (h : Heap) (a : Nat) (kd : Kind) (f : Val → GoVal) :
    O.mapK h a kd f
      = runO h Prod.fst (fun q : Str × Val => f q.2) (O.visitsK h kd (h.fields a)) :=
  O.mapK_eq_runO h a kd f

theorem C14_obj_mapK_general (h : Heap) (a : Nat) (kd : Kind) (f : Val → GoVal)
    (hnd : ((h.fields a).map (·.1)).Nodup) (h' : Heap) (r : Ref)
    (hm : O.mapK h a kd f = (h', .ok r)) :
    r = ⟨h.length, 0⟩ ∧ (∀ b, b < h.length → h'[b]? = h[b]?) ∧ (∀ b, h'.ego b = h.ego b) ∧
    ∃ vs, MapSteps (storeO h.length Prod.fst) (fun q : Str × Val => f q.2) (h ++ [.obj [] 0])
        (O.visitsK h kd (h.fields a)) vs h' ∧
      vs.length = (O.visitsK h kd (h.fields a)).length ∧
      h'.fields r.addr = ((O.visitsK h kd (h.fields a)).map Prod.fst).zip vs ∧
      (∀ (i : Nat) (hi : i < (O.visitsK h kd (h.fields a)).length) (hv : i < vs.length),
        lookup (h'.fields r.addr) ((O.visitsK h kd (h.fields a))[i]).1 = some vs[i]) ∧
      (∀ k, k ∉ (O.visitsK h kd (h.fields a)).map Prod.fst →
        lookup (h'.fields r.addr) k = none) := by
  rw [C14_obj_mapK_general_eq] at hm
  exact runO_ok_facts (O.visitsK_nodup h kd _ hnd) hm

theorem C14_obj_mapK_general_iff (h : Heap) (a : Nat) (kd : Kind) (f : Val → GoVal) (h' : Heap)
    (r : Ref) :
    O.mapK h a kd f = (h', .ok r) ↔ r = ⟨h.length, 0⟩ ∧
      ∃ vs, MapSteps (storeO h.length Prod.fst) (fun q : Str × Val => f q.2)
        (h ++ [.obj [] 0]) (O.visitsK h kd (h.fields a)) vs h' := by
  rw [C14_obj_mapK_general_eq]; exact runO_ok_iff _ _ _ _ _ _

theorem C14_obj_mapK_general_panic_iff (h : Heap) (a : Nat) (kd : Kind) (f : Val → GoVal)
    (h' : Heap) (p : PanicKind) :
    O.mapK h a kd f = (h', .panic p) ↔
      ∃ xs₁ x xs₂ vs h₁, O.visitsK h kd (h.fields a) = xs₁ ++ x :: xs₂ ∧
        MapSteps (storeO h.length Prod.fst) (fun q : Str × Val => f q.2) (h ++ [.obj [] 0])
          xs₁ vs h₁ ∧
        parseVal h₁ (f x.2) = (h', .panic p) := by
  rw [C14_obj_mapK_general_eq]; exact runO_panic_iff _ _ _ _ _ _

theorem C14_obj_mapK_general_frame (h : Heap) (a : Nat) (kd : Kind) (f : Val → GoVal) :
    h.length ≤ (O.mapK h a kd f).1.length ∧
    (∀ b, b < h.length → (O.mapK h a kd f).1[b]? = h[b]?) ∧
    ∀ b, (O.mapK h a kd f).1.ego b = h.ego b := by
  rw [C14_obj_mapK_general_eq]
  exact ⟨(runO_fr _ _ _ _).len, (runO_fr _ _ _ _).old, (runO_fr _ _ _ _).ego⟩

/-! ### non-vacuity: concrete instances -/

section Examples

/-- cell 0: a list with ints interleaved with other kinds (one of them a nested list, cell 1,
whose registered `ego` level is 2); cell 2: an object -/
def exHeap : Heap :=
  [ .list [.int 1, .str ['s'], .int 2, .nil, .list ⟨1, 0⟩, .int 3, .float F64.one] 0,
    .list [.bool true] 2,
    .obj [(['a'], .int 10), (['b'], .str ['x']), (['c'], .int 30), (['d'], .list ⟨1, 0⟩)] 0 ]

def exInc : Val → GoVal
  | .int i => .intw .int (i + 1)
  | _ => .slice .any []          -- not scalar, but never reached by `MapInts`

example : L.sliceK exHeap 0 .int = [.int 1, .int 2, .int 3] := by decide
example : L.sliceK exHeap 0 .list = [.list ⟨1, 0⟩] := by decide
example : L.forEachK exHeap 0 .string = [.str ['s']] := by decide
example : L.forEach exHeap 0
    = [(0, .int 1), (1, .str ['s']), (2, .int 2), (3, .nil), (4, .list ⟨1, 2⟩), (5, .int 3),
       (6, .float F64.one)] := by decide
example : L.reduceK exHeap 0 .int (0 : Int) (fun acc v => match v with | .int i => acc + i | _ => acc)
    = 6 := by decide
example : L.allK exHeap 0 .int = false ∧ L.allK exHeap 1 .bool = true ∧
    L.allNumeric exHeap 0 = false := by decide
example : (L.filterK exHeap 0 .int (fun v => v != .int 2)).1.items 3 = [.int 1, .int 3] := by
  decide

/-- hypotheses of `C14_typeOf` / `C14_get`, `C14_all_empty`, `C14_parseVal_scalar` -/
example : 2 < (exHeap.items 0).length := by decide
example : L.typeOf exHeap 0 2 = .int ∧ L.typeOf exHeap 0 4 = .list := by decide
example : Heap.items [.list [] 0] 0 = [] := by decide
example : (GoVal.intw .u8 300).isScalar = true ∧ scalarVal (.intw .i64 (2 ^ 63)) = .int (-2 ^ 63) := by
  decide

/-- the hypothesis of `C14_map` holds for a callback that is scalar only on ints -/
example : ∀ v ∈ (exHeap.items 0).filterMap (selK exHeap .int), (exInc v).isScalar = true := by
  decide

example : L.mapK exHeap 0 .int exInc
    = (exHeap ++ [.list [.int 2, .int 3, .int 4] 0], .ok ⟨3, 0⟩) := by
  rw [C14_map exHeap 0 .int exInc (by decide)]; rfl

/-- hypothesis of `C14_map_untyped` / `C14_mapValues`: handing the value back -/
example : ∀ p ∈ (exHeap.items 0).zipIdx, ((fun (_ : Int) (v : Val) => v.toGo) (p.2 : Int)
    (exHeap.getVal p.1)).isScalar = true := fun _ _ => Val.toGo_isScalar _

/-- hypotheses of `C14_obj_map` / `C14_obj_mapK`: distinct keys, scalar results -/
example : ((exHeap.fields 2).map (·.1)).Nodup := by decide
example : ∀ v ∈ ((exHeap.fields 2).map (·.2)).filterMap (selK exHeap .int),
    (exInc v).isScalar = true := by decide
example : O.mapK exHeap 2 .int exInc
    = (exHeap ++ [.obj [(['a'], .int 11), (['c'], .int 31)] 0], .ok ⟨3, 0⟩) := by
  rw [C14_obj_mapK exHeap 2 .int exInc (by decide) (by decide)]; rfl
example : O.forEachK exHeap 2 .int = [.int 10, .int 30] := by decide

/-- a callback whose results allocate: every int becomes a two-element native slice; and one
that is unsupported from the second int on -/
def exDup : Val → GoVal
  | .int i => .slice .any [.intw .int i, .slice .int [.intw .int (i + 1)]]
  | _ => .unsupported

def exBad : Val → GoVal
  | .int 1 => .intw .int 1
  | _ => .slice .any [.nil, .unsupported]

/-- the hypothesis of `C14_map_general` is satisfiable with nested results: cells 4–9 are the
nested cells, cell 3 the result, cells 0–2 unchanged -/
example : L.mapK exHeap 0 .int exDup
    = (exHeap ++ [.list [.list ⟨4, 0⟩, .list ⟨6, 0⟩, .list ⟨8, 0⟩] 0,
        .list [.int 1, .list ⟨5, 0⟩] 0, .list [.int 2] 0,
        .list [.int 2, .list ⟨7, 0⟩] 0, .list [.int 3] 0,
        .list [.int 3, .list ⟨9, 0⟩] 0, .list [.int 4] 0], .ok ⟨3, 0⟩) := by rfl

/-- the hypothesis of `C14_map_general_panic_iff`: the first int is stored, the second result
panics inside a nested slice -/
example : (L.mapK exHeap 0 .int exBad).2 = .panic .unsupported ∧
    (L.mapK exHeap 0 .int exBad).1.items 3 = [.int 1] := ⟨by rfl, by rfl⟩

/-- hypotheses of `C14_obj_map_general` / `C14_obj_mapK_general` with allocating results -/
example : (O.mapK exHeap 2 .int exDup).2 = .ok ⟨3, 0⟩ ∧
    (O.mapK exHeap 2 .int exDup).1.fields 3 = [(['a'], .list ⟨4, 0⟩), (['c'], .list ⟨6, 0⟩)] :=
  ⟨by rfl, by rfl⟩
example : (O.map exHeap 2 (fun _ v => exDup v)).2 = .panic .unsupported := by rfl
example : (L.map exHeap 1 (fun i _ => .slice .int [.intw .int i])).2 = .ok ⟨3, 0⟩ ∧
    (L.mapValues exHeap 1 (fun _ => .map .any [(['k'], .nil)])).2 = .ok ⟨3, 0⟩ := ⟨by rfl, by rfl⟩

/-- hypothesis of the permutation theorems: a genuinely different order -/
example : ([(['c'], Val.int 30), (['a'], .int 10), (['d'], .list ⟨1, 0⟩), (['b'], .str ['x'])]).Perm
    (exHeap.fields 2) := by decide

end Examples

end Anytype

#print axioms Anytype.C14_sel_iff
#print axioms Anytype.C14_typeOf
#print axioms Anytype.C14_get
#print axioms Anytype.C14_select_typeOf
#print axioms Anytype.C14_slice
#print axioms Anytype.C14_slice_kind
#print axioms Anytype.C14_slice_typeOf
#print axioms Anytype.C14_slice_length
#print axioms Anytype.C14_slice_getElem
#print axioms Anytype.C14_slice_all_kind
#print axioms Anytype.C14_foreach
#print axioms Anytype.C14_foreach_typeOf
#print axioms Anytype.C14_foreach_untyped
#print axioms Anytype.C14_foreach_untyped_length
#print axioms Anytype.C14_foreach_untyped_get
#print axioms Anytype.C14_foreachValue
#print axioms Anytype.C14_filter
#print axioms Anytype.C14_filter_items
#print axioms Anytype.C14_filter_untyped
#print axioms Anytype.C14_filter_untyped_items
#print axioms Anytype.C14_reduce
#print axioms Anytype.C14_reduce_typeOf
#print axioms Anytype.C14_reduce_untyped
#print axioms Anytype.C14_parseVal_scalar
#print axioms Anytype.C14_map
#print axioms Anytype.C14_map_cells
#print axioms Anytype.C14_map_untyped
#print axioms Anytype.C14_mapValues
#print axioms Anytype.C14_all
#print axioms Anytype.C14_all_iff
#print axioms Anytype.C14_allNumeric
#print axioms Anytype.C14_allNumeric_iff
#print axioms Anytype.C14_all_empty
#print axioms Anytype.C14_obj_foreach
#print axioms Anytype.C14_obj_foreach_get
#print axioms Anytype.C14_obj_foreachK
#print axioms Anytype.C14_obj_foreach_perm
#print axioms Anytype.C14_obj_foreachK_perm
#print axioms Anytype.C14_obj_foreachK_reorder
#print axioms Anytype.C14_obj_map
#print axioms Anytype.C14_obj_mapK
#print axioms Anytype.C14_obj_mapK_lookup
#print axioms Anytype.C14_obj_map_lookup
#print axioms Anytype.C14_map_general_eq
#print axioms Anytype.C14_map_general
#print axioms Anytype.C14_map_general_iff
#print axioms Anytype.C14_map_general_panic_iff
#print axioms Anytype.C14_map_general_frame
#print axioms Anytype.C14_map_untyped_general_eq
#print axioms Anytype.C14_map_untyped_general
#print axioms Anytype.C14_map_untyped_general_iff
#print axioms Anytype.C14_map_untyped_general_panic_iff
#print axioms Anytype.C14_map_untyped_general_frame
#print axioms Anytype.C14_mapValues_general_eq
#print axioms Anytype.C14_mapValues_general
#print axioms Anytype.C14_mapValues_general_iff
#print axioms Anytype.C14_mapValues_general_panic_iff
#print axioms Anytype.C14_mapValues_general_frame
#print axioms Anytype.C14_obj_map_general_eq
#print axioms Anytype.C14_obj_map_general
#print axioms Anytype.C14_obj_map_general_iff
#print axioms Anytype.C14_obj_map_general_panic_iff
#print axioms Anytype.C14_obj_map_general_frame
#print axioms Anytype.C14_obj_visitsK
#print axioms Anytype.C14_obj_mapK_general_eq
#print axioms Anytype.C14_obj_mapK_general
#print axioms Anytype.C14_obj_mapK_general_iff
#print axioms Anytype.C14_obj_mapK_general_panic_iff
#print axioms Anytype.C14_obj_mapK_general_frame
