/-
C15 — For every container and every interleaving of the worker goroutines, ForEachAsync calls the
function exactly once per element/field with the matching (index or key, value) pair and returns
only after all calls have returned, and MapAsync returns exactly what Map returns for the same
pure function.  The library's own memory accesses in these calls are free of data races, and any
number of goroutines may run non-mutating operations on a shared unmodified container
concurrently with the same results as sequentially.

What is proved here, and about what.  `Model/Async.lean` gives a transition system (threads =
main + one worker per element, WaitGroup counter, mutex, event log) for a *skeleton* `Skel` of an
`…Async` method; `vextract` extracts the skeletons of the four Go methods from the source and
`Anytype/Generated/Async.lean` checks (`decide`) that each of them is one of the two accepted
skeletons `forEachSkel`, `mapSkel` (`WellFormed`).  The theorems below hold for every
well-formed skeleton, EVERY number of elements `n` and EVERY schedule (`Reachable s n st` = `st`
is reached by some interleaving).  A worker carries the index `i` of its element; the `i`-th
element/field `x_i` of the unmodified container is determined by `i` (the `go` statement
evaluates `i` and `item.getVal()` in main, at spawn time: `ArgPass.byValue`), so "call with
argument `i`" stands for "call with `(i, x_i)`" (for objects: `i` = position of the key in the
iteration order of that run).

Outside the model: real memory (data races are checked dynamically with the race detector; the
model's counterpart is `unsyncWrite = false`: `result` is stored only under the mutex), panics
inside the callback, the unspecified iteration order of Go maps (any order is some numbering).
-/
import Anytype.Lemmas.AsyncWF
import Anytype.Model.Heap
namespace Anytype
open Async

/-! ### non-vacuity: both skeletons are well-formed and have reachable returned states -/

example : WellFormed forEachSkel = true := by decide
example : WellFormed mapSkel = true := by decide

/-- a complete schedule of the Map skeleton for two elements (worker 1 takes the mutex first) -/
def exSchedule : List Action :=
  [.add, .spawn, .spawn, .work 1, .work 1, .work 1, .work 1, .work 0, .work 0, .work 0, .work 0,
   .work 0, .work 1, .wait]

def exFinal : State :=
  (runSchedule mapSkel 2 (init mapSkel 2) exSchedule).getD (init mapSkel 2)

theorem exFinal_reachable : Reachable mapSkel 2 exFinal :=
  reachable_of_runSchedule (st := init mapSkel 2) (as := exSchedule) .init (by decide)

example : exFinal.main = .returned := by decide
example : exFinal.log = [.callStart 1, .callEnd 1, .write 1, .callStart 0, .callEnd 0, .write 0,
    .ret] := by decide

/-! ### 1. no panic -/

/-- the WaitGroup counter never goes negative, no goroutine unlocks a mutex it does not hold, and
`result` is never stored without the mutex -/
theorem C15_no_panic {s : Skel} {n : Nat} {st : State} (hwf : WellFormed s = true)
    (hr : Reachable s n st) :
    st.panicked = false ∧ 0 ≤ st.counter ∧ st.unsyncWrite = false := by
  have hc := core_of_wf hwf hr
  exact ⟨hc.noPanic, hc.counter_nonneg (by have := callPos_lt hwf; omega), hc.noUnsync⟩

example : exFinal.panicked = false ∧ 0 ≤ exFinal.counter ∧ exFinal.unsyncWrite = false :=
  C15_no_panic (by decide) exFinal_reachable

/-- a worker whose next statement is `mutex.Unlock()` holds the mutex -/
theorem C15_unlock_by_holder {s : Skel} {n : Nat} {st : State} {i : Nat} {w : Worker}
    (hwf : WellFormed s = true) (hr : Reachable s n st) (hw : st.workers[i]? = some w)
    (hb : s.body[w.pc]? = some .unlock) : st.mutex = some i := by
  rcases wf_cases hwf with rfl | rfl
  · rcases forEach_body_cases hb with ⟨_, e⟩ | ⟨_, e⟩ <;> cases e
  · have I := invMap_of_reachable hr
    rcases map_body_cases hb with ⟨_, e⟩ | ⟨_, e⟩ | ⟨hpc, _⟩ | ⟨_, e⟩
    · cases e
    · cases e
    · exact (I.cs i w hw).1 (Or.inr hpc)
    · cases e

/-! ### 2. the method returns only after every call has returned -/

/-- in a returned state every worker is live, has run its whole body (in particular `callEnd`
and `Done`), is not inside the callback, and its `callEnd` is in the log -/
theorem C15_return_after_all {s : Skel} {n : Nat} {st : State} (hwf : WellFormed s = true)
    (hr : Reachable s n st) (hret : st.main = .returned) (i : Nat) (hi : i < n) :
    (∃ w, st.workers[i]? = some w ∧ w.live = true ∧ w.pc = s.body.length ∧ w.inCall = false) ∧
    Event.callEnd i ∈ st.log := by
  have hc := core_of_wf hwf hr
  have hcl := callPos_lt hwf
  obtain ⟨w, hw, hl, hpc, hic, _⟩ := hc.returned_all (by omega) hret i hi
  refine ⟨⟨w, hw, hl, hpc, hic⟩, ?_⟩
  rw [← List.count_pos_iff, (hc.counts i).2, hw]
  simp only
  rw [if_pos (by omega)]; omega

example : Event.callEnd 0 ∈ exFinal.log :=
  (C15_return_after_all (by decide) exFinal_reachable (by decide) 0 (by decide)).2

/-- `ret` is logged exactly once, as the last event, after which nothing happens: a returned
state has no enabled action -/
theorem C15_ret_last {s : Skel} {n : Nat} {st : State} (hwf : WellFormed s = true)
    (hr : Reachable s n st) (hret : st.main = .returned) :
    (observe st.log).getLast? = some .ret ∧ st.log.count .ret = 1 ∧ enabled s n st = [] := by
  have hc := core_of_wf hwf hr
  have hv := validTrace_counts (hc.trace_valid hret)
  refine ⟨hv.2.2.2.2, ?_, ?_⟩
  · rw [← count_observe _ (by rfl)]; exact hv.2.2.2.1
  · rw [List.eq_nil_iff_forall_not_mem]
    intro a ha
    rw [mem_enabled] at ha
    cases a with
    | add => simp [isEnabled, hret] at ha
    | spawn => simp [isEnabled, hret] at ha
    | wait => simp [isEnabled, hret] at ha
    | work i =>
      obtain ⟨w, b, hw, _, hb, _⟩ := isEnabled_work ha
      have := hc.ret hret w (List.mem_iff_getElem?.2 ⟨i, hw⟩)
      have := lt_length_of_getElem? hb
      omega

/-! ### 3. exactly once, with the matching argument -/

/-- in every reachable state the callback has been entered at most once for each index, left at
most as often as entered, and never for an index that is not an element -/
theorem C15_at_most_once {s : Skel} {n : Nat} {st : State} (hwf : WellFormed s = true)
    (hr : Reachable s n st) (i : Nat) :
    st.log.count (.callStart i) ≤ 1 ∧ st.log.count (.callEnd i) ≤ st.log.count (.callStart i) ∧
    (n ≤ i → Event.callStart i ∉ st.log ∧ Event.callEnd i ∉ st.log) := by
  have hc := core_of_wf hwf hr
  obtain ⟨h1, h2⟩ := hc.counts i
  refine ⟨?_, ?_, hc.no_events_out_of_range i⟩
  · rw [h1]; split
    · split <;> omega
    · omega
  · rw [h1, h2]; split
    · split
      · next h => rw [if_pos (Or.inl h)]; omega
      · omega
    · omega

/-- in a returned state: exactly one `callStart i` and exactly one `callEnd i` for every `i < n` -/
theorem C15_exactly_once {s : Skel} {n : Nat} {st : State} (hwf : WellFormed s = true)
    (hr : Reachable s n st) (hret : st.main = .returned) (i : Nat) (hi : i < n) :
    st.log.count (.callStart i) = 1 ∧ st.log.count (.callEnd i) = 1 := by
  have hc := core_of_wf hwf hr
  have hv := (validTrace_counts (hc.trace_valid hret)).1 i hi
  rw [count_observe _ (by rfl), count_observe _ (by rfl)] at hv
  exact hv

example : exFinal.log.count (.callStart 1) = 1 ∧ exFinal.log.count (.callEnd 1) = 1 :=
  C15_exactly_once (by decide) exFinal_reachable (by decide) 1 (by decide)

/-- worker `i` carries the index `i` (by-value argument passing), and every event a step of
worker `i` appends to the log is about index `i`: the call made by worker `i` is `f(i, x_i)` -/
theorem C15_call_argument {s : Skel} {n : Nat} {st : State} {i : Nat} (hwf : WellFormed s = true)
    (hr : Reachable s n st) (he : isEnabled s n st (.work i) = true) :
    (∃ w, st.workers[i]? = some w ∧ w.arg = i) ∧
    ∃ evs, (step s n st (.work i)).log = st.log ++ evs ∧ ∀ e ∈ evs, e.index? = some i := by
  have hc := core_of_wf hwf hr
  obtain ⟨w, b, hw, hl, hb, _⟩ := isEnabled_work he
  have ha := (hc.wk i w hw).arg hl
  refine ⟨⟨w, hw, ha⟩, ?_⟩
  have hs : s.args = .byValue := by rcases wf_cases hwf with rfl | rfl <;> rfl
  obtain ⟨evs, hlog, hidx, _⟩ := stepWorker_log (n := n) (st := st) (i := i) (w := w) hs
  refine ⟨evs, ?_, ?_⟩
  · simp only [step, hw]; exact hlog
  · intro e he; rw [hidx e he, ha]

/-! ### 4. the mutex of MapAsync -/

/-- a worker between `Lock` and `Unlock` is the holder of the mutex … -/
theorem C15_mutex {s : Skel} {n : Nat} {st : State} {i : Nat} {w : Worker}
    (hwf : WellFormed s = true) (hr : Reachable s n st) (hw : st.workers[i]? = some w)
    (hb : betweenLockUnlock s w) : st.mutex = some i := by
  rcases wf_cases hwf with rfl | rfl
  · exact absurd hb between_forEach
  · have I := invMap_of_reachable hr
    exact (I.cs i w hw).1 ((between_map_iff (I.core.wk i w hw).pc_le).1 hb)

/-- … hence at most one worker is between `Lock` and `Unlock` -/
theorem C15_mutex_exclusive {s : Skel} {n : Nat} {st : State} {i j : Nat} {w v : Worker}
    (hwf : WellFormed s = true) (hr : Reachable s n st)
    (hw : st.workers[i]? = some w) (hv : st.workers[j]? = some v)
    (hi : betweenLockUnlock s w) (hj : betweenLockUnlock s v) : i = j := by
  have h1 := C15_mutex hwf hr hw hi
  have h2 := C15_mutex hwf hr hv hj
  rw [h1] at h2; exact Option.some.inj h2

/-- in MapAsync the callback runs under the mutex -/
theorem C15_callback_under_mutex {n : Nat} {st : State} {i : Nat} {w : Worker}
    (hr : Reachable mapSkel n st) (hw : st.workers[i]? = some w) (hc : w.inCall = true) :
    st.mutex = some i := by
  have I := invMap_of_reachable hr
  exact (I.cs i w hw).1 (Or.inl ((I.core.wk i w hw).inCall hc))

/-- `write j` is appended only by worker `j`, and only while it holds the mutex -/
theorem C15_write_owner {n : Nat} {st : State} {i : Nat} (hr : Reachable mapSkel n st)
    (he : isEnabled mapSkel n st (.work i) = true) (j : Nat)
    (hj : Event.write j ∈ (step mapSkel n st (.work i)).log) :
    Event.write j ∈ st.log ∨ (j = i ∧ st.mutex = some i) :=
  map_write_owner (invMap_of_reachable hr) he j hj

/-- every slot is written at most once, and exactly once when the method has returned;
ForEachAsync writes nothing -/
theorem C15_write_once {s : Skel} {n : Nat} {st : State} (hwf : WellFormed s = true)
    (hr : Reachable s n st) (j : Nat) :
    st.log.count (.write j) ≤ 1 ∧
    (st.main = .returned → j < n → st.log.count (.write j) = if s.hasResult then 1 else 0) ∧
    (n ≤ j → Event.write j ∉ st.log) := by
  rcases wf_cases hwf with rfl | rfl
  · have I := invFE_of_reachable hr
    have h0 := List.count_eq_zero.2 (I.noWrite j)
    exact ⟨by omega, fun _ _ => by simp [forEachSkel, h0], fun _ => I.noWrite j⟩
  · have I := invMap_of_reachable hr
    refine ⟨map_write_count_le I j, ?_, I.writesOut j⟩
    intro hret hj
    obtain ⟨w, hw, _, hpc, _, _⟩ := I.core.returned_all (by omega) hret j hj
    rw [I.writes j w hw, hpc]; simp [mapSkel]

/-- MapAsync: when the method returns, slot `i` of `result` holds the value computed from
element `i`, for every `i` … -/
theorem C15_map_result {n : Nat} {st : State} (hr : Reachable mapSkel n st)
    (hret : st.main = .returned) : st.result = (List.range n).map some :=
  map_result_returned (invMap_of_reachable hr) hret

/-- what the model's `result` stands for, given the elements `xs` and the callback `f` -/
def materialize {α β} (f : Nat → α → β) (xs : List α) (res : List (Option Nat)) : List (Option β) :=
  res.map (fun o => o.bind (fun i => xs[i]?.map (f i)))

/-- … i.e. the result is `[f 0 x_0, f 1 x_1, …]`, which is what the sequential `Map` computes
for the pure `f` (C14: `Map` stores `f(i, Get(i))` at position `i`) -/
theorem C15_map_result_values {α β} (f : Nat → α → β) (xs : List α) {st : State}
    (hr : Reachable mapSkel xs.length st) (hret : st.main = .returned) :
    materialize f xs st.result = (xs.mapIdx f).map some := by
  rw [materialize, C15_map_result hr hret]
  apply List.ext_getElem?
  intro i
  simp only [List.getElem?_map, List.getElem?_mapIdx]
  by_cases hi : i < xs.length
  · simp [List.getElem?_range hi, List.getElem?_eq_getElem hi]
  · have hle : xs.length ≤ i := Nat.le_of_not_lt hi
    have h1 : (List.range xs.length)[i]? = none := List.getElem?_eq_none (by simpa using hle)
    have h2 : xs[i]? = none := List.getElem?_eq_none hle
    simp [h1, h2]

example : materialize (fun i (x : Nat) => x * 10 + i) [5, 7] exFinal.result = [some 50, some 71] :=
  C15_map_result_values _ [5, 7] exFinal_reachable (by decide)

/-! ### 5. progress -/

/-- no deadlock: a reachable state in which the method has not returned has an enabled action
(and is not panicked, by `C15_no_panic`) -/
theorem C15_progress {s : Skel} {n : Nat} {st : State} (hwf : WellFormed s = true)
    (hr : Reachable s n st) (hnr : st.main ≠ .returned) : ∃ a, a ∈ enabled s n st := by
  obtain ⟨a, ha⟩ := progress_wf hwf hr hnr
  exact ⟨a, mem_enabled.2 ha⟩

/-- every step strictly decreases `measure` (for EVERY skeleton, also the rejected ones) -/
theorem C15_measure_decreases {s : Skel} {n : Nat} {st : State} {a : Action}
    (hr : Reachable s n st) (ha : a ∈ enabled s n st) :
    measure s n (step s n st a) < measure s n st :=
  measure_step_lt (basic_of_reachable hr) (mem_enabled.1 ha)

/-- so every execution has at most `n + 2 + 2·n·|body|` steps … -/
theorem C15_run_bounded {s : Skel} {n : Nat} {st : State} {as : List Action}
    (h : Run s n (init s n) as st) : as.length ≤ n + 2 + n * (2 * s.body.length) := by
  have := h.length_le .init
  rw [measure_init] at this
  omega

/-- … and a maximal one (nothing enabled any more) ends with the method returned -/
theorem C15_terminal_returned {s : Skel} {n : Nat} {st : State} (hwf : WellFormed s = true)
    (hr : Reachable s n st) (hterm : enabled s n st = []) : st.main = .returned := by
  cases hm : st.main with
  | returned => rfl
  | start =>
    obtain ⟨a, ha⟩ := C15_progress hwf hr (by rw [hm]; intro h; cases h)
    rw [hterm] at ha; cases ha
  | spawned k =>
    obtain ⟨a, ha⟩ := C15_progress hwf hr (by rw [hm]; intro h; cases h)
    rw [hterm] at ha; cases ha

example : enabled mapSkel 2 exFinal = [] := by decide

/-! ### 6. observable traces -/

/-- the observable trace of a completed call is accepted by `validTrace`: a trace recorded from
the real goroutines that `validTrace` rejects cannot be produced by the model -/
theorem C15_trace_sound {s : Skel} {n : Nat} {st : State} (hwf : WellFormed s = true)
    (hr : Reachable s n st) (hret : st.main = .returned) :
    validTrace s.hasResult n (observe st.log) = true :=
  (core_of_wf hwf hr).trace_valid hret

/-- what `validTrace` accepts, declaratively: every `i < n` is entered exactly once and left
exactly once, the entry before the exit; no event for `i ≥ n`; `ret` exactly once and last; for
Map the intervals are pairwise disjoint -/
theorem C15_validTrace_spec {isMap : Bool} {n : Nat} {tr : List Event}
    (h : validTrace isMap n tr = true) :
    (∀ i, i < n → tr.count (.callStart i) = 1 ∧ tr.count (.callEnd i) = 1 ∧
      tr.idxOf (.callStart i) < tr.idxOf (.callEnd i)) ∧
    (∀ i, n ≤ i → Event.callStart i ∉ tr ∧ Event.callEnd i ∉ tr) ∧
    (∀ i, Event.write i ∉ tr) ∧
    tr.count .ret = 1 ∧ tr.getLast? = some .ret ∧
    (isMap = true → ∀ i j, i < n → j < n → i ≠ j →
      tr.idxOf (.callEnd i) < tr.idxOf (.callStart j) ∨
      tr.idxOf (.callEnd j) < tr.idxOf (.callStart i)) := by
  obtain ⟨h1, h2, h3, h4, h5⟩ := validTrace_counts h
  obtain ⟨h6, h7⟩ := validTrace_order h
  exact ⟨fun i hi => ⟨(h1 i hi).1, (h1 i hi).2, h6 i hi⟩, h2, h3, h4, h5, h7⟩

example : validTrace true 2
    [.callStart 1, .callEnd 1, .callStart 0, .callEnd 0, .ret] = true := by decide
example : validTrace true 2
    [.callStart 1, .callStart 0, .callEnd 1, .callEnd 0, .ret] = false := by decide
example : validTrace false 2
    [.callStart 1, .callStart 0, .callEnd 1, .callEnd 0, .ret] = true := by decide
example : validTrace false 2 [.callStart 1, .callEnd 1, .ret, .callStart 0, .callEnd 0] = false := by
  decide

/-! ### 7. packaging -/

/-- the executable checker used by `exploreAll` / `firstViolation` finds nothing in any
reachable state of a well-formed skeleton, for any `n` -/
theorem C15_checker_agrees {s : Skel} {n : Nat} {st : State} (hwf : WellFormed s = true)
    (hr : Reachable s n st) : violation? s n st = none ∧ deadlocked s n st = false :=
  ⟨violation_none hwf hr, not_deadlocked hwf hr⟩

/-- items 1–6 for one skeleton -/
structure SafeSkel (s : Skel) : Prop where
  no_panic : ∀ n st, Reachable s n st →
    st.panicked = false ∧ 0 ≤ st.counter ∧ st.unsyncWrite = false
  return_after_all : ∀ n st, Reachable s n st → st.main = .returned → ∀ i, i < n →
    (∃ w, st.workers[i]? = some w ∧ w.live = true ∧ w.pc = s.body.length ∧ w.inCall = false) ∧
    Event.callEnd i ∈ st.log
  at_most_once : ∀ n st, Reachable s n st → ∀ i,
    st.log.count (.callStart i) ≤ 1 ∧ st.log.count (.callEnd i) ≤ st.log.count (.callStart i) ∧
    (n ≤ i → Event.callStart i ∉ st.log ∧ Event.callEnd i ∉ st.log)
  exactly_once : ∀ n st, Reachable s n st → st.main = .returned → ∀ i, i < n →
    st.log.count (.callStart i) = 1 ∧ st.log.count (.callEnd i) = 1
  call_argument : ∀ n st i, Reachable s n st → isEnabled s n st (.work i) = true →
    (∃ w, st.workers[i]? = some w ∧ w.arg = i) ∧
    ∃ evs, (step s n st (.work i)).log = st.log ++ evs ∧ ∀ e ∈ evs, e.index? = some i
  mutex : ∀ n st (i : Nat) (w : Worker), Reachable s n st → st.workers[i]? = some w →
    betweenLockUnlock s w → st.mutex = some i
  write_once : ∀ n st, Reachable s n st → ∀ j,
    st.log.count (.write j) ≤ 1 ∧
    (st.main = .returned → j < n → st.log.count (.write j) = if s.hasResult then 1 else 0) ∧
    (n ≤ j → Event.write j ∉ st.log)
  result : s.hasResult = true → ∀ n st, Reachable s n st → st.main = .returned →
    st.result = (List.range n).map some
  progress : ∀ n st, Reachable s n st → st.main ≠ .returned → ∃ a, a ∈ enabled s n st
  measure_decreases : ∀ n st a, Reachable s n st → a ∈ enabled s n st →
    measure s n (step s n st a) < measure s n st
  trace_sound : ∀ n st, Reachable s n st → st.main = .returned →
    validTrace s.hasResult n (observe st.log) = true
  checker : ∀ n st, Reachable s n st → violation? s n st = none ∧ deadlocked s n st = false

theorem C15_wellformed_safe {s : Skel} (hwf : WellFormed s = true) : SafeSkel s where
  no_panic := fun _ _ hr => C15_no_panic hwf hr
  return_after_all := fun _ _ hr hret => C15_return_after_all hwf hr hret
  at_most_once := fun _ _ hr => C15_at_most_once hwf hr
  exactly_once := fun _ _ hr hret => C15_exactly_once hwf hr hret
  call_argument := fun _ _ _ hr he => C15_call_argument hwf hr he
  mutex := fun _ _ _ _ hr hw hb => C15_mutex hwf hr hw hb
  write_once := fun _ _ hr => C15_write_once hwf hr
  result := fun hres n st hr hret => by
    rcases wf_cases hwf with rfl | rfl
    · cases hres
    · exact C15_map_result hr hret
  progress := fun _ _ hr hnr => C15_progress hwf hr hnr
  measure_decreases := fun _ _ _ hr ha => C15_measure_decreases hr ha
  trace_sound := fun _ _ hr hret => C15_trace_sound hwf hr hret
  checker := fun _ _ hr => C15_checker_agrees hwf hr

/-! ### 8. negative sanity: the model rejects broken protocols -/

/-- `group.Done()` before the callback: the method can return while a callback is running -/
def doneFirstSkel : Skel := { forEachSkel with body := [.done, .call] }
/-- MapAsync without the mutex -/
def noMutexSkel : Skel := { mapSkel with body := [.callWrite, .done] }
/-- a closure capturing the (go 1.18, shared) loop variables -/
def capturedSkel : Skel := { forEachSkel with args := .captured }
/-- no `wg.Wait()` -/
def noWaitSkel : Skel := { forEachSkel with waitBeforeReturn := false }
/-- `wg.Add` forgotten -/
def noAddSkel : Skel := { forEachSkel with add := .missing }
/-- `Unlock` forgotten -/
def noUnlockSkel : Skel := { mapSkel with body := [.lock, .callWrite, .done] }

theorem C15_neg_done_first : (firstViolation doneFirstSkel 1).isSome = true := by decide
theorem C15_neg_no_mutex : (firstViolation noMutexSkel 2).isSome = true := by decide
theorem C15_neg_captured : (firstViolation capturedSkel 2).isSome = true := by decide
theorem C15_neg_no_wait : (firstViolation noWaitSkel 1).isSome = true := by decide
theorem C15_neg_no_add : (firstViolation noAddSkel 1).isSome = true := by decide
theorem C15_neg_no_unlock : (firstViolation noUnlockSkel 2).isSome = true := by decide

/-- without the mutex two callbacks can overlap: an observable trace that `validTrace true`
rejects is reachable -/
theorem C15_neg_no_mutex_overlap :
    ∃ st, Reachable noMutexSkel 2 st ∧
      observe st.log = [.callStart 0, .callStart 1] ∧
      (runMon true 2 (observe st.log)).isNone = true :=
  ⟨_, reachable_of_runSchedule (st := init noMutexSkel 2)
      (as := [.add, .spawn, .spawn, .work 0, .work 1]) .init rfl, by decide, by decide⟩

/-- and the accepted skeletons pass the exhaustive exploration for small `n` (all schedules) -/
theorem C15_explore_clean :
    firstViolation forEachSkel 0 = none ∧ firstViolation forEachSkel 1 = none ∧
    firstViolation forEachSkel 2 = none ∧ firstViolation mapSkel 0 = none ∧
    firstViolation mapSkel 1 = none ∧ firstViolation mapSkel 2 = none := by
  decide

/-! ### read-only operations -/

/-- The second sentence of the property, in the model: a non-mutating operation is a *function*
of the heap (it does not return a new heap), so any number of them evaluated in any order on the
same heap give the same results as sequentially.  (That the operations listed as read-only do
not write is the generated, source-level statement `Generated.readonly_do_not_write`; data races
on real memory are outside the model and are checked dynamically with the race detector.) -/
theorem C15_readonly_commute {α β : Type} (f : Heap → α) (g : Heap → β) (h : Heap) :
    (let a := f h; let b := g h; (a, b)) = (let b := g h; let a := f h; (a, b)) := rfl

/-- … for any number of readers and any permutation of the order in which they run -/
theorem C15_readonly_any_order {α : Type} (fs : List (Heap → α)) (h : Heap)
    (order : List Nat) :
    order.map (fun i => (fs[i]?).map (· h)) = order.map (fun i => ((fs.map (· h))[i]?)) := by
  simp

#print axioms C15_no_panic
#print axioms C15_unlock_by_holder
#print axioms C15_return_after_all
#print axioms C15_ret_last
#print axioms C15_at_most_once
#print axioms C15_exactly_once
#print axioms C15_call_argument
#print axioms C15_mutex
#print axioms C15_mutex_exclusive
#print axioms C15_callback_under_mutex
#print axioms C15_write_owner
#print axioms C15_write_once
#print axioms C15_map_result
#print axioms C15_map_result_values
#print axioms C15_progress
#print axioms C15_measure_decreases
#print axioms C15_run_bounded
#print axioms C15_terminal_returned
#print axioms C15_trace_sound
#print axioms C15_validTrace_spec
#print axioms C15_checker_agrees
#print axioms C15_wellformed_safe
#print axioms C15_neg_done_first
#print axioms C15_neg_no_mutex
#print axioms C15_neg_captured
#print axioms C15_neg_no_wait
#print axioms C15_neg_no_add
#print axioms C15_neg_no_unlock
#print axioms C15_neg_no_mutex_overlap
#print axioms C15_explore_clean
#print axioms C15_readonly_commute
#print axioms C15_readonly_any_order

end Anytype
