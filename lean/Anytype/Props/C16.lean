/-
C16: for every container over finite floats (and valid-UTF-8 strings: `Str` is a list of scalar
values) and every indent 0..10, `FormatString(n)` is a non-empty valid JSON text denoting the same
data as `String()`, laid out canonically (`pretty`: one element per line, `n` spaces per nesting
level, empty containers on one line); every other indent panics.

`formatString : Int → JVal → Option Str` takes a value tree and returns a text: there is no heap
argument, so no call can modify a container (the driver serialises the receiver to its tree first,
a read-only operation: C14).

No assumption about floating point is left: `FmtContract` (the serialiser's shortest formatting is read back as
the identical float64) is the theorem `fmtContract_holds` (`Lemmas/FmtContractHolds.lean`: seventeen digits
always suffice; the 'e' and 'f' layouts preserve the value).
-/
import Anytype.Lemmas.Indent
import Anytype.Lemmas.FmtContractHolds
namespace Anytype

/-- Go's `json.Indent` applied to `String()` yields exactly the canonical layout defined on the tree -/
theorem C16_indent_pretty (n : Nat) (v : JVal) (hw : v.WF) :
    indentGo n (ser v) false false false 0 = pretty n 0 v := by
  have := indentGo_ser fmtContract_holds n v hw 0 []
  simpa [indentGo] using this

/-- the canonical layout is a valid RFC 8259 text and the strict decoder recovers the same tree
(for every indent width, not only 0..10) -/
theorem C16_lossless (n : Nat) (v : JVal) (hw : v.WF) :
    Strict.decode (pretty n 0 v) = .ok v [] :=
  Strict.decode_pretty fmtContract_holds n v hw

/-- it denotes exactly the same data as `String()` -/
theorem C16_same_data (n : Nat) (v : JVal) (hw : v.WF) :
    Strict.decode (pretty n 0 v) = Strict.decode (ser v) := by
  rw [C16_lossless n v hw, Strict.decode, (Strict.ser_goodHead fmtContract_holds v hw).skipWs]
  have := Strict.value_ser fmtContract_holds v hw ((ser v).length + 1) [] (by omega) (Or.inl rfl)
  rw [List.append_nil] at this
  rw [this]; rfl

/-- the layout of a container is never empty -/
theorem C16_nonempty (n : Nat) (v : JVal) (hc : v.isContainer = true) : pretty n 0 v ≠ [] := by
  cases v with
  | list xs => cases xs <;> simp [pretty]
  | obj kvs => cases kvs <;> simp [pretty]
  | _ => simp [JVal.isContainer] at hc

/-- re-indenting canonically reproduces the text byte for byte: whatever tree the text decodes to,
laying that tree out again gives the same text -/
theorem C16_canonical (n : Nat) (v v' : JVal) (hw : v.WF) (r : Str)
    (hd : Strict.decode (pretty n 0 v) = .ok v' r) : pretty n 0 v' = pretty n 0 v := by
  rw [C16_lossless n v hw] at hd
  cases hd; rfl

/-- for an indent in 0..10 `FormatString` returns the canonical layout -/
theorem C16_formatString (n : Int) (h0 : 0 ≤ n) (h10 : n ≤ 10) (v : JVal) (hw : v.WF) :
    formatString n v = some (pretty n.toNat 0 v) := by
  have : (n < 0 || n > 10) = false := by simp; omega
  simp only [formatString, this, hasNonFinite_of_WF v hw, Bool.false_eq_true, if_false,
    C16_indent_pretty n.toNat v hw]

/-- the full statement about the returned text -/
theorem C16_valid_canonical (n : Int) (h0 : 0 ≤ n) (h10 : n ≤ 10) (v : JVal) (hw : v.WF)
    (hc : v.isContainer = true) :
    ∃ t, formatString n v = some t ∧ t ≠ [] ∧ t = pretty n.toNat 0 v ∧
      Strict.decode t = .ok v [] ∧ Strict.decode t = Strict.decode (ser v) ∧
      Strict.isStrictJSON t = true :=
  ⟨_, C16_formatString n h0 h10 v hw, C16_nonempty _ v hc, rfl, C16_lossless _ v hw,
    C16_same_data _ v hw, by unfold Strict.isStrictJSON; rw [C16_lossless _ v hw]⟩

/-- exactly the indents outside 0..10 panic (`none`), whatever the container holds -/
theorem C16_range (n : Int) (v : JVal) : formatString n v = none ↔ n < 0 ∨ n > 10 := by
  unfold formatString
  by_cases h : n < 0 ∨ n > 10
  · have : (n < 0 || n > 10) = true := by simpa using h
    simp [this, h]
  · have : (n < 0 || n > 10) = false := by simpa using h
    simp only [this, Bool.false_eq_true, if_false]
    split <;> simp [h]

/-! ### non-vacuity -/

example : (JVal.obj sampleFields).WF ∧ (JVal.obj sampleFields).isContainer = true := ⟨sampleFields_WF, rfl⟩
example : (JVal.list sampleList).WF ∧ (JVal.list sampleList).isContainer = true := ⟨sampleList_WF, rfl⟩

/-- a concrete layout: nested list/object with a string containing `"`, `\`, `,`, `]` -/
example : formatString 2 (.list [.int 1, .obj [(['a'], .list []), (['b'], .str ['"', ',', ']', '\\'])], .list [.null]]) =
    some "[\n  1,\n  {\n    \"a\": [],\n    \"b\": \"\\\",]\\\\\"\n  },\n  [\n    null\n  ]\n]".toList := by
  decide

example : formatString 0 (.list [.bool true, .obj []]) = some "[\ntrue,\n{}\n]".toList := by decide
example : formatString 11 (.list []) = none := by decide
example : formatString (-1) (.list []) = none := by decide
example : formatString 10 (.obj []) = some ['{', '}'] := by decide

end Anytype

#print axioms Anytype.C16_indent_pretty
#print axioms Anytype.C16_lossless
#print axioms Anytype.C16_same_data
#print axioms Anytype.C16_nonempty
#print axioms Anytype.C16_canonical
#print axioms Anytype.C16_formatString
#print axioms Anytype.C16_valid_canonical
#print axioms Anytype.C16_range
