/-
C17 — Sort on a homogeneous list of strings / ints / NaN-free floats sorts that same list in
place into non-decreasing order, as a permutation, idempotently; Reverse moves position `i` to
`n-1-i` in place; Sort on a list starting with another kind panics and changes nothing.
-/
import Anytype.Lemmas.HeapWF
namespace Anytype
open Heap

def exS : Heap := [.list [.int 3, .int 1, .int 2, .int 1] 0, .list [.nil, .int 1] 0]
def exT : Heap := [.list [.str ['b', 'a'], .str ['b'], .str []] 0]
def exF : Heap := [.list [.float F64.one, .float F64.negZero, .float F64.negInf, .float F64.posZero] 0]

/-! ## the orders used by Sort -/

/-- `strLe` (bytewise order of UTF-8 strings = lexicographic order of code points) is a total order -/
theorem C17_strLe_order :
    (∀ s, L.strLe s s = true) ∧
    (∀ a b c, L.strLe a b = true → L.strLe b c = true → L.strLe a c = true) ∧
    (∀ a b, L.strLe a b = true → L.strLe b a = true → a = b) ∧
    (∀ a b, L.strLe a b = true ∨ L.strLe b a = true) :=
  ⟨L.strLe_refl, L.strLe_trans, L.strLe_antisymm,
   fun a b => by have := L.strLe_total a b; simpa using this⟩

/-- `floatLe` (from the `less` of `sort.Float64s`) is a total preorder on all float64 values; on
NaN-free values it is Go's `!(y < x)` and it is the order of the sign-magnitude key (`±0` equal) -/
theorem C17_floatLe_order :
    (∀ a b c, L.floatLe a b = true → L.floatLe b c = true → L.floatLe a c = true) ∧
    (∀ a b, L.floatLe a b = true ∨ L.floatLe b a = true) ∧
    (∀ x y, x.isNaN = false → y.isNaN = false → L.floatLe x y = !F64.ltGo y x) ∧
    (∀ x y, x.isNaN = false → y.isNaN = false → F64.ltGo x y = decide (F64.key x < F64.key y)) :=
  ⟨L.floatLe_trans, fun a b => by have := L.floatLe_total a b; simpa using this,
   L.floatLe_eq_not_ltGo, F64.ltGo_eq_key⟩

/-! ## 8. Sort on homogeneous lists -/

/-- Sort on a non-empty all-int list: same cell `a`, sorted non-decreasingly, a permutation of the
original (nothing lost, duplicated or altered), and sorting again changes nothing -/
theorem C17_sort_ints (h : Heap) (a : Nat) (hl : h.isList a = true) (hne : h.items a ≠ [])
    (hall : ∀ x ∈ h.items a, ∃ i, x = .int i) :
    ∃ ys : List Int,
      L.sort h a = (h.setItems a (ys.map .int), .ok (h.egoRef a)) ∧
      ys.Pairwise (· ≤ ·) ∧
      (ys.map Val.int).Perm (h.items a) ∧
      L.sort (h.setItems a (ys.map .int)) a = (h.setItems a (ys.map .int), .ok (h.egoRef a)) ∧
      (h.setItems a (ys.map .int)).items a = ys.map .int ∧
      ∀ b, b ≠ a → (h.setItems a (ys.map .int))[b]? = h[b]? := by
  have hx := (L.map_filterMap_asInt _ hall).symm
  have hne' : (h.items a).filterMap L.asInt ≠ [] := by
    intro hc; rw [hc] at hx; exact hne hx
  obtain ⟨ys, h1, h2, h3, h4⟩ := L.sort_generic Val.int (fun x y => decide (x ≤ y)) L.intLe_trans
    L.intLe_total L.sort_ints h a _ hl hne' hx
  exact ⟨ys, h1, h2.imp (fun hxy => by simpa using hxy), h3, h4, items_setItems_same _ hl,
    fun b hb => getElem?_setItems_ne h _ hb⟩

example : exS.isList 0 = true ∧ exS.items 0 ≠ [] ∧ ∀ x ∈ exS.items 0, ∃ i, x = .int i := by
  refine ⟨by decide, by decide, ?_⟩
  simp [exS, Heap.items]

/-- Sort on a non-empty all-string list (order: `strLe`, see `C17_strLe_order`) -/
theorem C17_sort_strs (h : Heap) (a : Nat) (hl : h.isList a = true) (hne : h.items a ≠ [])
    (hall : ∀ x ∈ h.items a, ∃ s, x = .str s) :
    ∃ ys : List Str,
      L.sort h a = (h.setItems a (ys.map .str), .ok (h.egoRef a)) ∧
      ys.Pairwise (fun s t => L.strLe s t = true) ∧
      (ys.map Val.str).Perm (h.items a) ∧
      L.sort (h.setItems a (ys.map .str)) a = (h.setItems a (ys.map .str), .ok (h.egoRef a)) ∧
      (h.setItems a (ys.map .str)).items a = ys.map .str ∧
      ∀ b, b ≠ a → (h.setItems a (ys.map .str))[b]? = h[b]? := by
  have hx := (L.map_filterMap_asStr _ hall).symm
  have hne' : (h.items a).filterMap L.asStr ≠ [] := by
    intro hc; rw [hc] at hx; exact hne hx
  obtain ⟨ys, h1, h2, h3, h4⟩ := L.sort_generic Val.str L.strLe L.strLe_trans
    L.strLe_total L.sort_strs h a _ hl hne' hx
  exact ⟨ys, h1, h2, h3, h4, items_setItems_same _ hl, fun b hb => getElem?_setItems_ne h _ hb⟩

example : exT.isList 0 = true ∧ exT.items 0 ≠ [] ∧ ∀ x ∈ exT.items 0, ∃ s, x = .str s := by
  refine ⟨by decide, by decide, ?_⟩
  simp [exT, Heap.items]

/-- Sort on a non-empty list of NaN-free floats: non-decreasing for Go's `<` (no later element is
`<` an earlier one), a permutation, idempotent, in place -/
theorem C17_sort_floats (h : Heap) (a : Nat) (hl : h.isList a = true) (hne : h.items a ≠ [])
    (hall : ∀ x ∈ h.items a, ∃ f, x = .float f ∧ f.isNaN = false) :
    ∃ ys : List F64,
      L.sort h a = (h.setItems a (ys.map .float), .ok (h.egoRef a)) ∧
      ys.Pairwise (fun x y => F64.ltGo y x = false ∧ L.floatLe x y = true) ∧
      (ys.map Val.float).Perm (h.items a) ∧
      L.sort (h.setItems a (ys.map .float)) a = (h.setItems a (ys.map .float), .ok (h.egoRef a)) ∧
      (h.setItems a (ys.map .float)).items a = ys.map .float ∧
      ∀ b, b ≠ a → (h.setItems a (ys.map .float))[b]? = h[b]? := by
  have hx := (L.map_filterMap_asFloat _ (fun x hx => (hall x hx).imp (fun _ h => h.1))).symm
  have hne' : (h.items a).filterMap L.asFloat ≠ [] := by
    intro hc; rw [hc] at hx; exact hne hx
  obtain ⟨ys, h1, h2, h3, h4⟩ := L.sort_generic Val.float L.floatLe L.floatLe_trans
    L.floatLe_total L.sort_floats h a _ hl hne' hx
  have hnan : ∀ y ∈ ys, y.isNaN = false := by
    intro y hy
    have : Val.float y ∈ h.items a := h3.mem_iff.1 (List.mem_map_of_mem hy)
    obtain ⟨f, hf, hn⟩ := hall _ this
    cases hf; exact hn
  refine ⟨ys, h1, ?_, h3, h4, items_setItems_same _ hl, fun b hb => getElem?_setItems_ne h _ hb⟩
  refine (List.pairwise_iff_forall_sublist.2 fun {x y} hs => ?_)
  have hle := List.pairwise_iff_forall_sublist.1 h2 hs
  have hxm : x ∈ ys := hs.subset (by simp)
  have hym : y ∈ ys := hs.subset (by simp)
  refine ⟨?_, hle⟩
  rw [L.floatLe_eq_not_ltGo x y (hnan x hxm) (hnan y hym)] at hle
  simpa using hle

example : exF.isList 0 = true ∧ exF.items 0 ≠ [] ∧
    ∀ x ∈ exF.items 0, ∃ f, x = .float f ∧ f.isNaN = false := by
  refine ⟨by decide, by decide, ?_⟩
  simp [exF, Heap.items]
  decide

/-- on a homogeneous list the typed extraction inside Sort loses nothing -/
theorem C17_extraction_lossless (xs : List Val) :
    ((∀ x ∈ xs, ∃ i, x = .int i) → (xs.filterMap L.asInt).map .int = xs) ∧
    ((∀ x ∈ xs, ∃ s, x = .str s) → (xs.filterMap L.asStr).map .str = xs) ∧
    ((∀ x ∈ xs, ∃ f, x = .float f) → (xs.filterMap L.asFloat).map .float = xs) :=
  ⟨L.map_filterMap_asInt xs, L.map_filterMap_asStr xs, L.map_filterMap_asFloat xs⟩

/-! ## 9. Reverse -/

/-- Reverse is in place on cell `a`, for any list of any kinds: the new items are the reversed
sequence, the element at position `i` is the old element at `n-1-i`, twice restores the original -/
theorem C17_reverse (h : Heap) (a : Nat) (hl : h.isList a = true) :
    L.reverse h a = (h.setItems a (h.items a).reverse, .ok (h.egoRef a)) ∧
    (L.reverse h a).1.items a = (h.items a).reverse ∧
    (∀ i, i < (h.items a).length →
      ((L.reverse h a).1.items a)[i]? = (h.items a)[(h.items a).length - 1 - i]?) ∧
    (L.reverse (L.reverse h a).1 a).1 = h ∧
    (∀ b, b ≠ a → (L.reverse h a).1[b]? = h[b]?) := by
  have e := L.reverse_eq h a
  refine ⟨e, ?_, ?_, ?_, ?_⟩
  · rw [e]; exact items_setItems_same _ hl
  · intro i hi
    rw [e]; simp only
    rw [items_setItems_same _ hl, List.getElem?_reverse hi]
  · rw [L.reverse_eq, e]; simp only
    rw [items_setItems_same _ hl, List.reverse_reverse, setItems_setItems, setItems_items_self]
  · intro b hb
    rw [e]; exact getElem?_setItems_ne h _ hb

/-- the swap loop itself (the code-shaped definition) equals list reversal -/
theorem C17_reverseLoop (xs : List Val) : L.reverseLoop xs xs.length (xs.length / 2) = xs.reverse :=
  L.reverseLoop_eq_reverse xs

example : L.reverseLoop [.int 1, .nil, .str ['x'], .bool true, .int 5] 5 2 =
    [.int 5, .bool true, .str ['x'], .nil, .int 1] := by decide
example : exS.isList 1 = true := by decide

/-! ## 10. Sort on a list whose first element is neither string, int nor float -/

theorem C17_sort_panic (h : Heap) (a : Nat) (x : Val) (rest : List Val) (hx : h.items a = x :: rest)
    (hk : x.kind ≠ .string ∧ x.kind ≠ .int ∧ x.kind ≠ .float) :
    L.sort h a = (h, .panic .sortKind) :=
  L.sort_panic_kind h a x rest hx hk

example : L.sort exS 1 = (exS, .panic .sortKind) :=
  C17_sort_panic exS 1 .nil [.int 1] (by decide) (by decide)

#print axioms C17_strLe_order
#print axioms C17_floatLe_order
#print axioms C17_sort_ints
#print axioms C17_sort_strs
#print axioms C17_sort_floats
#print axioms C17_extraction_lossless
#print axioms C17_reverse
#print axioms C17_reverseLoop
#print axioms C17_sort_panic

end Anytype
