/-
C18. On lists whose elements are all numeric (ints and finite floats in any mixture), Sum, Prod,
Min, Max and Avg equal the sum, product, minimum, maximum and arithmetic mean of the elements
taken as float64; IntSum, IntProd, IntMin and IntMax equal the same folds over exactly the int
elements of any list, ignoring elements of other kinds. With no qualifying element the sums are
0, the products 1 and the minima and maxima 0, and none of these calls modifies the list.

The theorems are generic over the float arithmetic `[FloatArith F]` (they say which elements are
folded, in which order, with which operation); the order hypotheses of Min / Max are discharged
for `F64.ltGo` on finite values at the end.

`floats l` are the numeric elements taken as float64 (`float64(i)` for an int `i`), `ints l`
the int elements, both in list order (`Anytype/Lemmas/Aggregates.lean`).

"None of these calls modifies the list": by typing. The aggregates are functions of the item
list `numsOf h a` (a pure view of `h.items a`) to a number; no heap is returned, so no cell can
change. `C18_readonly` records that the view depends on nothing but the receiver's items.
-/
import Anytype.Lemmas.Aggregates
import Anytype.Lemmas.Views
import Anytype.Lemmas.OfIntFinite
namespace Anytype

section Generic
variable {F : Type} [FloatArith F]
open FloatArith

/-! ### 8. Sum, Prod, Avg -/

theorem C18_sum (l : List (Num F)) : Agg.sum l = (floats l).foldl add zero :=
  Agg.sumLoop_eq l zero

theorem C18_prod (l : List (Num F)) : Agg.prod l = (floats l).foldl mul one :=
  Agg.prodLoop_eq l one

theorem C18_avg (l : List (Num F)) : Agg.avg l = div (Agg.sum l) (ofInt l.length) := rfl

/-- on an all-numeric list every element takes part: `floats l` is the whole list taken as
float64, so `Avg` divides the sum by the number of summands -/
theorem C18_floats_allNumeric (l : List (Num F)) (hnum : ∀ x ∈ l, x.isNum = true) :
    (floats l).map some = l.map Num.toF ∧ (floats l).length = l.length :=
  floats_allNum l hnum

theorem C18_avg_allNumeric (l : List (Num F)) (hnum : ∀ x ∈ l, x.isNum = true) :
    Agg.avg l = div ((floats l).foldl add zero) (ofInt (floats l).length) := by
  rw [C18_avg, C18_sum, (C18_floats_allNumeric l hnum).2]

/-! ### 9. IntSum, IntProd -/

omit [FloatArith F] in
/-- the loop as written: wrap-around after every step -/
theorem C18_intSum_steps (l : List (Num F)) :
    Agg.intSum l = (ints l).foldl (fun r v => wrap64 (r + v)) 0 :=
  Agg.intSumLoop_eq l 0

omit [FloatArith F] in
theorem C18_intProd_steps (l : List (Num F)) :
    Agg.intProd l = (ints l).foldl (fun r v => wrap64 (r * v)) 1 :=
  Agg.intProdLoop_eq l 1

theorem C18_wrap64_add (a b : Int) : wrap64 (wrap64 a + b) = wrap64 (a + b) := wrap64_add_left a b
theorem C18_wrap64_mul (a b : Int) : wrap64 (wrap64 a * b) = wrap64 (a * b) := wrap64_mul_left a b

omit [FloatArith F] in
/-- `IntSum` is the true sum of the int elements reduced to 64-bit two's complement -/
theorem C18_intSum (l : List (Num F)) : Agg.intSum l = wrap64 ((ints l).foldl (· + ·) 0) := by
  rw [C18_intSum_steps]
  have := foldl_wrap_add (ints l) 0
  rwa [show wrap64 0 = 0 from by decide] at this

omit [FloatArith F] in
/-- `IntProd` is the true product of the int elements reduced to 64-bit two's complement -/
theorem C18_intProd (l : List (Num F)) : Agg.intProd l = wrap64 ((ints l).foldl (· * ·) 1) := by
  rw [C18_intProd_steps]
  have := foldl_wrap_mul (ints l) 1
  rwa [show wrap64 1 = 1 from by decide] at this

omit [FloatArith F] in
/-- when the true sum fits a Go `int`, `IntSum` is the true sum -/
theorem C18_intSum_exact (l : List (Num F)) (hr : InRange ((ints l).foldl (· + ·) 0)) :
    Agg.intSum l = (ints l).foldl (· + ·) 0 := by
  rw [C18_intSum, wrap64_of_inRange hr]

omit [FloatArith F] in
theorem C18_intProd_exact (l : List (Num F)) (hr : InRange ((ints l).foldl (· * ·) 1)) :
    Agg.intProd l = (ints l).foldl (· * ·) 1 := by
  rw [C18_intProd, wrap64_of_inRange hr]

/-! ### 10. IntMin, IntMax -/

omit [FloatArith F] in
theorem C18_intMin (l : List (Num F)) (hne : ints l ≠ []) (hr : ∀ i ∈ ints l, InRange i) :
    Agg.intMin l ∈ ints l ∧ ∀ i ∈ ints l, Agg.intMin l ≤ i :=
  Agg.intMin_spec l hne hr

omit [FloatArith F] in
theorem C18_intMax (l : List (Num F)) (hne : ints l ≠ []) (hr : ∀ i ∈ ints l, InRange i) :
    Agg.intMax l ∈ ints l ∧ ∀ i ∈ ints l, i ≤ Agg.intMax l :=
  Agg.intMax_spec l hne hr

/-! ### 11. Min, Max

Hypotheses about `lt`, only on the values that occur (`floats l`): irreflexive, transitive, and
every value is `≤ MaxFloat64` in the sense `lt x maxFinite ∨ x = maxFinite` (this is what
"total on the values and `¬ lt maxFinite x`" gives; nothing more of totality is needed, which
matters because `ltGo` does not separate `+0` and `-0`). For Max: `lt negMaxFinite x ∨ x = negMaxFinite`.
-/

theorem C18_min (l : List (Num F)) (hne : l ≠ []) (hnum : ∀ x ∈ l, x.isNum = true)
    (irrefl : ∀ x ∈ floats l, lt x x = false)
    (trans : ∀ x ∈ floats l, ∀ y ∈ floats l, ∀ z ∈ floats l,
      lt x y = true → lt y z = true → lt x z = true)
    (hle : ∀ x ∈ floats l, lt x maxFinite = true ∨ x = maxFinite) :
    ∃ m, Agg.min l = some m ∧ m ∈ floats l ∧ ∀ x ∈ floats l, lt x m = false :=
  Agg.min_spec l hne hnum irrefl trans hle

theorem C18_max (l : List (Num F)) (hne : l ≠ []) (hnum : ∀ x ∈ l, x.isNum = true)
    (irrefl : ∀ x ∈ floats l, lt x x = false)
    (trans : ∀ x ∈ floats l, ∀ y ∈ floats l, ∀ z ∈ floats l,
      lt x y = true → lt y z = true → lt x z = true)
    (hge : ∀ x ∈ floats l, lt negMaxFinite x = true ∨ x = negMaxFinite) :
    ∃ m, Agg.max l = some m ∧ m ∈ floats l ∧ ∀ x ∈ floats l, lt m x = false :=
  Agg.max_spec l hne hnum irrefl trans hge

/-- a non-numeric element makes `Min` / `Max` panic (`item.(float64)` fails) -/
theorem C18_min_max_panic (l : List (Num F)) (h : ∃ x ∈ l, x.isNum = false) :
    Agg.min l = none ∧ Agg.max l = none := by
  unfold Agg.min Agg.max
  rw [Agg.minLoop_none l _ _ h, Agg.maxLoop_none l _ _ h]
  exact ⟨rfl, rfl⟩

/-! ### 12. no qualifying element -/

theorem C18_empty_float (l : List (Num F)) (h : floats l = []) :
    Agg.sum l = zero ∧ Agg.prod l = one := by
  rw [C18_sum, C18_prod, h]; exact ⟨rfl, rfl⟩

omit [FloatArith F] in
theorem C18_empty_int (l : List (Num F)) (h : ints l = []) :
    Agg.intSum l = 0 ∧ Agg.intProd l = 1 ∧ Agg.intMin l = 0 ∧ Agg.intMax l = 0 := by
  refine ⟨?_, ?_, ?_, ?_⟩
  · rw [C18_intSum_steps, h]; rfl
  · rw [C18_intProd_steps, h]; rfl
  · unfold Agg.intMin; rw [Agg.intMinLoop_eq, h]; rfl
  · unfold Agg.intMax; rw [Agg.intMaxLoop_eq, h]; rfl

/-- `Min` / `Max` of the empty list are 0 (any other list without numeric element panics,
`C18_min_max_panic`) -/
theorem C18_empty_min_max :
    Agg.min ([] : List (Num F)) = some zero ∧ Agg.max ([] : List (Num F)) = some zero :=
  ⟨rfl, rfl⟩

theorem C18_empty (l : List (Num F)) (h : l = []) :
    Agg.sum l = zero ∧ Agg.prod l = one ∧ Agg.min l = some zero ∧ Agg.max l = some zero ∧
    Agg.intSum l = 0 ∧ Agg.intProd l = 1 ∧ Agg.intMin l = 0 ∧ Agg.intMax l = 0 := by
  subst h
  exact ⟨rfl, rfl, rfl, rfl, rfl, rfl, rfl, rfl⟩

end Generic

/-! ### the view of a heap list -/

/-- the aggregates see nothing but the receiver's items (and return no heap) -/
theorem C18_readonly (h h' : Heap) (a : Nat) (hi : h'.items a = h.items a) :
    numsOf h' a = numsOf h a := by
  unfold numsOf; rw [hi]

/-- the int elements of the view are exactly the elements of kind int, in order -/
theorem C18_ints_numsOf (h : Heap) (a : Nat) :
    ints (numsOf h a) = (h.items a).filterMap L.asInt := by
  unfold numsOf
  induction h.items a with
  | nil => rfl
  | cons v vs ih =>
    cases v <;> simp only [List.map_cons, Val.toNum, ints_cons_int, ints_cons_other, ints_cons_float,
      List.filterMap_cons, L.asInt, ih]

/-- the numeric elements of the view are the elements of kind int or float taken as float64 -/
theorem C18_floats_numsOf (h : Heap) (a : Nat) :
    floats (numsOf h a)
      = (h.items a).filterMap (fun v => match v with
          | .int i => some (F64.ofInt i) | .float f => some f | _ => none) := by
  unfold numsOf
  induction h.items a with
  | nil => rfl
  | cons v vs ih => cases v <;> simp [Val.toNum, ih] <;> rfl

/-- "all numeric" for the view is `AllNumeric()` -/
theorem C18_allNumeric_numsOf (h : Heap) (a : Nat) :
    L.allNumeric h a = true ↔ ∀ x ∈ numsOf h a, x.isNum = true := by
  unfold numsOf L.allNumeric
  rw [L.allNumericLoop_eq, List.all_eq_true]
  constructor
  · intro H x hx
    obtain ⟨v, hv, rfl⟩ := List.mem_map.mp hx
    have := H v hv
    cases v <;> first | rfl | (simp [Val.kind] at this)
  · intro H v hv
    have := H (Val.toNum v) (List.mem_map_of_mem hv)
    cases v <;> first | rfl | (simp [Val.toNum, Num.isNum] at this)

/-! ### the order hypotheses for binary64 (`F64.ltGo`) -/

theorem C18_F64_lt_irrefl (x : F64) : F64.ltGo x x = false := by
  rw [F64.ltGo_eq_key]; simp

theorem C18_F64_lt_trans (x y z : F64) (hxy : F64.ltGo x y = true) (hyz : F64.ltGo y z = true) :
    F64.ltGo x z = true := by
  rw [F64.ltGo_eq_key] at hxy hyz ⊢
  simp only [Bool.and_eq_true, Bool.not_eq_true', decide_eq_true_eq] at hxy hyz ⊢
  exact ⟨⟨hxy.1.1, hyz.1.2⟩, by omega⟩

/-- `ltGo` is a strict total order modulo `eqGo` on NaN-free values: exactly one of
`x < y`, `x == y`, `y < x` -/
theorem C18_F64_lt_trichotomy (x y : F64) (hx : x.isNaN = false) (hy : y.isNaN = false) :
    (F64.ltGo x y = true ∧ F64.eqGo x y = false ∧ F64.ltGo y x = false) ∨
    (F64.ltGo x y = false ∧ F64.eqGo x y = true ∧ F64.ltGo y x = false) ∨
    (F64.ltGo x y = false ∧ F64.eqGo x y = false ∧ F64.ltGo y x = true) := by
  simp only [F64.ltGo_eq_key, F64.eqGo_eq_key, hx, hy, Bool.not_false, Bool.true_and,
    decide_eq_true_eq, decide_eq_false_iff_not]
  omega

/-- `eqGo` is a congruence for `ltGo` on NaN-free values -/
theorem C18_F64_lt_congr (x x' y y' : F64) (hx : F64.eqGo x x' = true) (hy : F64.eqGo y y' = true) :
    F64.ltGo x y = F64.ltGo x' y' := by
  rw [F64.eqGo_eq_key] at hx hy
  simp only [Bool.and_eq_true, Bool.not_eq_true', decide_eq_true_eq] at hx hy
  simp only [F64.ltGo_eq_key, hx.1.1, hx.1.2, hy.1.1, hy.1.2, hx.2, hy.2]

/-- every finite value is `≤ MaxFloat64` and `≥ -MaxFloat64` -/
theorem C18_F64_finite_bounds (x : F64) (hfin : x.isFinite = true) :
    (F64.ltGo x F64.maxFinite = true ∨ x = F64.maxFinite) ∧
    (F64.ltGo F64.negMaxFinite x = true ∨ x = F64.negMaxFinite) ∧
    F64.ltGo F64.maxFinite x = false ∧ F64.ltGo x F64.negMaxFinite = false :=
  F64.finite_bounds x hfin

/-- `Min` and `Max` on a non-empty all-numeric list of finite binary64 values (for an int element
`i` the value is `float64(i)`): the result is an element and no element is below / above it.
In particular on an all-negative list `Max` is the largest element, not 0. -/
theorem C18_F64_min_max (l : List (Num F64)) (hne : l ≠ []) (hnum : ∀ x ∈ l, x.isNum = true)
    (hfin : ∀ x ∈ floats l, x.isFinite = true) :
    (∃ m, Agg.min l = some m ∧ m ∈ floats l ∧ ∀ x ∈ floats l, F64.ltGo x m = false) ∧
    (∃ m, Agg.max l = some m ∧ m ∈ floats l ∧ ∀ x ∈ floats l, F64.ltGo m x = false) :=
  ⟨C18_min l hne hnum (fun x _ => C18_F64_lt_irrefl x)
      (fun x _ y _ z _ => C18_F64_lt_trans x y z)
      (fun x hx => (C18_F64_finite_bounds x (hfin x hx)).1),
   C18_max l hne hnum (fun x _ => C18_F64_lt_irrefl x)
      (fun x _ y _ z _ => C18_F64_lt_trans x y z)
      (fun x hx => (C18_F64_finite_bounds x (hfin x hx)).2.1)⟩

/-- Go `float64(i)` of a 64-bit `int` is finite (analysis of `F64.roundPos` on `|i| ≤ 2^63`,
`Anytype/Lemmas/OfIntFinite.lean`) -/
theorem C18_F64_ofInt_finite (i : Int) (h : InRange i) : (F64.ofInt i).isFinite = true :=
  F64.ofInt_finite i h

/-- `C18_F64_min_max` with the finiteness hypothesis asked of the float elements only: the int
elements are 64-bit ints, and nothing is assumed about `float64(i)` -/
theorem C18_F64_min_max_inrange (l : List (Num F64)) (hne : l ≠ [])
    (hnum : ∀ x ∈ l, x.isNum = true)
    (hfin : ∀ f, Num.float f ∈ l → f.isFinite = true)
    (hint : ∀ i, Num.int i ∈ l → InRange i) :
    (∃ m, Agg.min l = some m ∧ m ∈ floats l ∧ ∀ x ∈ floats l, F64.ltGo x m = false) ∧
    (∃ m, Agg.max l = some m ∧ m ∈ floats l ∧ ∀ x ∈ floats l, F64.ltGo m x = false) := by
  refine C18_F64_min_max l hne hnum ?_
  intro x hx
  obtain ⟨v, hv, hvx⟩ := List.mem_filterMap.mp hx
  cases v with
  | int i =>
    have : F64.ofInt i = x := by
      have h : (FloatArith.ofInt i : F64) = x := by simpa [Num.toF] using hvx
      exact h
    rw [← this]
    exact C18_F64_ofInt_finite i (hint i hv)
  | float f =>
    have : f = x := by simpa [Num.toF] using hvx
    rw [← this]
    exact hfin f hv
  | other => simp [Num.toF] at hvx

/-! ### non-vacuity -/

section Examples

/-- a toy arithmetic on `Int` (exact), to evaluate the generic folds -/
@[instance_reducible] def exArith : FloatArith Int where
  add := (· + ·)
  mul := (· * ·)
  div := (· / ·)
  lt := fun a b => decide (a < b)
  ofInt := id
  zero := 0
  one := 1
  maxFinite := 1000
  negMaxFinite := -1000

def exList : List (Num Int) := [.int 1, .other, .int 2, .float 7, .other, .int 3]
def exNums : List (Num Int) := [.int (-4), .float (-7), .int (-2), .float (-3)]

example : ints exList = [1, 2, 3] := by decide
example : @floats Int exArith exList = [1, 2, 7, 3] := by decide
example : @Agg.sum Int exArith exList = 13 ∧ @Agg.prod Int exArith exList = 42 := by decide
example : Agg.intSum exList = 6 ∧ Agg.intProd exList = 6 ∧ Agg.intMin exList = 1 ∧
    Agg.intMax exList = 3 := by decide
/-- wrap-around really happens: MaxInt + 1 -/
example : Agg.intSum ([.int (2 ^ 63 - 1), .other, .int 1] : List (Num Int)) = -2 ^ 63 := by decide
/-- hypotheses of `C18_intMin` / `C18_intMax` -/
example : ints exList ≠ [] ∧ ∀ i ∈ ints exList, InRange i := by decide
/-- hypotheses of `C18_min` / `C18_max` for the toy order on an all-negative list, and the
result: `Max` is the largest element `-2`, not 0 -/
example : exNums ≠ [] ∧ (∀ x ∈ exNums, x.isNum = true) ∧
    (∀ x ∈ @floats Int exArith exNums, exArith.lt x x = false) ∧
    (∀ x ∈ @floats Int exArith exNums, exArith.lt x exArith.maxFinite = true ∨ x = exArith.maxFinite) ∧
    (∀ x ∈ @floats Int exArith exNums,
      exArith.lt exArith.negMaxFinite x = true ∨ x = exArith.negMaxFinite) := by decide
example : @Agg.max Int exArith exNums = some (-2) ∧ @Agg.min Int exArith exNums = some (-7) := by
  decide
example : @Agg.min Int exArith exList = none := by decide

/-- binary64: -1.5, float64(-3), -0.25 — all negative, finite -/
def exF64 : List (Num F64) :=
  [.float ⟨0xbff8000000000000⟩, .int (-3), .float ⟨0xbfd0000000000000⟩]

example : exF64 ≠ [] ∧ (∀ x ∈ exF64, x.isNum = true) ∧
    (∀ x ∈ floats exF64, x.isFinite = true) := by decide
/-- hypotheses of `C18_F64_min_max_inrange` (nothing about `float64(-3)`), `C18_F64_ofInt_finite` -/
example : exF64 ≠ [] ∧ (∀ x ∈ exF64, x.isNum = true) ∧
    (∀ f, Num.float f ∈ exF64 → f.isFinite = true) ∧ (∀ i, Num.int i ∈ exF64 → InRange i) := by
  refine ⟨by decide, by decide, ?_, ?_⟩
  · intro f hf
    simp only [exF64, List.mem_cons, Num.float.injEq, List.not_mem_nil, or_false, reduceCtorEq,
      false_or] at hf
    rcases hf with rfl | rfl <;> decide
  · intro i hi
    simp only [exF64, List.mem_cons, Num.int.injEq, List.not_mem_nil, or_false, reduceCtorEq,
      false_or] at hi
    subst hi; decide
example : InRange (-(2 : Int) ^ 63) ∧ InRange ((2 : Int) ^ 63 - 1) := by decide
example : Agg.max exF64 = some ⟨0xbfd0000000000000⟩ ∧ Agg.min exF64 = some ⟨0xc008000000000000⟩ := by
  decide

/-- hypotheses of `C18_F64_lt_trans`, `C18_F64_lt_trichotomy`, `C18_F64_lt_congr` (`-0 == +0`),
`C18_F64_finite_bounds` -/
example : F64.ltGo ⟨0xc008000000000000⟩ F64.negZero = true ∧ F64.ltGo F64.negZero F64.one = true ∧
    F64.eqGo F64.negZero F64.posZero = true ∧ F64.negZero.isNaN = false ∧
    F64.one.isFinite = true := by decide

/-- the bound hypothesis of `C18_min` is needed: the only element `+Inf` is not `≤ MaxFloat64`
and `Min` answers `MaxFloat64`, which is not an element (library behaviour, modelled as is) -/
example : Agg.min ([.float F64.posInf] : List (Num F64)) = some F64.maxFinite := by decide

/-- hypotheses of `C18_intSum_exact`, `C18_empty_float` / `C18_empty_int`, `C18_min_max_panic` -/
example : InRange ((ints exList).foldl (· + ·) 0) := by decide
example : @floats Int exArith [.other, .other] = [] ∧ ints ([.other, .float 3] : List (Num Int)) = [] := by
  decide
example : ∃ x ∈ exList, x.isNum = false := ⟨.other, by simp [exList], rfl⟩

/-- the heap view -/
def exHeap18 : Heap := [.list [.int 1, .str ['s'], .int 2, .nil, .int 3] 0]
example : Agg.intSum (numsOf exHeap18 0) = 6 ∧ Agg.intMax (numsOf exHeap18 0) = 3 ∧
    L.allNumeric exHeap18 0 = false ∧ Agg.min (numsOf exHeap18 0) = none := by decide

end Examples

end Anytype

#print axioms Anytype.C18_sum
#print axioms Anytype.C18_prod
#print axioms Anytype.C18_avg
#print axioms Anytype.C18_floats_allNumeric
#print axioms Anytype.C18_avg_allNumeric
#print axioms Anytype.C18_intSum_steps
#print axioms Anytype.C18_intProd_steps
#print axioms Anytype.C18_wrap64_add
#print axioms Anytype.C18_wrap64_mul
#print axioms Anytype.C18_intSum
#print axioms Anytype.C18_intProd
#print axioms Anytype.C18_intSum_exact
#print axioms Anytype.C18_intProd_exact
#print axioms Anytype.C18_intMin
#print axioms Anytype.C18_intMax
#print axioms Anytype.C18_min
#print axioms Anytype.C18_max
#print axioms Anytype.C18_min_max_panic
#print axioms Anytype.C18_empty_float
#print axioms Anytype.C18_empty_int
#print axioms Anytype.C18_empty_min_max
#print axioms Anytype.C18_empty
#print axioms Anytype.C18_readonly
#print axioms Anytype.C18_ints_numsOf
#print axioms Anytype.C18_floats_numsOf
#print axioms Anytype.C18_allNumeric_numsOf
#print axioms Anytype.C18_F64_lt_irrefl
#print axioms Anytype.C18_F64_lt_trans
#print axioms Anytype.C18_F64_lt_trichotomy
#print axioms Anytype.C18_F64_lt_congr
#print axioms Anytype.C18_F64_finite_bounds
#print axioms Anytype.C18_F64_min_max
#print axioms Anytype.C18_F64_ofInt_finite
#print axioms Anytype.C18_F64_min_max_inrange
