/-
C19 — a user type that embeds a List / Object and registers itself with `Init` gets its own outer
value back from every fluent method and from `Ego`; a stored container is handed back by every
reader as its registered outer value.

Model: a cell carries `ego` (the level registered with `Init` = `Heap.setEgo`), a reference is
`⟨addr, lvl⟩`, `h.egoRef a = ⟨a, h.ego a⟩` is the registered outer value of cell `a` (what `Ego()`
returns), `h.getVal` turns a stored reference into the registered outer value of its cell.
The driver returns `h.egoRef a` for every `ForEach*` variant / `ForEachAsync` (they do not change the
heap: their results are logs) and `h'.egoRef a` for `SetTF` / `UnsetTF` (`h'` = heap after the call).
-/
import Anytype.Lemmas.Ego
namespace Anytype
open Heap

/-- decidable equality of results, for the evaluated examples of this file only -/
local instance C19.outDecEq {α : Type} [DecidableEq α] : DecidableEq (Out α)
  | .ok a, .ok b => if h : a = b then isTrue (by rw [h]) else isFalse (fun e => by cases e; exact h rfl)
  | .panic a, .panic b => if h : a = b then isTrue (by rw [h]) else isFalse (fun e => by cases e; exact h rfl)
  | .ok _, .panic _ => isFalse (fun e => by cases e)
  | .panic _, .ok _ => isFalse (fun e => by cases e)

/-- cell 0: a list registered at level 2 holding `[5, <list 1 stored at level 0>, <object 2 stored
at its registered level 1>]`; cell 1: a list registered at level 3; cell 2: an object registered at
level 1 holding `{"l": <list 1>}` -/
def exE : Heap :=
  [.list [.int 5, .list ⟨1, 0⟩, .obj ⟨2, 1⟩] 2, .list [.int 2, .int 1] 3, .obj [(['l'], .list ⟨1, 0⟩)] 1]

/-! ## 1. `Init` and `Ego` -/

/-- `Init(outer)` registers the level on that cell and changes nothing else; `Ego()` returns it -/
theorem C19_ego_init (h : Heap) (a k : Nat) (ha : a < h.length) :
    (h.setEgo a k).ego a = k ∧ (h.setEgo a k).egoRef a = ⟨a, k⟩ ∧
    (∀ b, b ≠ a → (h.setEgo a k)[b]? = h[b]?) ∧
    (∀ b, (h.setEgo a k).items b = h.items b ∧ (h.setEgo a k).fields b = h.fields b) ∧
    (h.setEgo a k).length = h.length :=
  ⟨ego_setEgo_self h a k ha, by simp only [egoRef, ego_setEgo_self h a k ha],
   fun _ hb => getElem?_setEgo_ne h k hb, fun b => ⟨items_setEgo h a k b, fields_setEgo h a k b⟩,
   length_setEgo h a k⟩

example : (exE.setEgo 1 7).egoRef 1 = ⟨1, 7⟩ ∧ (exE.setEgo 1 7).items 1 = [.int 2, .int 1] := by decide

/-! ## 2. the fluent methods return the receiver's registered outer value -/

/-- List: whenever `Add / Insert / Replace / Delete / Pop / Clear / Sort / Reverse` returns, it
returns the outer value registered for the receiver before the call -/
theorem C19_fluent_list (h : Heap) (a : Nat) (ha : a < h.length) (gs : List GoVal) (g : GoVal) (i : Int)
    (idx : List Int) (r : Ref) :
    ((L.add h a gs).2 = .ok r → r = h.egoRef a) ∧
    ((L.insert h a i g).2 = .ok r → r = h.egoRef a) ∧
    ((L.replace h a i g).2 = .ok r → r = h.egoRef a) ∧
    ((L.delete h a idx).2 = .ok r → r = h.egoRef a) ∧
    ((L.pop h a).2 = .ok r → r = h.egoRef a) ∧
    ((L.clear h a).2 = .ok r → r = h.egoRef a) ∧
    ((L.sort h a).2 = .ok r → r = h.egoRef a) ∧
    ((L.reverse h a).2 = .ok r → r = h.egoRef a) :=
  ⟨L.add_fluent h a gs r ha, L.insert_fluent h a i g r ha, L.replace_fluent h a i g r ha,
   L.delete_fluent h a idx r ha, L.pop_fluent h a r ha, L.clear_fluent h a r, L.sort_fluent h a r,
   L.reverse_fluent h a r⟩

example : (L.add exE 0 [.slice .any [.nil]]).2 = .ok ⟨0, 2⟩ ∧ (L.sort exE 1).2 = .ok ⟨1, 3⟩ ∧
    (L.pop exE 1).2 = .ok ⟨1, 3⟩ ∧ exE.egoRef 0 = ⟨0, 2⟩ := by decide +kernel

/-- Object: `Set / Unset / Clear` -/
theorem C19_fluent_obj (h : Heap) (a : Nat) (ha : a < h.length) (ps : O.Pairs) (odd : Bool)
    (keys : List Str) (r : Ref) :
    ((O.set h a ps odd).2 = .ok r → r = h.egoRef a) ∧
    ((O.unset h a keys).2 = .ok r → r = h.egoRef a) ∧
    ((O.clear h a).2 = .ok r → r = h.egoRef a) :=
  ⟨O.set_fluent h a ps odd r ha, O.unset_fluent h a keys r, O.clear_fluent h a r⟩

example : (O.set exE 2 [(some ['z'], .map .any [])] false).2 = .ok ⟨2, 1⟩ ∧
    (O.unset exE 2 [['l']]).2 = .ok ⟨2, 1⟩ := by decide

/-- no mutator changes the registered level (or the kind) of any existing cell — in particular the
value a later `Ego()` or fluent call returns is still the one registered with `Init` -/
theorem C19_ego_preserved (h : Heap) (a b : Nat) (hb : b < h.length) (gs : List GoVal) (g : GoVal) (i : Int)
    (idx : List Int) (ps : O.Pairs) (odd : Bool) (keys : List Str) :
    (L.add h a gs).1.ego b = h.ego b ∧ (L.insert h a i g).1.ego b = h.ego b ∧
    (L.replace h a i g).1.ego b = h.ego b ∧ (L.delete h a idx).1.ego b = h.ego b ∧
    (L.pop h a).1.ego b = h.ego b ∧ (L.clear h a).1.ego b = h.ego b ∧
    (L.sort h a).1.ego b = h.ego b ∧ (L.reverse h a).1.ego b = h.ego b ∧
    (O.set h a ps odd).1.ego b = h.ego b ∧ (O.unset h a keys).1.ego b = h.ego b ∧
    (O.clear h a).1.ego b = h.ego b ∧ (parseVal h g).1.ego b = h.ego b :=
  ⟨(L.add_ext h a gs).ego hb, (L.insert_ext h a i g).ego hb, (L.replace_ext h a i g).ego hb,
   (L.delete_ext h a idx).ego hb, (L.pop_ext h a).ego hb, (L.clear_ext h a).ego hb,
   (L.sort_ext h a).ego hb, (L.reverse_ext h a).ego hb, (O.set_ext h a ps odd).ego hb,
   (O.unset_ext h a keys).ego hb, (Ext.setFields h a []).ego hb, (parseVal_ext0 h g).ego hb⟩

/-- `SetTF` / `UnsetTF` (any path, any value, also when they panic half-way) keep the registered
level of every existing cell, so the `egoRef` of the receiver the driver returns afterwards is the
outer value registered before the call -/
theorem C19_fluent_tf (n : Nat) (h : Heap) (a : Nat) (ha : a < h.length) (tf : Str) (g : GoVal) :
    (TF.setL n h a tf g).1.egoRef a = h.egoRef a ∧ (TF.setO n h a tf g).1.egoRef a = h.egoRef a ∧
    (TF.unsetL n h a tf).1.egoRef a = h.egoRef a ∧ (TF.unsetO n h a tf).1.egoRef a = h.egoRef a ∧
    (∀ b, b < h.length → (TF.setL n h a tf g).1.ego b = h.ego b ∧ (TF.setO n h a tf g).1.ego b = h.ego b ∧
      (TF.unsetL n h a tf).1.ego b = h.ego b ∧ (TF.unsetO n h a tf).1.ego b = h.ego b) :=
  ⟨egoRef_mono ((TF.set_mono n).1 h a tf g) ha, egoRef_mono ((TF.set_mono n).2 h a tf g) ha,
   egoRef_mono ((TF.unset_mono n).1 h a tf) ha, egoRef_mono ((TF.unset_mono n).2 h a tf) ha,
   fun _ hb => ⟨ego_mono ((TF.set_mono n).1 h a tf g) hb, ego_mono ((TF.set_mono n).2 h a tf g) hb,
     ego_mono ((TF.unset_mono n).1 h a tf) hb, ego_mono ((TF.unset_mono n).2 h a tf) hb⟩⟩

example : (TF.setL 10 exE 0 "#1#5".toList (.intw .int 9)).1.egoRef 0 = ⟨0, 2⟩ ∧
    (TF.setL 10 exE 0 "#1#5".toList (.intw .int 9)).2.isPanic = false := by decide

/-! ## 3. a stored derived value is handed back as the identical outer value -/

/-- what `getVal` makes of a stored reference: the registered outer value of its cell, whatever
level the stored reference itself has -/
theorem C19_getVal (h : Heap) (b l : Nat) :
    h.getVal (.list ⟨b, l⟩) = .list (h.egoRef b) ∧ h.getVal (.obj ⟨b, l⟩) = .obj (h.egoRef b) := ⟨rfl, rfl⟩

/-- List readers: `Get`, the typed getters, `Slice`, `ForEach` / `ForEachValue`, `Filter` (what is put
into the result list) all deliver `getVal` of the stored items -/
theorem C19_storage_list (h : Heap) (a : Nat) :
    (∀ (i : Int) (x : Val), 0 ≤ i → (h.items a)[i.toNat]? = some x →
      L.get h a i = .ok (h.getVal x) ∧ L.getK h a x.kind i = .ok (h.getVal x)) ∧
    L.slice h a = (h.items a).map h.getVal ∧
    (L.forEach h a).map (·.2) = (h.items a).map h.getVal ∧
    L.forEachValue h a = (h.items a).map h.getVal ∧
    (∀ p, (L.filter h a p).1.items h.length = ((h.items a).map h.getVal).filter p) := by
  refine ⟨fun i x h0 hx => ⟨L.get_at h a i x h0 hx, ?_⟩, rfl, ?_, L.forEachValue_eq h a, fun p => ?_⟩
  · simp only [L.getK, L.get_at h a i x h0 hx, getVal_kind, beq_self_eq_true, if_true]
  · have := L.forEachValue_eq h a
    simpa [L.forEachValue] using this
  · simp [L.filter, L.filterLoop_eq]

/-- in particular a derived List stored (at any level `l`) at index `i` comes back as the registered
outer value, from `Get` and from `GetList` -/
theorem C19_storage (h : Heap) (a : Nat) (i : Int) (b l : Nat) (h0 : 0 ≤ i) :
    ((h.items a)[i.toNat]? = some (.list ⟨b, l⟩) →
      L.get h a i = .ok (.list ⟨b, h.ego b⟩) ∧ L.getK h a .list i = .ok (.list ⟨b, h.ego b⟩)) ∧
    ((h.items a)[i.toNat]? = some (.obj ⟨b, l⟩) →
      L.get h a i = .ok (.obj ⟨b, h.ego b⟩) ∧ L.getK h a .object i = .ok (.obj ⟨b, h.ego b⟩)) :=
  ⟨fun hx => (C19_storage_list h a).1 i _ h0 hx, fun hx => (C19_storage_list h a).1 i _ h0 hx⟩

example : (exE.items 0)[(1 : Int).toNat]? = some (.list ⟨1, 0⟩) := by decide
example : L.get exE 0 1 = .ok (.list ⟨1, 3⟩) ∧ L.getK exE 0 .object 2 = .ok (.obj ⟨2, 1⟩) ∧
    L.slice exE 0 = [.int 5, .list ⟨1, 3⟩, .obj ⟨2, 1⟩] := by decide

/-- Object readers: `Get`, the typed getters, `Dict`, `ForEach`, `ForEachValue`, and all six typed
`ForEachX` (they assert on `getVal()`) -/
theorem C19_storage_obj (h : Heap) (a : Nat) :
    (∀ (key : Str) (x : Val), lookup (h.fields a) key = some x →
      O.get h a key = .ok (h.getVal x) ∧ O.getK h a x.kind key = .ok (h.getVal x)) ∧
    O.dict h a = (h.fields a).map (fun kv => (kv.1, h.getVal kv.2)) ∧
    O.forEach h a = (h.fields a).map (fun kv => (kv.1, h.getVal kv.2)) ∧
    O.forEachValue h a = (h.fields a).map (fun kv => h.getVal kv.2) ∧
    (∀ k x, L.sel h true k x = if x.kind = k then some (h.getVal x) else none) := by
  refine ⟨fun key x hx => ?_, rfl, rfl, by simp [O.forEachValue, O.forEach], fun k x => ?_⟩
  · have hg : O.get h a key = .ok (h.getVal x) := by simp [O.get, hx]
    exact ⟨hg, by simp only [O.getK, hg, getVal_kind, beq_self_eq_true, if_true]⟩
  · simp [L.sel]

example : O.get exE 2 ['l'] = .ok (.list ⟨1, 3⟩) ∧ O.dict exE 2 = [(['l'], .list ⟨1, 3⟩)] := by decide

/-- the typed list variants `ObjectSlice/ListSlice`, `ForEachObject/ForEachList`,
`FilterObjects/FilterLists` assert on the stored item itself: they deliver the stored references of
that kind; when a stored reference carries the registered level of its cell (the derived value
itself was stored — the normal case) that is again the registered outer value -/
theorem C19_storage_typed (h : Heap) (a : Nat) (k : Kind) (hk : k = .object ∨ k = .list) :
    L.sliceK h a k = (h.items a).filter (fun x => x.kind == k) ∧
    L.forEachK h a k = (h.items a).filter (fun x => x.kind == k) ∧
    (∀ p, (L.filterK h a k p).1.items h.length = ((h.items a).filter (fun x => x.kind == k)).filter p) ∧
    (∀ b l, l = h.ego b → h.getVal (.list ⟨b, l⟩) = .list ⟨b, l⟩ ∧ h.getVal (.obj ⟨b, l⟩) = .obj ⟨b, l⟩) := by
  have hv : L.viaGetValL k = false := by rcases hk with rfl | rfl <;> rfl
  have hs : (h.items a).filterMap (L.sel h false k) = (h.items a).filter (fun x => x.kind == k) := by
    induction h.items a with
    | nil => rfl
    | cons x xs ih =>
      by_cases hx : x.kind = k <;> simp [L.sel, hx, ih]
  refine ⟨?_, ?_, fun p => ?_, fun b l hl => by subst hl; exact ⟨rfl, rfl⟩⟩
  · simp [L.sliceK, L.sliceKLoop_eq, hv, hs]
  · simp [L.forEachK, L.forEachKLoop_eq, hv, hs]
  · simp [L.filterK, L.filterKLoop_eq, hv, hs]

example : L.sliceK exE 0 .object = [.obj ⟨2, 1⟩] ∧ exE.ego 2 = 1 ∧ L.sliceK exE 0 .list = [.list ⟨1, 0⟩] := by
  decide

end Anytype

#print axioms Anytype.C19_ego_init
#print axioms Anytype.C19_fluent_list
#print axioms Anytype.C19_fluent_obj
#print axioms Anytype.C19_ego_preserved
#print axioms Anytype.C19_fluent_tf
#print axioms Anytype.C19_getVal
#print axioms Anytype.C19_storage_list
#print axioms Anytype.C19_storage
#print axioms Anytype.C19_storage_obj
#print axioms Anytype.C19_storage_typed
