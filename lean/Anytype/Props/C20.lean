/-
Property C20.

"When ParseList, ParseObject or ParseFile reject a text with a syntax error whose message cites a
line, the cited number is the 1-based line (one plus the number of newline characters before it,
counted from the start of the whole input, across nested containers and any text preceding the root
bracket) of the character at which the error was detected.  That character is the unexpected
character itself, or the delimiter (',' ']' '}') that terminates an invalid literal."

`nlCount c` is the number of `some '\n'` items in `c`; `countNL b` the number of 0x0A bytes in `b`.
-/
import Anytype.Lemmas.ParserBytes
namespace Anytype

/-- `ErrAt k e` (used below): `e` is a character at which a syntax error of kind `k` is detected -/
theorem C20_errAt (k : PErrKind) (e : Char) :
    ErrAt k e ↔
      (e ≠ '\n' ∧
      (k = .invalidValue ∨ k = .expectQuote ∨ k = .expectColon ∨ k = .expectCommaBrace) ∧
      (k = .invalidValue → e = ',' ∨ e = ']' ∨ e = '}') ∧
      (k = .expectQuote → isSpace e = false ∧ e ≠ '}' ∧ e ≠ '"') ∧
      (k = .expectColon → isSpace e = false ∧ e ≠ ':') ∧
      (k = .expectCommaBrace → isSpace e = false ∧ e ≠ ',' ∧ e ≠ '}' ∧ e ≠ '"')) := Iff.rfl

/-! ### 7. items level -/

/-- A line-citing error of the list machine (any state, any fuel): it was detected at a well-formed
character `e` at position `pos`, everything before is well-formed, the cited line is the initial
line counter plus the newlines before `pos` (equivalently up to and including `pos`, as `e` is not
a newline), and `e` is a delimiter ending an invalid literal or the unexpected character. -/
theorem C20_items_list {f items st acc val iv line k L}
    (h : pList f items st acc val iv line = .err ⟨k, some L⟩) :
    ∃ (pos : Nat) (e : Char), items[pos]? = some (some e) ∧
      (∀ it ∈ items.take pos, it ≠ none) ∧
      L = line + nlCount (items.take pos) ∧ L = line + nlCount (items.take (pos + 1)) ∧
      e ≠ '\n' ∧
      (k = .invalidValue ∨ k = .expectQuote ∨ k = .expectColon ∨ k = .expectCommaBrace) ∧
      (k = .invalidValue → e = ',' ∨ e = ']' ∨ e = '}') ∧
      (k = .expectQuote → isSpace e = false ∧ e ≠ '}' ∧ e ≠ '"') ∧
      (k = .expectColon → isSpace e = false ∧ e ≠ ':') ∧
      (k = .expectCommaBrace → isSpace e = false ∧ e ≠ ',' ∧ e ≠ '}' ∧ e ≠ '"') := by
  rw [pList_eq_exec] at h
  obtain ⟨pos, e, h1, h2, h3, h4⟩ := exec_err_line _ h
  exact ⟨pos, e, h1, h2, h3, by rw [nlCount_take_succ h1 h4.1]; exact h3, h4⟩

theorem C20_items_object {f items st acc key val iv line k L}
    (h : pObject f items st acc key val iv line = .err ⟨k, some L⟩) :
    ∃ (pos : Nat) (e : Char), items[pos]? = some (some e) ∧
      (∀ it ∈ items.take pos, it ≠ none) ∧
      L = line + nlCount (items.take pos) ∧ L = line + nlCount (items.take (pos + 1)) ∧
      e ≠ '\n' ∧
      (k = .invalidValue ∨ k = .expectQuote ∨ k = .expectColon ∨ k = .expectCommaBrace) ∧
      (k = .invalidValue → e = ',' ∨ e = ']' ∨ e = '}') ∧
      (k = .expectQuote → isSpace e = false ∧ e ≠ '}' ∧ e ≠ '"') ∧
      (k = .expectColon → isSpace e = false ∧ e ≠ ':') ∧
      (k = .expectCommaBrace → isSpace e = false ∧ e ≠ ',' ∧ e ≠ '}' ∧ e ≠ '"') := by
  rw [pObject_eq_exec] at h
  obtain ⟨pos, e, h1, h2, h3, h4⟩ := exec_err_line _ h
  exact ⟨pos, e, h1, h2, h3, by rw [nlCount_take_succ h1 h4.1]; exact h3, h4⟩

-- `1,⏎ x]` after the root bracket, starting on line 1: `x` is invalid, detected at `]` on line 2
example : pList 10 [some '1', some ',', some '\n', some ' ', some 'x', some ']'] .val [] [] false 1
    = .err ⟨.invalidValue, some 2⟩ := by rfl

-- `"a":[1,⏎{x` after the root bracket: error inside a doubly nested container, line 2
example : pObject 20 [some '"', some 'a', some '"', some ':', some '[', some '1', some ',',
    some '\n', some '{', some 'x'] .keyStart [] [] [] false 1 = .err ⟨.expectQuote, some 2⟩ := by rfl

-- `"a"⏎⏎;` : expecting a colon, line 3
example : pObject 20 [some '"', some 'a', some '"', some '\n', some '\n', some ';']
    .keyStart [] [] [] false 1 = .err ⟨.expectColon, some 3⟩ := by rfl

-- `"a":{}⏎x` : expecting ',' or '}', line 2
example : pObject 20 [some '"', some 'a', some '"', some ':', some '{', some '}', some '\n', some 'x']
    .keyStart [] [] [] false 1 = .err ⟨.expectCommaBrace, some 2⟩ := by rfl

/-- an accepting run returns the initial line counter plus the newlines it consumed -/
theorem C20_okline_list {f items st acc val iv line v rest line'}
    (h : pList f items st acc val iv line = .ok v rest line') :
    ∃ c, items = c ++ rest ∧ line' = line + nlCount c := by
  rw [pList_eq_exec] at h
  obtain ⟨c, hc, hrun⟩ := exec_ok_run _ h
  exact ⟨c, hc, hrun.line_eq⟩

theorem C20_okline_object {f items st acc key val iv line v rest line'}
    (h : pObject f items st acc key val iv line = .ok v rest line') :
    ∃ c, items = c ++ rest ∧ line' = line + nlCount c := by
  rw [pObject_eq_exec] at h
  obtain ⟨c, hc, hrun⟩ := exec_ok_run _ h
  exact ⟨c, hc, hrun.line_eq⟩

example : pList 10 [some '\n', some '1', some '\n', some ']', some '\n'] .val [] [] false 5
    = .ok (.list [.int 1]) [some '\n'] 7 := by rfl

/-- errors that cite no line are not syntax errors -/
theorem C20_noline_list {f items st acc val iv line k}
    (h : pList f items st acc val iv line = .err ⟨k, none⟩) :
    k = .notUtf8 ∨ k = .unexpectedEnd ∨ k = .fuel := by
  rw [pList_eq_exec] at h; exact exec_err_noline _ h

theorem C20_noline_object {f items st acc key val iv line k}
    (h : pObject f items st acc key val iv line = .err ⟨k, none⟩) :
    k = .notUtf8 ∨ k = .unexpectedEnd ∨ k = .fuel := by
  rw [pObject_eq_exec] at h; exact exec_err_noline _ h

example : pList 10 [some '1', none] .val [] [] false 1 = .err ⟨.notUtf8, none⟩ := by rfl

/-! ### 8. top level -/

/-- `ParseList`: the cited line is one plus the newlines before the root bracket plus the newline
characters between the root bracket and the character at which the error was detected. -/
theorem C20_line_list {bs k L} (h : parseListBytes bs = .error ⟨k, some L⟩) :
    ∃ pre post pos e, splitAtByte 0x5B bs = some (pre, post) ∧
      (decodeAll post)[pos]? = some (some e) ∧ (∀ it ∈ (decodeAll post).take pos, it ≠ none) ∧
      L = 1 + countNL pre + nlCount ((decodeAll post).take pos) ∧ ErrAt k e := by
  rcases parseListBytes_error h with ⟨_, h'⟩ | ⟨pre, post, hs, hr⟩
  · cases h'
  · rw [runList_eq_exec] at hr
    obtain ⟨pos, e, h1, h2, h3, h4⟩ := exec_err_line _ hr
    exact ⟨pre, post, pos, e, hs, h1, h2, by omega, h4⟩

theorem C20_line_object {bs k L} (h : parseObjectBytes bs = .error ⟨k, some L⟩) :
    ∃ pre post pos e, splitAtByte 0x7B bs = some (pre, post) ∧
      (decodeAll post)[pos]? = some (some e) ∧ (∀ it ∈ (decodeAll post).take pos, it ≠ none) ∧
      L = 1 + countNL pre + nlCount ((decodeAll post).take pos) ∧ ErrAt k e := by
  rcases parseObjectBytes_error h with ⟨_, h'⟩ | ⟨pre, post, hs, hr⟩
  · cases h'
  · rw [runObject_eq_exec] at hr
    obtain ⟨pos, e, h1, h2, h3, h4⟩ := exec_err_line _ hr
    exact ⟨pre, post, pos, e, hs, h1, h2, by omega, h4⟩

/-- In bytes: the input splits as `before ++ after`, where `before` contains the root bracket and is
well-formed after it, `after` starts with the character `e` at which the error was detected, and
the cited line is one plus the number of 0x0A bytes in `before`. -/
theorem C20_line_bytes_list {bs k L} (h : parseListBytes bs = .error ⟨k, some L⟩) :
    ∃ pre cb after e, bs = (pre ++ 0x5B :: cb) ++ after ∧ (0x5B : UInt8) ∉ pre ∧
      none ∉ decodeAll cb ∧ (decodeAll after).head? = some (some e) ∧
      L = 1 + countNL (pre ++ 0x5B :: cb) ∧ ErrAt k e := by
  rcases parseListBytes_error h with ⟨_, h'⟩ | ⟨pre, post, hs, hr⟩
  · cases h'
  · rw [runList_eq_exec] at hr
    obtain ⟨cb, restb, e, e1, e2, e3, e4, e5⟩ := (exec_err_line _ hr).bytes
    obtain ⟨hbs, hnm⟩ := splitAtByte_some hs
    refine ⟨pre, cb, restb, e, ?_, hnm, e3, e2, ?_, e5⟩
    · rw [hbs, e1]; simp
    · rw [countNL_split _ (by decide), e4]; omega

theorem C20_line_bytes_object {bs k L} (h : parseObjectBytes bs = .error ⟨k, some L⟩) :
    ∃ pre cb after e, bs = (pre ++ 0x7B :: cb) ++ after ∧ (0x7B : UInt8) ∉ pre ∧
      none ∉ decodeAll cb ∧ (decodeAll after).head? = some (some e) ∧
      L = 1 + countNL (pre ++ 0x7B :: cb) ∧ ErrAt k e := by
  rcases parseObjectBytes_error h with ⟨_, h'⟩ | ⟨pre, post, hs, hr⟩
  · cases h'
  · rw [runObject_eq_exec] at hr
    obtain ⟨cb, restb, e, e1, e2, e3, e4, e5⟩ := (exec_err_line _ hr).bytes
    obtain ⟨hbs, hnm⟩ := splitAtByte_some hs
    refine ⟨pre, cb, restb, e, ?_, hnm, e3, e2, ?_, e5⟩
    · rw [hbs, e1]; simp
    · rw [countNL_split _ (by decide), e4]; omega

/-- `ParseFile`: a line-citing error comes from `ParseObject` on the file's bytes -/
theorem C20_line_file {fs : String → Option (List UInt8)} {path : String} {k L}
    (h : parseFile fs path = .error ⟨k, some L⟩) :
    ∃ bs pre cb after e, fs path = some bs ∧ bs = (pre ++ 0x7B :: cb) ++ after ∧
      (0x7B : UInt8) ∉ pre ∧ none ∉ decodeAll cb ∧ (decodeAll after).head? = some (some e) ∧
      L = 1 + countNL (pre ++ 0x7B :: cb) ∧ ErrAt k e := by
  unfold parseFile at h
  split at h
  · cases h
  · rename_i bs hf
    obtain ⟨pre, cb, after, e, h1, h2, h3, h4, h5, h6⟩ := C20_line_bytes_object h
    exact ⟨bs, pre, cb, after, e, hf, h1, h2, h3, h4, h5, h6⟩

/-- errors of the entry points that cite no line -/
theorem C20_noline_parseList {bs k} (h : parseListBytes bs = .error ⟨k, none⟩) :
    k = .missingBracket ∨ k = .notUtf8 ∨ k = .unexpectedEnd := by
  rcases parseListBytes_error h with ⟨_, h'⟩ | ⟨pre, post, hs, hr⟩
  · cases h'; exact .inl rfl
  · have hnf := runList_notFuel post (countNL pre + 1)
    rw [runList_eq_exec] at hr hnf
    rcases exec_err_noline _ hr with h | h | h
    · exact .inr (.inl h)
    · exact .inr (.inr h)
    · subst h; exact absurd hr (hnf none)

theorem C20_noline_parseObject {bs k} (h : parseObjectBytes bs = .error ⟨k, none⟩) :
    k = .missingBracket ∨ k = .notUtf8 ∨ k = .unexpectedEnd := by
  rcases parseObjectBytes_error h with ⟨_, h'⟩ | ⟨pre, post, hs, hr⟩
  · cases h'; exact .inl rfl
  · have hnf := runObject_notFuel post (countNL pre + 1)
    rw [runObject_eq_exec] at hr hnf
    rcases exec_err_noline _ hr with h | h | h
    · exact .inr (.inl h)
    · exact .inr (.inr h)
    · subst h; exact absurd hr (hnf none)

-- `⏎[1,⏎ é x]` : `é x` is an invalid value, detected at `]`; two newlines before it, line 3
example : parseListBytes [0x0A, 0x5B, 0x31, 0x2C, 0x0A, 0x20, 0xC3, 0xA9, 0x20, 0x78, 0x5D] =
    .error ⟨.invalidValue, some 3⟩ := by
  simp [parseListBytes, splitAtByte, runList, decodeAll, decodeOne, mkChar, isCont, countNL]
  rfl

-- `x⏎{⏎"a"⏎1` : expecting ':', got `1` on line 4
example : parseObjectBytes [0x78, 0x0A, 0x7B, 0x0A, 0x22, 0x61, 0x22, 0x0A, 0x31] =
    .error ⟨.expectColon, some 4⟩ := by
  simp [parseObjectBytes, splitAtByte, runObject, decodeAll, decodeOne, mkChar, countNL]
  rfl

example : parseFile (fun p => if p = "f" then some [0x7B, 0x0A, 0x78] else none) "f" =
    .error ⟨.expectQuote, some 2⟩ := by
  simp [parseFile, parseObjectBytes, splitAtByte, runObject, decodeAll, decodeOne, mkChar, countNL]
  rfl

example : parseListBytes [0x31] = .error ⟨.missingBracket, none⟩ := by rfl

end Anytype

open Anytype in
#print axioms C20_errAt
open Anytype in
#print axioms C20_items_list
open Anytype in
#print axioms C20_items_object
open Anytype in
#print axioms C20_okline_list
open Anytype in
#print axioms C20_okline_object
open Anytype in
#print axioms C20_noline_list
open Anytype in
#print axioms C20_noline_object
open Anytype in
#print axioms C20_line_list
open Anytype in
#print axioms C20_line_object
open Anytype in
#print axioms C20_line_bytes_list
open Anytype in
#print axioms C20_line_bytes_object
open Anytype in
#print axioms C20_line_file
open Anytype in
#print axioms C20_noline_parseList
open Anytype in
#print axioms C20_noline_parseObject
