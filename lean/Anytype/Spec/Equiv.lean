/-
Specification of `Equals`: typed structural equality, objects compared as finite maps.
Deliberately phrased differently from the model `equalsJ` (which mirrors the Go loops):
two objects are equal when each one's keys occur in the other and the values agree per key.
-/
import Anytype.Spec.Json
namespace Anytype

def keysOf {α} (kvs : List (Str × α)) : List Str := kvs.map (·.1)

mutual
def specEq : JVal → JVal → Bool
  | .null, .null => true
  | .bool a, .bool b => a == b
  | .int a, .int b => a == b
  | .float a, .float b => F64.eqGo a b
  | .str a, .str b => a == b
  | .list xs, .list ys => specEqList xs ys
  | .obj kvs, .obj kvs' =>
    (keysOf kvs').all (fun k => (keysOf kvs).contains k) && specEqFields kvs kvs'
  | _, _ => false
/-- lists: same length, equal position by position -/
def specEqList : List JVal → List JVal → Bool
  | [], [] => true
  | x :: xs, y :: ys => specEq x y && specEqList xs ys
  | _, _ => false
/-- every field of the left object is present on the right with an equal value -/
def specEqFields : List (Str × JVal) → List (Str × JVal) → Bool
  | [], _ => true
  | (k, v) :: kvs, other =>
    (match lookup other k with
     | some w => specEq v w
     | none => false) && specEqFields kvs other
end

mutual
/-- no NaN anywhere in the tree -/
def nanFree : JVal → Bool
  | .float f => !f.isNaN
  | .list xs => nanFreeList xs
  | .obj kvs => nanFreeFields kvs
  | _ => true
def nanFreeList : List JVal → Bool
  | [] => true | x :: xs => nanFree x && nanFreeList xs
def nanFreeFields : List (Str × JVal) → Bool
  | [] => true | (_, x) :: kvs => nanFree x && nanFreeFields kvs
end

mutual
/-- object keys are distinct at every level (a Go map) -/
def keysNodup : JVal → Bool
  | .list xs => keysNodupList xs
  | .obj kvs => decide (keysOf kvs).Nodup && keysNodupFields kvs
  | _ => true
def keysNodupList : List JVal → Bool
  | [] => true | x :: xs => keysNodup x && keysNodupList xs
def keysNodupFields : List (Str × JVal) → Bool
  | [] => true | (_, x) :: kvs => keysNodup x && keysNodupFields kvs
end

end Anytype
