/-
Specification side: a strict RFC 8259 decoder written directly from the grammar
(§§2–7: no leniency), independent of the parser model, and typed structural equality.

`decodeStrict` reads numbers the way C03 prescribes: a literal without fraction or exponent
that fits the platform int is an int, every other number in float64 range is the correctly
rounded float64. Objects keep the *last* duplicate. Texts outside the properties' domain
(number beyond float64 range, `\u` escape of a lone surrogate) yield `none` like invalid texts;
`isStrictJSON` tells the two apart.
-/
import Anytype.Model.Indent
namespace Anytype
namespace Strict

def isWs (c : Char) : Bool := c == ' ' || c == '\t' || c == '\n' || c == '\r'

def skipWs : Str → Str
  | [] => []
  | c :: t => if isWs c then skipWs t else c :: t

def takeDigits : Str → Str × Str
  | [] => ([], [])
  | c :: t => if F64.isDigit c then let (d, r) := takeDigits t; (c :: d, r) else ([], c :: t)

def digitsVal (ds : Str) : Nat := ds.foldl (fun n c => n * 10 + (c.toNat - 48)) 0

/-- RFC 8259 §6 number: `[-] int [frac] [exp]`; returns the value and the rest.
`outOfRange` is reported as `some (none, rest)`. -/
def number (s : Str) : Option (Option JVal × Str) :=
  let (neg, s1) : Bool × Str := match s with | '-' :: t => (true, t) | _ => (false, s)
  let (ip, s2) := takeDigits s1
  match ip with
  | [] => none
  | d0 :: more =>
    if d0 == '0' && !more.isEmpty then none      -- leading zero
    else
      let (fp, s3, hasFrac) : Str × Str × Bool :=
        match s2 with
        | '.' :: t => let (f, r) := takeDigits t; (f, r, true)
        | _ => ([], s2, false)
      if hasFrac && fp.isEmpty then none
      else
        let expRes : Option (Option Int × Str) :=
          match s3 with
          | c :: t =>
            if c == 'e' || c == 'E' then
              let (esign, t') : Int × Str := match t with | '+' :: u => (1, u) | '-' :: u => (-1, u) | _ => (1, t)
              let (ed, r) := takeDigits t'
              if ed.isEmpty then none
              else
                -- cap the magnitude; anything beyond is out of float64 range or zero anyway
                let sig := ed.dropWhile (· == '0')
                let ev := if sig.length > 6 then 1000000 else digitsVal sig
                some (some (esign * (ev : Int)), r)
            else some (none, s3)
          | [] => some (none, [])
        match expRes with
        | none => none
        | some (ex, rest) =>
          let m := digitsVal (ip ++ fp)
          if !hasFrac && ex.isNone then
            let iv : Int := if neg then -(m : Int) else (m : Int)
            if -(2:Int)^63 ≤ iv ∧ iv < (2:Int)^63 then some (some (.int iv), rest)
            else
              match F64.roundRat neg m 1 with
              | some f => some (some (.float f), rest)
              | none => some (none, rest)
          else
            let e10 : Int := ex.getD 0 - (fp.length : Int)
            if m == 0 then some (some (.float (F64.withSign neg F64.posZero)), rest)
            else
              let nd : Int := F64.decLen m
              if e10 + nd > 400 then some (none, rest)
              else if e10 + nd < -400 then some (some (.float (F64.withSign neg F64.posZero)), rest)
              else
                let (n, d) := if e10 ≥ 0 then (m * 10 ^ e10.toNat, 1) else (m, 10 ^ (-e10).toNat)
                match F64.roundRat neg n d with
                | some f => some (some (.float f), rest)
                | none => some (none, rest)

/-- string body after the opening quote; returns the decoded string and the rest after the
closing quote. `some (none, _)` = lone surrogate escape (outside the domain). -/
def stringBody : Nat → Str → Str → Bool → Option (Option Str × Str)
  | 0, _, _, _ => none
  | _ + 1, [], _, _ => none
  | fuel + 1, c :: t, acc, lone =>
    if c == '"' then some (if lone then none else some acc, t)
    else if c.toNat < 0x20 then none
    else if c != '\\' then stringBody fuel t (acc ++ [c]) lone
    else match t with
      | [] => none
      | e :: t' =>
        if e == '"' || e == '\\' || e == '/' then stringBody fuel t' (acc ++ [e]) lone
        else if e == 'b' then stringBody fuel t' (acc ++ ['\x08']) lone
        else if e == 'f' then stringBody fuel t' (acc ++ ['\x0c']) lone
        else if e == 'n' then stringBody fuel t' (acc ++ ['\n']) lone
        else if e == 'r' then stringBody fuel t' (acc ++ ['\r']) lone
        else if e == 't' then stringBody fuel t' (acc ++ ['\t']) lone
        else if e == 'u' then
          match hex4 t' with
          | none => none
          | some (r, t'') =>
            if 0xD800 ≤ r ∧ r < 0xDC00 then
              match t'' with
              | '\\' :: 'u' :: u =>
                match hex4 u with
                | some (low, u') =>
                  if 0xDC00 ≤ low ∧ low < 0xE000 then
                    stringBody fuel u' (acc ++ [charOfNat ((r - 0xD800) * 1024 + (low - 0xDC00) + 0x10000)]) lone
                  else stringBody fuel t'' (acc ++ [replacementChar]) true
                | none => none
              | _ => stringBody fuel t'' (acc ++ [replacementChar]) true
            else if 0xDC00 ≤ r ∧ r < 0xE000 then stringBody fuel t'' (acc ++ [replacementChar]) true
            else stringBody fuel t'' (acc ++ [charOfNat r]) lone
        else none

def startsWith (s : Str) (lit : Str) : Option Str :=
  if lit.isPrefixOf s then some (s.drop lit.length) else none

/-- result of decoding one value: `.bad` = not RFC 8259, `.dom` = valid but outside the domain -/
inductive R (α : Type) | ok (a : α) (rest : Str) | dom | bad
  deriving Repr

mutual
def value : Nat → Str → R JVal
  | 0, _ => .bad
  | fuel + 1, s =>
    match s with
    | [] => .bad
    | c :: t =>
      if c == '[' then
        match skipWs t with
        | ']' :: r => .ok (.list []) r
        | t1 => elements fuel t1 []
      else if c == '{' then
        match skipWs t with
        | '}' :: r => .ok (.obj []) r
        | t1 => members fuel t1 []
      else if c == '"' then
        match stringBody (t.length + 1) t [] false with
        | none => .bad
        | some (none, _) => .dom
        | some (some str, r) => .ok (.str str) r
      else if c == 't' then (match startsWith s "true".toList with | some r => .ok (.bool true) r | none => .bad)
      else if c == 'f' then (match startsWith s "false".toList with | some r => .ok (.bool false) r | none => .bad)
      else if c == 'n' then (match startsWith s "null".toList with | some r => .ok .null r | none => .bad)
      else match number s with
        | none => .bad
        | some (none, _) => .dom
        | some (some v, r) => .ok v r
/-- elements after '[' (at least one), input starts at a value -/
def elements : Nat → Str → List JVal → R JVal
  | 0, _, _ => .bad
  | fuel + 1, s, acc =>
    match value fuel s with
    | .bad => .bad
    | .dom => .dom
    | .ok v r =>
      match skipWs r with
      | ',' :: r' => elements fuel (skipWs r') (acc ++ [v])
      | ']' :: r' => .ok (.list (acc ++ [v])) r'
      | _ => .bad
/-- members after '{' (at least one), input starts at the key's quote -/
def members : Nat → Str → List (Str × JVal) → R JVal
  | 0, _, _ => .bad
  | fuel + 1, s, acc =>
    match s with
    | '"' :: t =>
      match stringBody (t.length + 1) t [] false with
      | none => .bad
      | some (none, _) => .dom
      | some (some k, r) =>
        match skipWs r with
        | ':' :: r1 =>
          match value fuel (skipWs r1) with
          | .bad => .bad
          | .dom => .dom
          | .ok v r2 =>
            match skipWs r2 with
            | ',' :: r' => members fuel (skipWs r') (setField acc k v)
            | '}' :: r' => .ok (.obj (setField acc k v)) r'
            | _ => .bad
        | _ => .bad
    | _ => .bad
end

/-- decode a complete JSON text (optional whitespace around one value) -/
def decode (s : Str) : R JVal :=
  match value (s.length + 1) (skipWs s) with
  | .ok v r => if (skipWs r).isEmpty then .ok v [] else .bad
  | x => x

def decodeStrict (s : Str) : Option JVal := match decode s with | .ok v _ => some v | _ => none
def isStrictJSON (s : Str) : Bool := match decode s with | .bad => false | _ => true

end Strict

/-! ### typed structural equality -/

mutual
/-- model of `isEqual` (the Go code: type assertion, count comparison, element-wise loop;
objects: iterate the receiver's fields and look each key up in the other) -/
def equalsJ : JVal → JVal → Bool
  | .null, .null => true
  | .bool a, .bool b => a == b
  | .int a, .int b => a == b
  | .float a, .float b => F64.eqGo a b
  | .str a, .str b => a == b
  | .list xs, .list ys => xs.length == ys.length && equalsList xs ys
  | .obj kvs, .obj kvs' => kvs.length == kvs'.length && equalsFields kvs kvs'
  | _, _ => false
def equalsList : List JVal → List JVal → Bool
  | [], _ => true
  | x :: xs, y :: ys => equalsJ x y && equalsList xs ys
  | _ :: _, [] => false
def equalsFields : List (Str × JVal) → List (Str × JVal) → Bool
  | [], _ => true
  | (k, v) :: kvs, other =>
    (match lookup other k with
     | some w => equalsJ v w
     | none => false) && equalsFields kvs other
end

end Anytype
