#!/bin/bash
# Statement coverage of /repo reached by the quick strata of all checks (diagnostic, not a check).
set -e
cd /verif/harness
export GOFLAGS=-mod=mod GOPROXY=off GOSUMDB=off GOTOOLCHAIN=local
W=$(mktemp -d)
go build -cover -coverpkg=github.com/DanielSvub/anytype,vharness -o $W/vh .
mkdir -p $W/cov
for p in STD C01 C03 C04 C05 C06 C07 C08 C09 C10 C11 C12 C13 C14 C15 C16 C17 C18 C19 C20; do GOCOVERDIR=$W/cov $W/vh $p -seed ${VERIF_SEED:-1} -out /dev/null >/dev/null 2>&1 || true; done
go tool covdata textfmt -i=$W/cov -pkg=github.com/DanielSvub/anytype -o $W/cover.txt
go tool cover -func=$W/cover.txt | awk '$3+0 < 100.0'
rm -rf $W
