#!/bin/bash
# False-alarm measurement by area: every behaviour-preserving refactoring of /verif/harmless against the quick checks of the
# properties that speak about its area (tools/harmtest.py does the work; all twenty properties per patch is tools/harmtest.py alone).
# usage: tools/harmarea.sh [-j N]   -> harmless_results.txt
cd "$(dirname "$0")/.."
J=5; [ "$1" = "-j" ] && J=$2
declare -A P=( [parser]=C03,C04,C20 [listmut]=C05,C09 [listview]=C14,C05 [listagg]=C18,C10 [object]=C06,C09 [treeform]=C10,C11 [serial]=C01,C16 [cloneeq]=C07,C08 [async]=C15 [ctor]=C12,C05 )
: > harmless_results.txt
for a in parser listmut listview listagg object treeform serial cloneeq async ctor; do
  echo "## area $a against ${P[$a]}" >> harmless_results.txt
  python3 tools/harmtest.py -j $J -p ${P[$a]} $(ls harmless | grep "^$a-") >> harmless_results.txt 2>&1
done
