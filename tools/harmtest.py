#!/usr/bin/env python3
"""False-alarm test: applies every behaviour-preserving refactoring of /verif/harmless (or the ids given) to a private
worktree of /repo and runs the quick check of EVERY property against it (N workers, each with a private snapshot of
/verif like tools/seedtest_par.py).  A VIOLATION line is an alarm on code where the property holds; the brief
accepts `no-failing-input-found` alarms from broken proof obligations, an alarm *with* a failing input would be a
defect of the machinery (or the refactoring is not behaviour-preserving after all).

usage: tools/harmtest.py [-j N] [-p C01,C05,...] [ids...]
"""
import json, os, shutil, subprocess, sys, tempfile, threading, queue

ROOT = os.path.dirname(os.path.dirname(os.path.abspath(__file__)))
HARM = os.path.join(ROOT, "harmless")
PROPS = ["C%02d" % i for i in range(1, 21)]


def sh(cmd, **kw):
    return subprocess.run(cmd, stdout=subprocess.PIPE, stderr=subprocess.STDOUT, text=True, **kw)


def main():
    args = sys.argv[1:]
    n, props = 4, PROPS
    while args[:1] and args[0] in ("-j", "-p"):
        if args[0] == "-j":
            n = int(args[1])
        else:
            props = args[1].split(",")
        args = args[2:]
    ids = args or sorted(d for d in os.listdir(HARM) if os.path.isdir(os.path.join(HARM, d)))
    base = tempfile.mkdtemp(prefix="harmpar")
    q = queue.Queue()
    for i in ids:
        q.put(i)
    results, lock = {}, threading.Lock()

    def worker(w):
        wd = os.path.join(base, "w%d" % w)
        os.makedirs(wd)
        verif, repo = os.path.join(wd, "verif"), os.path.join(wd, "repo")
        r = sh(["git", "-C", ROOT, "worktree", "add", "--detach", "-q", verif, "HEAD"])
        r2 = sh(["git", "-C", "/repo", "worktree", "add", "--detach", "-q", repo, "HEAD"])
        if r.returncode or r2.returncode:
            print("worker %d: cannot create worktrees: %s %s" % (w, r.stdout, r2.stdout)); return
        shutil.copytree(os.path.join(ROOT, "lean", ".lake"), os.path.join(verif, "lean", ".lake"), symlinks=True)
        env = dict(os.environ, VERIF_REPO=repo, VERIF_EVIDENCE_DIR=os.path.join(wd, "ev"), VERIF_REPLAY_DIR=os.path.join(wd, "rp"))
        while True:
            try:
                sid = q.get_nowait()
            except queue.Empty:
                break
            d = os.path.join(HARM, sid)
            a = sh(["git", "-C", repo, "apply", os.path.join(d, "patch.diff")])
            if a.returncode != 0:
                with lock:
                    print("%-18s APPLY-FAILED %s" % (sid, a.stdout.strip()[:200]), flush=True)
                continue
            alarms = []
            try:
                for prop in props:
                    c = sh([os.path.join(verif, "check"), prop, "quick"], env=env, cwd=verif)
                    viol = [l for l in c.stdout.splitlines() if l.startswith("VIOLATION")]
                    if c.returncode != 0 or viol:
                        kind = "nfi" if viol and all("no-failing-input-found" in l for l in viol) else "INPUT"
                        why = ""
                        for l in viol:
                            rp = l.split("replay=")[1].split()[0]
                            try:
                                txt = open(rp, errors="replace").read(4000)
                                why = " ".join(x for x in txt.splitlines()[:6] if "verdict" in x or "generated obligation" in x or "broken" in x)[:400]
                            except OSError:
                                pass
                        alarms.append((prop, kind, why))
            finally:
                sh(["git", "-C", repo, "checkout", "--", "."])
                sh(["git", "-C", repo, "clean", "-fdq"])
            with lock:
                results[sid] = alarms
                st = "QUIET" if not alarms else "ALARM " + " ".join("%s(%s)" % (p, k) for p, k, _ in alarms)
                print("%-18s %s" % (sid, st), flush=True)
                for p, k, why in alarms[:3]:
                    print("    %s: %s" % (p, why), flush=True)
        sh(["git", "-C", ROOT, "worktree", "remove", "--force", verif])
        sh(["git", "-C", "/repo", "worktree", "remove", "--force", repo])

    ts = [threading.Thread(target=worker, args=(i,)) for i in range(n)]
    for t in ts:
        t.start()
    for t in ts:
        t.join()
    shutil.rmtree(base, ignore_errors=True)
    quiet = sum(1 for v in results.values() if not v)
    nfi = sum(1 for v in results.values() if v and all(k == "nfi" for _, k, _ in v))
    inp = sorted(s for s, v in results.items() if any(k == "INPUT" for _, k, _ in v))
    print("summary: %d refactorings, %d quiet, %d alarm through a broken obligation only, %d alarm with an input %s" % (len(results), quiet, nfi, len(inp), inp))


if __name__ == "__main__":
    main()
