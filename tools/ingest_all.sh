#!/bin/bash
# ingest every delivered mutant under /tmp/mut/out/Cxx/mk that is not yet in /verif/seeded, then run seedtest on the new ones
cd /verif
new=""
for d in /tmp/mut/out/C*/m*; do
  [ -f "$d/patch.diff" ] || continue
  prop=$(basename $(dirname $d)); k=$(basename $d); id="$prop-$k"
  [ -d "seeded/$id" ] && continue
  [ -f "/tmp/mut/out/rejected-$id" ] && continue
  if python3 tools/ingest_mutant.py $prop $d $id; then new="$new $id"; else touch /tmp/mut/out/rejected-$id; fi
done
[ -n "$new" ] && python3 tools/seedtest.py $new
