#!/bin/bash
# ingest every delivered change under <base>/out/Cxx/mk that is not yet in /verif/seeded (id: Cxx-<tag>mk), then run seedtest on the new ones
# usage: tools/ingest_all.sh /tmp/mut "" | tools/ingest_all.sh /tmp/mut2 r2
base=${1:-/tmp/mut}; tag=${2:-}
cd /verif
new=""
for d in $base/out/C*/m*; do
  [ -f "$d/patch.diff" ] || continue
  prop=$(basename $(dirname $d)); k=$(basename $d); id="$prop-$tag$k"
  [ -d "seeded/$id" ] && continue
  [ -f "$base/out/rejected-$id" ] && continue
  if python3 tools/ingest_mutant.py $prop $d $id; then new="$new $id"; else touch $base/out/rejected-$id; fi
done
[ -n "$new" ] && python3 tools/seedtest.py $new
