#!/usr/bin/env python3
"""Verifies a seeded change delivered by a sub-agent and files it under /verif/seeded/<id>/.

  tools/ingest_mutant.py <property> <src dir with patch.diff, zz_demo_test.go, notes.txt> [<id>]

In a scratch worktree of /repo (outside /repo and /verif, removed afterwards): the demo passes on the
unchanged tree; with the patch the library compiles, the existing suite passes, the demo fails."""
import json, os, shutil, subprocess, sys

ENV = dict(os.environ, GOFLAGS="-mod=mod", GOPROXY="off", GOSUMDB="off", GOTOOLCHAIN="local")

def sh(cmd, cwd=None):
    return subprocess.run(cmd, cwd=cwd, env=ENV, stdout=subprocess.PIPE, stderr=subprocess.STDOUT, text=True, errors="replace")

def main():
    prop, src = sys.argv[1], sys.argv[2]
    sid = sys.argv[3] if len(sys.argv) > 3 else "%s-%s" % (prop, os.path.basename(src.rstrip("/")))
    wt = "/tmp/mutverify-" + sid
    sh(["git", "-C", "/repo", "worktree", "remove", "--force", wt])
    r = sh(["git", "-C", "/repo", "worktree", "add", "--detach", wt, "HEAD"])
    if r.returncode != 0:
        print(r.stdout); return 2
    ran = []
    try:
        demo = os.path.join(src, "zz_demo_test.go")
        shutil.copy(demo, os.path.join(wt, "zz_demo_test.go"))
        a = sh(["go", "test", "-count=1", "-run", "Demo|demo|Test", "-v", "./..."], cwd=wt)  # demo + suite, unchanged tree
        clean_ok = a.returncode == 0
        ran.append("unchanged tree: go test (suite + demo) -> %s" % ("ok" if clean_ok else "FAIL"))
        os.remove(os.path.join(wt, "zz_demo_test.go"))
        b = sh(["git", "apply", os.path.join(src, "patch.diff")], cwd=wt)
        if b.returncode != 0:
            print("patch does not apply:", b.stdout); return 1
        c = sh(["go", "build", "./..."], cwd=wt)
        d = sh(["go", "test", "-vet=off", "-count=1", "./..."], cwd=wt)
        suite_ok = c.returncode == 0 and d.returncode == 0
        ran.append("with patch: go build + existing suite -> %s" % ("ok" if suite_ok else "FAIL"))
        shutil.copy(demo, os.path.join(wt, "zz_demo_test.go"))
        e = sh(["go", "test", "-count=1", "./..."], cwd=wt)
        demo_fails = e.returncode != 0
        ran.append("with patch: suite + demo -> %s" % ("demo fails (as required)" if demo_fails else "PASSES (demo does not detect)"))
        ok = clean_ok and suite_ok and demo_fails
        print(sid, "VERIFIED" if ok else "REJECTED", ran)
        if not ok:
            print((a.stdout[-800:] if not clean_ok else "") + (d.stdout[-800:] if not suite_ok else "") + (e.stdout[-300:] if not demo_fails else ""))
            return 1
        dst = os.path.join("/verif/seeded", sid)
        os.makedirs(dst, exist_ok=True)
        shutil.copy(os.path.join(src, "patch.diff"), dst)
        shutil.copy(demo, dst)
        notes = open(os.path.join(src, "notes.txt")).read() if os.path.exists(os.path.join(src, "notes.txt")) else ""
        json.dump({"id": sid, "property": prop, "check_with": [prop], "needs": notes.strip(), "verified_by": ran,
                   "origin": "independent sub-agent given only the property text and a scratch worktree"},
                  open(os.path.join(dst, "meta.json"), "w"), indent=1)
        return 0
    finally:
        sh(["git", "-C", "/repo", "worktree", "remove", "--force", wt])

if __name__ == "__main__":
    sys.exit(main())
