#!/bin/sh
# regenerates harness/cmd/vextract/baseline.go (names of the functions the committed /repo HEAD declares)
set -e
export GOFLAGS=-mod=mod GOPROXY=off GOSUMDB=off GOTOOLCHAIN=local
d=$(mktemp -d); trap 'rm -rf "$d"' EXIT
git -C /repo archive HEAD | tar -x -C "$d"
cd "$(dirname "$0")/mkbaseline" && go run . "$d" > ../../harness/cmd/vextract/baseline.go
