module mkbaseline

go 1.21
