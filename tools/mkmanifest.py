#!/usr/bin/env python3
"""Regenerates /verif/MANIFEST.json. A property is claimed when it has both a Props/<id>.lean file
(theorems) and a harness stratum; the others are listed under not_applicable with the reason."""
import json, os, re
ROOT = os.path.dirname(os.path.dirname(os.path.abspath(__file__)))
props = [json.loads(l) for l in open(os.path.join(ROOT, "properties.jsonl"))]
harness_src = "".join(open(os.path.join(ROOT, "harness", f)).read() for f in os.listdir(os.path.join(ROOT, "harness")) if f.endswith(".go"))
NOTES = {
    "C15": "partial: the theorems are about the goroutine LTS of Model/Async (all element counts, all schedules); real-memory data races, scheduler fairness and GOMAXPROCS effects are outside the model — the race detector, controlled completion orders and the regenerated skeleton obligations (translator) are supporting evidence for that part",
    "C10": "partial by design: C10_malformed excludes the known finding K1 (sigil-leaf key) and non-canonical numerals, both stated explicitly in the theorem; K1 is listed in known_findings.txt",
}
from importlib.machinery import SourceFileLoader
GEN_FOR = SourceFileLoader("vcheck", os.path.join(ROOT, "check")).load_module().GEN_FOR
GEN_WHAT = {
    "ParserGenEq": "parser loops, parseField, ParseList/ParseObject", "StrGenEq": "unquoteJSON, quoteJSON, ParseFile",
    "TreeFormGenEq": "tree-form methods, serialize(), FormatString", "ListGenEq": "63 list methods", "ListGen2Eq": "Filter*, Min/Max, NewListFrom",
    "ObjectGenEq": "42 object methods incl. NewObjectFrom, parseVal, native", "CloneGenEq": "copy/isEqual/Clone/Equals (refinement)", "IntsInvariantL": "stored ints stay in range under every list operation, so the Filter equalities hold on reachable heaps", "IntsInvariantO": "the same for object operations, clone, tree-form writes and parser output",
    "StorageTie": "the statements that decide where list elements live = those the array-level model Model/Slices mirrors", "Async": "skeletons of the four async methods", "WriteSet": "write sets of every method", "Api": "classification of every interface method",
}
def gen_text(pid):
    mods = [m.split(".")[-1] for m in GEN_FOR.get(pid, [])]
    return "; ".join("%s (%s)" % (m, GEN_WHAT.get(m, "")) for m in mods)
checks, na = [], []
for p in props:
    pid = p["id"]
    has_props = os.path.exists(os.path.join(ROOT, "lean", "Anytype", "Props", pid + ".lean"))
    has_stratum = ('props["%s"]' % pid) in harness_src
    if not (has_props and has_stratum):
        na.append({"property_id": pid, "reason": "not yet claimed: %s%s (work in progress, see DESIGN.md §10)" % (
            "" if has_props else "theorems not integrated yet", "" if has_stratum else " no harness stratum yet")})
        continue
    checks.append({
        "property_id": pid,
        "quick_cmd": "./check %s quick" % pid,
        "thorough_cmd": "./check %s thorough" % pid,
        "evidence_file": "/verif/evidence/%s.json" % pid,
        "replay_cmd_template": "./check %s --replay {path}" % pid,
        "engine": "lean-model+correspondence",
        "level_claimed": {"category": "proof",
                          "text": "Lean 4 theorems (lean/Anytype/Props/%s.lean) about an executable model of the code, for all inputs/states/histories with no bound; the model is tied to /repo on every run in two ways: (1) translators regenerate Lean definitions from the current Go source of the functions the property rests on and their equality with (or refinement of) the model is re-proved by the kernel — %s; (2) a correspondence run re-executes the recorded behaviour of the real library on the same Lean definitions, and the property's specification is evaluated as a monitor on the implementation's own outputs" % (pid, gen_text(pid)),
                          "design_ref": "DESIGN.md §6-%s" % pid},
        "level_note": NOTES.get(pid, "trusted: Lean kernel (axioms propext, Classical.choice, Quot.sound only, audited per run); the translators' reading of Go (restructuring rules listed at the top of harness/cmd/vextract/*.go); for functions that are not translated and for the Go standard library the model<->implementation tie is sampled, not proved; Go stdlib is modelled (stdlib-conformance stratum on every run); explicit hypotheses in theorem statements stand for unverified library behaviour (sort returns a sorted permutation, FloatArith order laws, the goroutine LTS; the float-formatting contract is proved, not assumed)"),
        "technique": "Lean 4 proof over an executable model + model regenerated from source by a translator with equality/refinement re-proved on every run + differential correspondence check (Go harness -> compiled Lean driver) + specification monitors",
    })
m = {"version": 1, "setup_cmd": "./check --setup",
     "hooks": {"guard": "verif", "enable": "go build -tags verif (one hook: verif_hooks.go, func VerifListStorage — data pointer, length and capacity of a list's element slice, read by the slices stratum of C05/C09; every property itself is observable through the public API)",
               "baseline_off_cmd": "cd /repo && go test -vet=off -count=1 -json ./...", "source_commits": ["5a615e4"], "add_only": True},
     "engines": [{"name": "lean-model+correspondence", "path": "/verif/lean + /verif/harness + /verif/check",
                  "serves_properties": [c["property_id"] for c in checks],
                  "kind_free_text": "Lean 4.33 project (model, specs, theorems, compiled driver) + Go harness driving the real library in-process + python orchestrator"}],
     "checks": checks,
     "notes": "See DESIGN.md. Genuine defects found were repaired by 'fix:' commits in /repo and are recorded in known_findings.txt; K1 (C10) is a listed known finding.",
     "not_applicable": na}
json.dump(m, open(os.path.join(ROOT, "MANIFEST.json"), "w"), indent=1)
print("claimed:", [c["property_id"] for c in checks])
print("not claimed:", [n["property_id"] for n in na])
