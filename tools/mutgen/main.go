// mutgen: mechanical single-site mutants of the library (operator swaps, boundary constants, negated conditions,
// removed statements), one patch per mutant.  usage: mutgen <repo dir> <out dir>
// Each mutant is written as <out>/<id>/patch.diff (unified diff against the repo dir) with a one-line description
// in <out>/<id>/what.txt.  Filtering (compiles, the test suite passes) is done by tools/mutsweep.py.
package main

import (
	"bytes"
	"fmt"
	"go/ast"
	"go/parser"
	"go/printer"
	"go/token"
	"os"
	"os/exec"
	"path/filepath"
	"strconv"
	"strings"
)

type mutation struct {
	file, fn, what string
	apply          func() (undo func())
}

func main() {
	repo, out := os.Args[1], os.Args[2]
	entries, _ := os.ReadDir(repo)
	n := 0
	for _, e := range entries {
		name := e.Name()
		if !strings.HasSuffix(name, ".go") || strings.HasSuffix(name, "_test.go") {
			continue
		}
		path := filepath.Join(repo, name)
		fset := token.NewFileSet()
		f, err := parser.ParseFile(fset, path, nil, parser.ParseComments)
		if err != nil {
			panic(err)
		}
		orig, _ := os.ReadFile(path)
		var muts []mutation
		for _, d := range f.Decls {
			fd, ok := d.(*ast.FuncDecl)
			if !ok || fd.Body == nil {
				continue
			}
			fn := fd.Name.Name
			if fd.Recv != nil && len(fd.Recv.List) == 1 {
				t := fd.Recv.List[0].Type
				if s, ok := t.(*ast.StarExpr); ok {
					t = s.X
				}
				if id, ok := t.(*ast.Ident); ok {
					fn = id.Name + "." + fn
				}
			}
			collect(fset, fd, name, fn, &muts)
		}
		for _, m := range muts {
			undo := m.apply()
			var buf bytes.Buffer
			cfg := printer.Config{Mode: printer.UseSpaces | printer.TabIndent, Tabwidth: 8}
			if err := cfg.Fprint(&buf, fset, f); err != nil {
				undo()
				continue
			}
			undo()
			if bytes.Equal(buf.Bytes(), orig) {
				continue
			}
			n++
			id := fmt.Sprintf("M%04d", n)
			dir := filepath.Join(out, id)
			os.MkdirAll(dir, 0o755)
			tmp := filepath.Join(dir, "new.go")
			os.WriteFile(tmp, buf.Bytes(), 0o644)
			// the printer may reformat: diff against the re-printed original so that the patch holds only the mutation
			var obuf bytes.Buffer
			cfg.Fprint(&obuf, fset, f)
			otmp := filepath.Join(dir, "old.go")
			os.WriteFile(otmp, obuf.Bytes(), 0o644)
			cmd := exec.Command("diff", "-u", "--label", "a/"+name, "--label", "b/"+name, otmp, tmp)
			diff, _ := cmd.Output()
			os.WriteFile(filepath.Join(dir, "patch.diff"), diff, 0o644)
			os.WriteFile(filepath.Join(dir, "what.txt"), []byte(m.file+" "+m.fn+": "+m.what+"\n"), 0o644)
			os.Remove(tmp)
			os.Remove(otmp)
		}
	}
	fmt.Println(n, "mutants")
}

var swaps = map[token.Token][]token.Token{
	token.LSS: {token.LEQ}, token.LEQ: {token.LSS}, token.GTR: {token.GEQ}, token.GEQ: {token.GTR},
	token.EQL: {token.NEQ}, token.NEQ: {token.EQL}, token.LAND: {token.LOR}, token.LOR: {token.LAND},
	token.ADD: {token.SUB}, token.SUB: {token.ADD},
}

func pos(fset *token.FileSet, n ast.Node) string {
	p := fset.Position(n.Pos())
	return strconv.Itoa(p.Line)
}

func collect(fset *token.FileSet, fd *ast.FuncDecl, file, fn string, muts *[]mutation) {
	add := func(what string, apply func() func()) {
		*muts = append(*muts, mutation{file: file, fn: fn, what: what, apply: apply})
	}
	var walkStmts func(list *[]ast.Stmt)
	walkStmts = func(list *[]ast.Stmt) {
		for i := range *list {
			i := i
			st := (*list)[i]
			switch s := st.(type) {
			case *ast.ExprStmt:
				if c, ok := s.X.(*ast.CallExpr); ok {
					if id, ok := c.Fun.(*ast.Ident); ok && id.Name == "panic" {
						break
					}
				}
				add("line "+pos(fset, st)+": statement removed", func() func() {
					old := *list
					nl := append(append([]ast.Stmt{}, old[:i]...), old[i+1:]...)
					*list = nl
					return func() { *list = old }
				})
			case *ast.AssignStmt:
				if s.Tok != token.DEFINE {
					add("line "+pos(fset, st)+": assignment removed", func() func() {
						old := *list
						nl := append(append([]ast.Stmt{}, old[:i]...), old[i+1:]...)
						*list = nl
						return func() { *list = old }
					})
				}
			case *ast.IncDecStmt:
				add("line "+pos(fset, st)+": ++/-- removed", func() func() {
					old := *list
					nl := append(append([]ast.Stmt{}, old[:i]...), old[i+1:]...)
					*list = nl
					return func() { *list = old }
				})
			case *ast.IfStmt:
				add("line "+pos(fset, st)+": condition negated", func() func() {
					old := s.Cond
					s.Cond = &ast.UnaryExpr{Op: token.NOT, X: &ast.ParenExpr{X: old}}
					return func() { s.Cond = old }
				})
			}
		}
	}
	ast.Inspect(fd.Body, func(n ast.Node) bool {
		switch x := n.(type) {
		case *ast.BlockStmt:
			walkStmts(&x.List)
		case *ast.CaseClause:
			walkStmts(&x.Body)
		case *ast.BinaryExpr:
			for _, to := range swaps[x.Op] {
				to := to
				if x.Op == token.ADD {
					// string concatenation has no '-'
					if _, ok := x.X.(*ast.BasicLit); ok && x.X.(*ast.BasicLit).Kind == token.STRING {
						continue
					}
					if _, ok := x.Y.(*ast.BasicLit); ok && x.Y.(*ast.BasicLit).Kind == token.STRING {
						continue
					}
				}
				add("line "+pos(fset, x)+": "+x.Op.String()+" -> "+to.String(), func() func() {
					old := x.Op
					x.Op = to
					return func() { x.Op = old }
				})
			}
		case *ast.BasicLit:
			if x.Kind == token.INT {
				if v, err := strconv.ParseInt(x.Value, 0, 64); err == nil {
					for _, nv := range []int64{v + 1, v - 1} {
						nv := nv
						if nv < 0 {
							continue
						}
						add("line "+pos(fset, x)+": constant "+x.Value+" -> "+strconv.FormatInt(nv, 10), func() func() {
							old := x.Value
							x.Value = strconv.FormatInt(nv, 10)
							return func() { x.Value = old }
						})
					}
				}
			}
		case *ast.Ident:
			if x.Name == "true" || x.Name == "false" {
				add("line "+pos(fset, x)+": "+x.Name+" flipped", func() func() {
					old := x.Name
					if old == "true" {
						x.Name = "false"
					} else {
						x.Name = "true"
					}
					return func() { x.Name = old }
				})
			}
		}
		return true
	})
}
