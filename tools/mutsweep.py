#!/usr/bin/env python3
"""Systematic mutation sweep: runs the mechanical single-site mutants produced by tools/mutgen (operator swaps, boundary
constants, negated conditions, removed statements) through (1) the library's own test suite and, for the survivors,
(2) the quick checks of the properties that speak about the mutated function.  Classifies every surviving mutant as
reported with a failing input / reported through a broken obligation only / quiet.  The last two classes are what to
look at: either the mutant is equivalent (no failing input exists) or a stratum is missing.

usage: tools/mutsweep.py <mutants dir> [-j N] [ids...]       (mutants dir: output of mutgen)
"""
import json, os, re, shutil, subprocess, sys, tempfile, threading, queue

ROOT = os.path.dirname(os.path.dirname(os.path.abspath(__file__)))
GOENV = dict(os.environ, GOFLAGS="-mod=mod", GOPROXY="off", GOSUMDB="off", GOTOOLCHAIN="local")


def sh(cmd, **kw):
    return subprocess.run(cmd, stdout=subprocess.PIPE, stderr=subprocess.STDOUT, text=True, **kw)


def props_for(file, fn):
    """the properties whose statement speaks about the function"""
    f = fn.split(".")[-1]
    recv = fn.split(".")[0] if "." in fn else ""
    if file == "parser.go":
        return ["C03", "C04", "C20", "C01"]
    P = set()
    if re.search(r"serialize|String|quoteJSON", f):
        P |= {"C01", "C02", "C16"}
    if f in ("parseVal", "native") or re.search(r"^New(List|Object)From$|Native|^Slice$|^Dict$|Slice$", f):
        P |= {"C12", "C13"}
    if re.search(r"^(copy|isEqual|Clone|Equals)$", f):
        P |= {"C07", "C08"}
    if re.search(r"TF$", f):
        P |= {"C10", "C11"}
    if re.search(r"Async$", f):
        P |= {"C15"}
    if re.search(r"^(Sort|Reverse)$", f):
        P |= {"C17", "C05"}
    if re.search(r"^(IntSum|Sum|IntProd|Prod|Avg|IntMin|Min|IntMax|Max)$", f):
        P |= {"C18"}
    if re.search(r"^(ForEach|Map|Filter|Reduce|All)", f) and not f.endswith("Async"):
        P |= {"C14"}
    if re.search(r"^(Init|Ego|base)$", f):
        P |= {"C19"}
    if re.search(r"^(getVal|newAt|TypeOf|Get)", f) or recv.startswith("at"):
        P |= {"C12"}
    if recv == "list" or f in ("NewList", "NewListOf"):
        if not P or re.search(r"^(Add|Insert|Replace|Delete|Pop|Clear|Get|Count|Empty|Contains|IndexOf|Concat|SubList|NewList|NewListOf|TypeOf)", f):
            P |= {"C05", "C09"}
    if recv == "object" or f == "NewObject":
        if not P or re.search(r"^(Set|Unset|Clear|Get|Count|Empty|Keys|Values|Contains|KeyOf|KeyExists|Pluck|Merge|NewObject|TypeOf)", f):
            P |= {"C06", "C09"}
    if not P:
        P = {"C12", "C05", "C06"}
    return sorted(P)


def main():
    args = sys.argv[1:]
    mdir = args.pop(0)
    n = 6
    if args[:1] == ["-j"]:
        n = int(args[1]); args = args[2:]
    ids = args or sorted(d for d in os.listdir(mdir) if os.path.isdir(os.path.join(mdir, d)))
    base = tempfile.mkdtemp(prefix="mutsweep")
    q = queue.Queue()
    for i in ids:
        q.put(i)
    lock = threading.Lock()
    results = {}

    def worker(w):
        wd = os.path.join(base, "w%d" % w)
        os.makedirs(wd)
        verif, repo = os.path.join(wd, "verif"), os.path.join(wd, "repo")
        r = sh(["git", "-C", ROOT, "worktree", "add", "--detach", "-q", verif, "HEAD"])
        r2 = sh(["git", "-C", "/repo", "worktree", "add", "--detach", "-q", repo, "HEAD"])
        if r.returncode or r2.returncode:
            print("worker %d: cannot create worktrees: %s %s" % (w, r.stdout, r2.stdout)); return
        shutil.copytree(os.path.join(ROOT, "lean", ".lake"), os.path.join(verif, "lean", ".lake"), symlinks=True)
        env = dict(os.environ, VERIF_REPO=repo, VERIF_EVIDENCE_DIR=os.path.join(wd, "ev"), VERIF_REPLAY_DIR=os.path.join(wd, "rp"))
        while True:
            try:
                mid = q.get_nowait()
            except queue.Empty:
                break
            d = os.path.join(mdir, mid)
            what = open(os.path.join(d, "what.txt")).read().strip()
            file, fn = what.split(":")[0].split(" ")[:2]
            a = sh(["git", "-C", repo, "apply", os.path.join(d, "patch.diff")])
            if a.returncode != 0:
                with lock:
                    print("%s APPLY-FAILED %s" % (mid, what), flush=True)
                continue
            try:
                t = sh(["go", "test", "-count=1", "-timeout", "120s", "./..."], cwd=repo, env=GOENV)
                if t.returncode != 0:
                    verdict = "killed-by-tests" if "FAIL" in t.stdout and "[build failed]" not in t.stdout and "cannot" not in t.stdout.split("\n")[0] else "does-not-build"
                    if "[build failed]" in t.stdout or "# github.com" in t.stdout:
                        verdict = "does-not-build"
                    with lock:
                        results[mid] = verdict
                        print("%s %-16s %s" % (mid, verdict, what), flush=True)
                    continue
                outcome = []
                for prop in props_for(file, fn):
                    c = sh([os.path.join(verif, "check"), prop, "quick"], env=env, cwd=verif)
                    viol = [l for l in c.stdout.splitlines() if l.startswith("VIOLATION")]
                    if viol and not all("no-failing-input-found" in l for l in viol):
                        outcome.append(prop + ":input")
                    elif viol:
                        outcome.append(prop + ":nfi")
                    elif c.returncode != 0:
                        outcome.append(prop + ":rc%d" % c.returncode)
                    else:
                        outcome.append(prop + ":quiet")
                if any(o.endswith(":input") for o in outcome):
                    verdict = "input"
                elif any(o.endswith(":nfi") for o in outcome):
                    verdict = "nfi-only"
                else:
                    verdict = "QUIET"
                with lock:
                    results[mid] = verdict
                    print("%s %-16s %s   [%s]" % (mid, verdict, what, " ".join(outcome)), flush=True)
            finally:
                sh(["git", "-C", repo, "checkout", "--", "."])
                sh(["git", "-C", repo, "clean", "-fdq"])
        sh(["git", "-C", ROOT, "worktree", "remove", "--force", verif])
        sh(["git", "-C", "/repo", "worktree", "remove", "--force", repo])

    ts = [threading.Thread(target=worker, args=(i,)) for i in range(n)]
    for t in ts:
        t.start()
    for t in ts:
        t.join()
    shutil.rmtree(base, ignore_errors=True)
    from collections import Counter
    print("summary:", dict(Counter(results.values())))


if __name__ == "__main__":
    main()
