#!/usr/bin/env python3
"""Runs the checks against the seeded changes kept under /verif/seeded/<id>/ (patch.diff, meta.json).

  tools/seedtest.py [id ...]        default: all

For each one: git -C /repo apply patch.diff; run the quick check of the property it breaks (evidence and
replays go to a scratch directory so the committed evidence is not disturbed); git -C /repo checkout -- .
Prints one line per change: DETECTED (with or without a failing input) or MISSED. /repo is always restored."""
import json, os, subprocess, sys, tempfile, shutil

ROOT = os.path.dirname(os.path.dirname(os.path.abspath(__file__)))
SEEDED = os.path.join(ROOT, "seeded")

def sh(cmd, **kw):
    return subprocess.run(cmd, stdout=subprocess.PIPE, stderr=subprocess.STDOUT, text=True, **kw)

def main():
    ids = sys.argv[1:] or sorted(d for d in os.listdir(SEEDED) if os.path.isdir(os.path.join(SEEDED, d)))
    scratch = tempfile.mkdtemp(prefix="seedtest")
    env = dict(os.environ, VERIF_DEV_NO_PROOFS="1", VERIF_EVIDENCE_DIR=os.path.join(scratch, "ev"), VERIF_REPLAY_DIR=os.path.join(scratch, "rp"))
    results = {}
    try:
        for sid in ids:
            d = os.path.join(SEEDED, sid)
            meta = json.load(open(os.path.join(d, "meta.json")))
            if sh(["git", "-C", "/repo", "status", "--porcelain"]).stdout.strip():
                print("refusing: /repo is not clean"); return 2
            r = sh(["git", "-C", "/repo", "apply", os.path.join(d, "patch.diff")])
            if r.returncode != 0:
                print("%-14s APPLY-FAILED %s" % (sid, r.stdout.strip()[:200])); continue
            try:
                verdicts = []
                for prop in meta.get("check_with", [meta["property"]]):
                    tier = meta.get("tier", "quick")
                    c = sh([os.path.join(ROOT, "check"), prop, tier], env=env, cwd=ROOT)
                    viol = [l for l in c.stdout.splitlines() if l.startswith("VIOLATION")]
                    verdicts.append((prop, c.returncode, viol))
            finally:
                sh(["git", "-C", "/repo", "checkout", "--", "."])
                sh(["git", "-C", "/repo", "clean", "-fdq"])
            # a detection is exit code 1 together with a VIOLATION line naming the property whose check ran
            hit = [v for v in verdicts if v[1] == 1 and any(("property=%s " % v[0]) in l for l in v[2])]
            status = "MISSED"
            if hit:
                status = "DETECTED" + (" (no-failing-input-found)" if all("no-failing-input-found" in l for v in hit for l in v[2]) else " with failing input")
            results[sid] = status
            print("%-14s %-40s %s" % (sid, status, "; ".join("%s rc=%d %s" % (p, rc, " | ".join(v)[:160]) for p, rc, v in verdicts)), flush=True)
    finally:
        sh(["git", "-C", "/repo", "checkout", "--", "."])
        shutil.rmtree(scratch, ignore_errors=True)
    missed = [k for k, v in results.items() if v == "MISSED"]
    print("summary: %d detected, %d missed %s" % (len(results) - len(missed), len(missed), missed))
    return 0

if __name__ == "__main__":
    sys.exit(main())
