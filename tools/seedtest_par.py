#!/usr/bin/env python3
"""Parallel variant of seedtest.py: runs every seeded change of /verif/seeded (or the ids given) against the
checks, in N workers.  A worker owns a private snapshot of /verif (a git worktree of the committed HEAD with the
build output copied in) and a private git worktree of /repo; it applies the patch there and runs the check with
VERIF_REPO pointing at that tree (the check rebuilds everything from the tree it is given, exactly as it does for
/repo).  /repo itself is not touched.  Prints one line per change like seedtest.py and a summary.

usage: tools/seedtest_par.py [-j N] [ids...]
"""
import json, os, shutil, subprocess, sys, tempfile, threading, queue

ROOT = os.path.dirname(os.path.dirname(os.path.abspath(__file__)))
SEEDED = os.path.join(ROOT, "seeded")


def sh(cmd, **kw):
    return subprocess.run(cmd, stdout=subprocess.PIPE, stderr=subprocess.STDOUT, text=True, **kw)


def main():
    args = sys.argv[1:]
    n = 4
    if args[:1] == ["-j"]:
        n = int(args[1]); args = args[2:]
    ids = args or sorted(d for d in os.listdir(SEEDED) if os.path.isdir(os.path.join(SEEDED, d)))
    base = tempfile.mkdtemp(prefix="seedpar")
    q = queue.Queue()
    for i in ids:
        q.put(i)
    results, lock = {}, threading.Lock()

    def worker(w):
        wd = os.path.join(base, "w%d" % w)
        os.makedirs(wd)
        verif, repo = os.path.join(wd, "verif"), os.path.join(wd, "repo")
        r = sh(["git", "-C", ROOT, "worktree", "add", "--detach", "-q", verif, "HEAD"])
        r2 = sh(["git", "-C", "/repo", "worktree", "add", "--detach", "-q", repo, "HEAD"])
        if r.returncode or r2.returncode:
            print("worker %d: cannot create worktrees: %s %s" % (w, r.stdout, r2.stdout)); return
        shutil.copytree(os.path.join(ROOT, "lean", ".lake"), os.path.join(verif, "lean", ".lake"), symlinks=True)
        env = dict(os.environ, VERIF_DEV_NO_PROOFS="1", VERIF_REPO=repo,
                   VERIF_EVIDENCE_DIR=os.path.join(wd, "ev"), VERIF_REPLAY_DIR=os.path.join(wd, "rp"))
        while True:
            try:
                sid = q.get_nowait()
            except queue.Empty:
                break
            d = os.path.join(SEEDED, sid)
            meta = json.load(open(os.path.join(d, "meta.json")))
            a = sh(["git", "-C", repo, "apply", os.path.join(d, "patch.diff")])
            if a.returncode != 0:
                with lock:
                    print("%-14s APPLY-FAILED %s" % (sid, a.stdout.strip()[:200]), flush=True)
                continue
            verdicts = []
            try:
                for prop in meta.get("check_with", [meta["property"]]):
                    c = sh([os.path.join(verif, "check"), prop, meta.get("tier", "quick")], env=env, cwd=verif)
                    viol = [l for l in c.stdout.splitlines() if l.startswith("VIOLATION")]
                    verdicts.append((prop, c.returncode, viol))
            finally:
                sh(["git", "-C", repo, "checkout", "--", "."])
                sh(["git", "-C", repo, "clean", "-fdq"])
            hit = [v for v in verdicts if v[1] == 1 and any(("property=%s " % v[0]) in l for l in v[2])]
            status = "MISSED"
            if hit:
                status = "DETECTED" + (" (no-failing-input-found)" if all("no-failing-input-found" in l for v in hit for l in v[2]) else " with failing input")
            with lock:
                results[sid] = status
                print("%-14s %-40s %s" % (sid, status, "; ".join("%s rc=%d %s" % (p, rc, " | ".join(os.path.basename(x) for x in v)[:120]) for p, rc, v in verdicts)), flush=True)
        sh(["git", "-C", ROOT, "worktree", "remove", "--force", verif])
        sh(["git", "-C", "/repo", "worktree", "remove", "--force", repo])

    ts = [threading.Thread(target=worker, args=(i,)) for i in range(n)]
    for t in ts:
        t.start()
    for t in ts:
        t.join()
    shutil.rmtree(base, ignore_errors=True)
    missed = sorted(k for k, v in results.items() if v == "MISSED")
    soft = sorted(k for k, v in results.items() if "no-failing" in v)
    print("summary: %d changes, %d reported, %d missed %s; %d without a failing input %s" % (len(results), len(results) - len(missed), len(missed), missed, len(soft), soft))
    return 0


if __name__ == "__main__":
    sys.exit(main())
